"""C11 real-code streams with exact oracles that need *state* or *sub-topologies* (see c11.py / c11_streams.py).

 locate_histories    sequences of locate() calls on the SAME topology objects (base / refined / slice / subset / with groups) with the
                     SAME geometry function objects whose closed form depends on function arguments; argument values, tolerances,
                     skip_missing, weights, maxdist change from call to call.  The post-condition of the property is checked after
                     every call (exact targets: images of dyadic parametric points under the closed form with dyadic argument values);
                     a call that fails (or raises although every target is well inside) is repeated on freshly built objects to tell
                     a history dependent failure from a plain one.
 subtopo_interfaces  interfaces and boundaries of sub-topologies (slices, refinements, takes, hierarchical refinements and pipelines of
                     those) of structured meshes with periodic directions in 1-3 D.  Exact oracle from the meaning of the chains
                     (level-0 cell = Index items, dyadic box of the child items before the edge): every side of an interface is a facet
                     of exactly one element of the sub-topology, both sides are the same physical facet (modulo the period of periodic
                     root directions), the two owners differ, and f_index / f_coords / geom and their opposite() evaluate to exactly that.
"""
import numpy, traceback
from fractions import Fraction
from .c11 import fr, item_aff, compose, chain_aff, chain_dims_ok


def F(x):
    return Fraction(x)


def apply_aff(A, p):
    lin, off, td, fd = A
    return [sum((lin[i][j] * p[j] for j in range(fd)), Fraction(0)) + off[i] for i in range(td)]


# ====================================================================================================== sub-topology interfaces

class Decoded:
    """exact meaning of a chain rooted in a structured mesh of `nd` dimensions:
       cell  level-0 cell (the Index items), lo/hi  dyadic box (inside the unit cell) of the nd-dimensional items before the first
       updim, rest  affine map (unit cell coordinates) of everything after the Index items"""

    def __init__(self, chain, nd):
        from nutils import transform as T
        self.ok = False
        idx = chain[1:1 + nd]
        if len(chain) < 1 + nd or len(idx) != nd or not all(type(t) is T.Index and t.todims == nd and t.fromdims == nd for t in idx): return
        rest = tuple(chain[1 + nd:])
        if not chain_dims_ok(rest) or (rest and rest[0].todims != nd): return
        self.cell = tuple(int(t.index) for t in idx)
        self.rest = chain_aff(rest, nd)
        self.fromdims = rest[-1].fromdims if rest else nd
        sq = []
        for t in rest:
            if t.todims != t.fromdims: break
            sq.append(t)
        A = chain_aff(tuple(sq), nd)
        c0 = apply_aff(A, [Fraction(0)] * nd); c1 = apply_aff(A, [Fraction(1)] * nd)
        self.lo = [min(a, b) for a, b in zip(c0, c1)]; self.hi = [max(a, b) for a, b in zip(c0, c1)]
        # the box is only meaningful for axis aligned scalings (structured children): verify
        lin = A[0]
        if any(lin[i][j] != 0 for i in range(nd) for j in range(nd) if i != j) or any(lin[i][i] == 0 for i in range(nd)): return
        self.boxmap = A
        self.ok = True

    def point(self, p):
        """exact root (index space) coordinates of the facet / element point p"""
        loc = apply_aff(self.rest, p)
        return [Fraction(c) + v for c, v in zip(self.cell, loc)]

    def local(self, p):
        return apply_aff(self.rest, p)


def owner_of_side(side, elems, pts):
    """elements j whose cell equals the side's cell, whose box is nested with the box the side's edge was taken from, and whose
       closed box contains the facet points"""
    out = []
    for j, e in elems.get(side.cell, ()):
        nested = all(a < d and c < b for a, b, c, d in zip(side.lo, side.hi, e.lo, e.hi))   # open boxes intersect (dyadic: nested)
        if not nested: continue
        if all(all(l <= v <= h for v, l, h in zip(side.local(p), e.lo, e.hi)) for p in pts): out.append(j)
    return out


class SubtopoStream:

    def __init__(self, st):
        self.st = st; self.c = st.c; self.rng = st.rng; self.quick = st.quick
        self.ob = 'explore:subtopo-interfaces'

    # ---------------------------------------------------------------- generator
    def gen(self):
        """(label, root shape, periodic dims, geom, sub-topology) -- pipelines of real topology operations"""
        from nutils import mesh
        rng = self.rng
        nd = rng.choice([1, 1, 2, 2, 2, 3])
        hi = {1: 6, 2: 4, 3: 3}[nd]
        shape = [rng.randint(2, hi) for _ in range(nd)]
        per = [d for d in range(nd) if rng.random() < .65]
        topo, geom = mesh.rectilinear(shape, periodic=per)
        label = 'rect%s%s' % (shape, 'p%s' % per if per else '')
        t = topo
        for _ in range(rng.randint(1, 3)):
            structured = type(t).__name__ == 'StructuredTopology'
            op = rng.choice(['slice', 'slice', 'slice', 'refined', 'subset', 'take', 'refined_by'] if structured else ['refined', 'subset', 'take', 'refined_by'])
            n = len(t)
            if n == 0 or n > 150: break
            try:
                if op == 'slice':
                    sl = []
                    for m in t.shape:
                        r = rng.random()
                        if r < .25 or m == 0: sl.append(slice(None))
                        elif r < .45: sl.append(slice(0, rng.randint(1, m)))
                        elif r < .65: sl.append(slice(rng.randint(0, m - 1), m))
                        else:
                            a = rng.randint(0, m - 1); sl.append(slice(a, rng.randint(a + 1, m)))
                    u = t[tuple(sl)]; label += '[%s]' % ','.join(':' if s == slice(None) else '%d:%d' % (s.start, s.stop) for s in sl)
                elif op == 'refined':
                    if n > 40: continue
                    u = t.refined; label += '.refined'
                elif op in ('take', 'subset'):
                    idx = sorted(rng.sample(range(n), rng.randint(1, n)))
                    u = t.take(idx) if op == 'take' else t.subset(t.take(idx))
                    label += '.%s%s' % (op, idx if len(idx) <= 8 else '(%d)' % len(idx))
                else:
                    if n > 40: continue
                    idx = sorted(rng.sample(range(n), rng.randint(1, min(n, 2))))
                    u = t.refined_by(idx); label += '.refined_by%s' % idx
                len(u), len(u.transforms), len(u.references)
            except Exception as e:
                self.c.count('subtopo-op-skipped:%s:%s' % (op, type(e).__name__)); continue
            t = u
        return label, shape, per, geom, t

    # ---------------------------------------------------------------- the check of one sub-topology
    def check(self, label, shape, per, geom, S):
        from nutils import function
        c = self.c; nd = len(shape); ob = self.ob
        period = [shape[d] if d in per else 0 for d in range(nd)]
        if len(S) == 0 or len(S) > 300: c.count('subtopo:skipped-size'); return
        elems = {}
        decoded = []
        for j in range(len(S)):
            e = Decoded(tuple(S.transforms[j]), nd)
            if not e.ok or e.fromdims != nd: c.count('subtopo:undecodable-element'); return
            decoded.append(e); elems.setdefault(e.cell, []).append((j, e))
        replay0 = dict(op='subtopo-interfaces', label=label, shape=shape, periodic=per, nelems=len(S), topotype=type(S).__name__)
        for kind in ('interfaces', 'boundary'):
            try:
                I = getattr(S, kind)
                nI = len(I); len(I.transforms), len(I.opposites)
            except Exception as e:
                c.count('subtopo:%s-unavailable:%s' % (kind, type(e).__name__)); continue
            st = self.st
            st.tick(ob); c.case(('subtopo', label, kind), nontrivial=nI > 0)
            c.count('subtopo:%s:%s' % (kind, type(S).__name__)); c.count('subtopo-%s-facets' % kind, nI)
            if per: c.count('subtopo:periodic-root')
            if nI == 0: continue
            replay = dict(replay0, kind=kind, nfacets=nI)
            if len(I.transforms) != nI or len(I.opposites) != nI or len(I.references) != nI:
                st.fail(ob, 'subtopo-facets-length-mismatch', 'len of %s.%s and of its transforms / opposites / references differ' % (label, kind), replay); continue
            # ---- chain level (exact)
            fd = nd - 1
            pts = [[Fraction(0)] * fd, [Fraction(1)] * fd, [Fraction(1, 2)] * fd] if fd else [[]]
            pts = [p for p in pts]
            ks = list(range(nI)) if nI <= 80 else sorted(self.rng.sample(range(nI), 80))
            owners = {}
            bad = False
            for k in ks:
                sides = [('transforms', tuple(I.transforms[k]))]
                if kind == 'interfaces': sides.append(('opposites', tuple(I.opposites[k])))
                locs = []; own = []
                for sname, ch in sides:
                    d = Decoded(ch, nd)
                    if not d.ok or d.fromdims != fd:
                        st.fail(ob, 'subtopo-facet-chain-ill-formed', '%s.%s: %s[%d] = %r is not a chain from a facet into a cell of the structured root' % (label, kind, sname, k, ch), dict(replay, facet=k, side=sname)); bad = True; break
                    # a simplex-reference facet: its reference points are those of the (nd-1)-cube only for structured facets; use the real reference's vertices
                    fpts = [[fr(v) for v in p] for p in numpy.asarray(I.references[k].vertices)] if fd else [[]]
                    w = owner_of_side(d, elems, fpts)
                    if len(w) != 1:
                        st.fail(ob, 'interface-side-not-in-topology' if not w else 'interface-side-owner-ambiguous',
                                '%s.%s: side %s of facet %d (chain %r, cell %r) is a facet of %s element of the topology' % (label, kind, sname, k, ch, d.cell, 'no' if not w else 'more than one'),
                                dict(replay, facet=k, side=sname, chain=repr(ch), owners=w)); bad = True; break
                    own.append(w[0]); locs.append([d.point(p) for p in fpts]);
                    # the real lookup must find that element, with a remainder that is the same facet of it
                    try:
                        j, tail = S.transforms.index_with_tail(ch)
                        full = Decoded(tuple(S.transforms[int(j)]) + tuple(tail), nd)
                        good = int(j) == w[0] and full.ok and all(full.point(p) == d.point(p) for p in fpts)
                        got = (int(j), repr(tail))
                    except Exception as e:
                        good = False; got = type(e).__name__ + ': ' + str(e)[:100]
                    if not good:
                        st.fail(ob, 'interface-side-lookup-wrong', '%s.transforms.index_with_tail(%s.%s[%d]) gives %r; the chain is a facet of element %d' % (label, kind, sname, k, got, w[0]),
                                dict(replay, facet=k, side=sname, chain=repr(ch), owner=w[0], got=repr(got))); bad = True; break
                if bad: break
                owners[k] = (own, locs)
                if kind == 'interfaces':
                    diff = [[a - b for a, b in zip(x1, x2)] for x1, x2 in zip(*locs)]
                    same = all(all((v == 0) or (period[d_] and abs(v) == period[d_]) for d_, v in enumerate(row)) for row in diff) and all(row == diff[0] for row in diff)
                    if not same:
                        st.fail(ob, 'interface-sides-disagree', '%s.interfaces: the two sides of interface %d map shared points to different locations %r vs %r' % (label, k, locs[0], locs[1]),
                                dict(replay, facet=k, x=repr(locs[0]), xo=repr(locs[1]))); bad = True; break
                    if any(v != 0 for v in diff[0]): c.count('subtopo:seam-interface')
                    if own[0] == own[1] and not any(v != 0 for v in diff[0]):
                        st.fail(ob, 'interface-opposite-index-wrong', '%s.interfaces: both sides of interface %d belong to element %d' % (label, k, own[0]), dict(replay, facet=k)); bad = True; break
            if bad: continue
            # ---- function level: f_index / f_coords / geom and their opposites on the facets (exact: dyadic points)
            try:
                smp = I.sample('bezier', 2)
                funcs = [S.f_index, S.f_coords, geom]
                if kind == 'interfaces': funcs += [function.opposite(S.f_index), function.opposite(S.f_coords), function.opposite(geom)]
                vals = smp.eval(funcs)
            except Exception as e:
                st.fail(ob, 'facet-eval-raises', 'evaluating f_index / f_coords / geom of %s on its own %s raises %s: %s' % (label, kind, type(e).__name__, str(e)[:200]), dict(replay, traceback=traceback.format_exc()[-1500:])); continue
            for k in ks:
                idx = smp.getindex(k)
                P = [[fr(v) for v in p] for p in numpy.asarray(smp.points[k].coords)]
                for side in range(len(owners[k][0])):
                    ch = tuple((I.transforms, I.opposites)[side][k])
                    d = Decoded(ch, nd); e = decoded[owners[k][0][side]]
                    fi, fc, x = vals[3 * side: 3 * side + 3]
                    want_i = owners[k][0][side]
                    want_x = [d.point(p) for p in P]
                    want_c = [[(v - l) / (h - l) for v, l, h in zip(d.local(p), e.lo, e.hi)] for p in P]
                    # children of structured elements are positive scalings: local coordinate = (x - lo) / (hi - lo)
                    got_i = [int(v) for v in fi[idx]]
                    got_c = [[fr(v) for v in row] for row in numpy.asarray(fc[idx]).reshape(len(idx), nd)]
                    got_x = [[fr(v) for v in row] for row in numpy.asarray(x[idx]).reshape(len(idx), nd)]
                    sname = ('', 'opposite ')[side]
                    r2 = dict(replay, facet=k, side=side, chain=repr(ch))
                    if got_i != [want_i] * len(idx):
                        st.fail(ob, 'interface-opposite-index-wrong' if side else 'f_index-wrong', '%sf_index of %s on facet %d of its %s evaluates to %r, expected %d' % (sname, label, k, kind, got_i, want_i), dict(r2, got=got_i, want=want_i)); bad = True; break
                    if got_c != want_c:
                        st.fail(ob, 'f_coords-wrong', '%sf_coords of %s on facet %d of its %s differ from the facet points mapped into element %d' % (sname, label, k, kind, want_i), dict(r2, got=repr(got_c), want=repr(want_c))); bad = True; break
                    if got_x != want_x:
                        st.fail(ob, 'interface-sides-disagree', '%sgeom on facet %d of %s.%s evaluates to %r, the chain maps the points to %r' % (sname, k, label, kind, got_x, want_x), dict(r2, got=repr(got_x), want=repr(want_x))); bad = True; break
                if bad: break
            if not bad: c.traces += 1

    def run(self):
        N = 26 if self.quick else 400
        seen = set()
        for _ in range(N):
            try:
                label, shape, per, geom, S = self.gen()
            except Exception as e:
                self.c.count('subtopo-gen-skipped:' + type(e).__name__); continue
            if label in seen: continue
            seen.add(label)
            self.check(label, shape, per, geom, S)


# ====================================================================================================== locate histories

GEOM_KINDS = ['scale', 'scalevec', 'shift', 'affine', 'nonlin', 'const', 'plain']


def make_geom(kind, x, tag):
    """real geometry function object on the root geometry x (argument names carry `tag` so that two objects of a history do not share arguments)"""
    from nutils import function
    nd = x.shape[0]
    if kind == 'scale': return x * function.Argument('s' + tag, ())
    if kind == 'scalevec': return x * function.Argument('v' + tag, (nd,))
    if kind == 'shift': return x + function.Argument('t' + tag, (nd,))
    if kind == 'affine': return x * function.Argument('s' + tag, ()) + function.Argument('t' + tag, (nd,))
    if kind == 'nonlin': return x + function.Argument('a' + tag, ()) * x**2 / 8
    if kind == 'const': return x * 2 - 1
    return x


def closed_form(kind, tag, args, P):
    """the same map in closed form; P rows of parametric (root geometry) coordinates; works on Fractions and on floats"""
    s = args.get('s' + tag); v = args.get('v' + tag); t = args.get('t' + tag); a = args.get('a' + tag)
    out = []
    for p in P:
        if kind == 'scale': out.append([c * s for c in p])
        elif kind == 'scalevec': out.append([c * w for c, w in zip(p, v)])
        elif kind == 'shift': out.append([c + w for c, w in zip(p, t)])
        elif kind == 'affine': out.append([c * s + w for c, w in zip(p, t)])
        elif kind == 'nonlin': out.append([c + a * c * c / 8 for c in p])
        elif kind == 'const': out.append([c * 2 - 1 for c in p])
        else: out.append(list(p))
    return out


def stretch(kind, tag, args, pmax):
    """bound on |dX/dP| (per coordinate)"""
    if kind in ('scale', 'affine'): return abs(args['s' + tag])
    if kind == 'scalevec': return max(abs(w) for w in args['v' + tag])
    if kind == 'nonlin': return 1 + abs(args['a' + tag]) * pmax / 4
    if kind == 'const': return 2
    return 1


class Box:
    """a pool member of a history: a real topology object and the exact set of parametric points it covers (union of closed boxes)"""

    def __init__(self, name, topo, boxes, hmax):
        self.name = name; self.topo = topo; self.boxes = boxes; self.hmax = hmax

    def covers(self, p):
        return any(all(l <= v <= h for v, (l, h) in zip(p, b)) for b in self.boxes)


class LocateHistories:

    def __init__(self, st):
        self.st = st; self.c = st.c; self.rng = st.rng; self.quick = st.quick
        self.ob = 'explore:locate-history'

    # ---------------------------------------------------------------- building the objects of a history (deterministic from `spec`)
    def build(self, spec):
        from nutils import mesh
        if spec['base'] == 'rect':
            nodes = [numpy.array([float(o + h * i) for i in range(n + 1)]) for n, o, h in zip(spec['shape'], spec['origin'], spec['h'])]
            topo, x = mesh.rectilinear(nodes, periodic=spec['periodic'])
            cells = lambda sl: [[(o + h * a, o + h * b) for (a, b), o, h in zip(sl, spec['origin'], spec['h'])]]
            full = [(0, n) for n in spec['shape']]
            pool = [Box('base', topo, cells(full), max(spec['h']))]
            for m in spec['members']:
                if m[0] == 'refined': pool.append(Box('refined', topo.refined, cells(full), max(spec['h']) / 2))
                elif m[0] == 'slice':
                    pool.append(Box('slice', topo[tuple(slice(a, b) for a, b in m[1])], cells(m[1]), max(spec['h'])))
                elif m[0] == 'subset' or m[0] == 'take':
                    keep = m[1]
                    idx = [numpy.unravel_index(k, spec['shape']) for k in keep]
                    boxes = [[(o + h * int(i), o + h * (int(i) + 1)) for i, o, h in zip(mi, spec['origin'], spec['h'])] for mi in idx]
                    sub = topo.take(keep)
                    pool.append(Box(m[0], topo.subset(sub) if m[0] == 'subset' else sub, boxes, max(spec['h'])))
                elif m[0] == 'groups':
                    pool.append(Box('groups', topo.withsubdomain(part=topo.take(m[1])), cells(full), max(spec['h'])))
            domain = [(o, o + h * n) for n, o, h in zip(spec['shape'], spec['origin'], spec['h'])]
        else:
            topo, x = mesh.unitsquare(spec['n'], spec['base'])
            full = [[(Fraction(0), Fraction(1))] * 2]
            pool = [Box('base', topo, full, Fraction(1, spec['n']))]
            for m in spec['members']:
                if m[0] == 'refined': pool.append(Box('refined', topo.refined, full, Fraction(1, 2 * spec['n'])))
            domain = full[0]
        geoms = [(kind, tag, make_geom(kind, x, tag)) for kind, tag in spec['geoms']]
        return pool, geoms, x, domain

    def gen_spec(self):
        rng = self.rng
        if rng.random() < .8:
            nd = rng.choice([1, 2, 2, 3])
            shape = [rng.randint(1, {1: 6, 2: 4, 3: 2}[nd]) for _ in range(nd)]
            if rng.random() < .5: origin = [Fraction(0)] * nd; h = [Fraction(1)] * nd
            else: origin = [Fraction(rng.randrange(-8, 9), 4) for _ in range(nd)]; h = [Fraction(rng.choice([1, 2, 4, 8, 3]), 4) for _ in range(nd)]
            per = [d for d in range(nd) if shape[d] > 1 and rng.random() < .2]
            n = int(numpy.prod(shape))
            members = []
            for kind in rng.sample(['refined', 'slice', 'subset', 'take', 'groups'], rng.randint(0, 3)):
                if kind == 'refined': members.append(('refined',))
                elif kind == 'slice':
                    sl = []
                    for m in shape:
                        a = rng.randint(0, m - 1); sl.append((a, rng.randint(a + 1, m)))
                    if sl != [(0, m) for m in shape]: members.append(('slice', sl))
                elif n > 1:
                    members.append((kind, sorted(rng.sample(range(n), rng.randint(1, n - 1)))))
            spec = dict(base='rect', shape=shape, origin=origin, h=h, periodic=per, members=members)
        else:
            spec = dict(base=rng.choice(['triangle', 'mixed']), n=rng.choice([1, 2]), members=[('refined',)] if rng.random() < .5 else [])
        kinds = [rng.choice(GEOM_KINDS[:5]), rng.choice(GEOM_KINDS)]
        spec['geoms'] = [(k, str(i)) for i, k in enumerate(kinds)]
        return spec

    def gen_args(self, kind, tag, nd):
        rng = self.rng
        sc = lambda: Fraction(rng.choice([1, 2, 4, 8, 16, 3, 6, -4, -2, 12]), 4)
        a = {}
        if kind in ('scale', 'affine'): a['s' + tag] = sc()
        if kind == 'scalevec': a['v' + tag] = [sc() for _ in range(nd)]
        if kind in ('shift', 'affine'): a['t' + tag] = [Fraction(rng.randrange(-16, 17), 4) for _ in range(nd)]
        if kind == 'nonlin': a['a' + tag] = Fraction(rng.choice([0, 0, 1, 2, 4]), 4)
        return a

    def gen_point(self, box, domain, mode, highside=False):
        """dyadic parametric point: inside `box` (mode 'in'), in the root domain (mode 'dom'), or far outside (mode 'out')"""
        rng = self.rng
        if mode == 'out':
            p = [l + (h - l) * Fraction(rng.randrange(0, 17), 16) for l, h in domain]
            d = rng.randrange(len(p)); l, h = domain[d]
            p[d] = (h + (h - l) * (1 + Fraction(rng.randrange(1, 16), 16))) if (highside or rng.random() < .5) else (l - (h - l) * (1 + Fraction(rng.randrange(1, 16), 16)))
            return p
        if mode == 'in':
            return [l + (h - l) * Fraction(rng.randrange(0, 33), 32) for l, h in rng.choice(box.boxes)]
        # anywhere in the root domain, on a grid of 1/16 element: a point that is not covered by the member is at least h/16 away from it
        return [l + Fraction(rng.randrange(0, 16 * n + 1), 16 * n) * (h - l) for (l, h), n in zip(domain, self.cur_shape)]

    # ---------------------------------------------------------------- one call and its post-condition
    def call(self, member, geom, x, call):
        """run locate on the given objects; returns a canonical outcome"""
        from nutils.topology import LocateError
        kind, tag, g = geom
        args = {k: (numpy.array([float(v) for v in val]) if isinstance(val, list) else float(val)) for k, val in call['args'].items()}
        args.update(call['extra'])
        kw = dict(call['kw'])
        if call['weights'] is not None: kw['weights'] = numpy.array(call['weights'], dtype=float)
        if call['maxdist'] is not None: kw['maxdist'] = call['maxdist']
        target = numpy.array([[float(v) for v in row] for row in call['target']], dtype=float).reshape(len(call['target']), len(call['target'][0]))
        try:
            smp = member.topo.locate(g, target, arguments=args or None, skip_missing=call['skip'], **kw)
            X = numpy.asarray(smp.eval(g, args)); P = numpy.asarray(smp.eval(x))
            res = dict(kind='ok', X=X.reshape(-1, target.shape[1]), P=P.reshape(-1, target.shape[1]), npoints=smp.npoints)
            if call['weights'] is not None: res['integral'] = numpy.asarray(smp.integrate(x))
            return res
        except LocateError as e:
            return dict(kind='locate-error', msg=str(e)[:100])
        except Exception as e:
            return dict(kind='exc', msg=type(e).__name__ + ': ' + str(e)[:200], tb=traceback.format_exc()[-1200:])

    def judge(self, member, geom, call, res):
        """specification oracle for one call: ('ok'|'allowed'|'fail', signature, text)"""
        kind, tag, g = geom
        target = call['target']; ins = call['inside']; nd = len(target[0])
        pmax = max(abs(v) for row in call['par'] for v in row) + 1
        S = float(stretch(kind, tag, call['args'], pmax))
        kw = call['kw']
        # tolerance in physical space: `tol`, or `eps` (element coordinates) times the stretch of element -> physical; the least restrictive counts
        tolx = max(kw.get('tol', 0), kw.get('eps', 0) * S * float(member.hmax) * 2 * nd) * 1.001 + 1e-11 * max(1., S * float(pmax))
        if res['kind'] == 'exc':
            if res['msg'].startswith('IndexError') and call['skip'] and not any(ins):
                return 'fail', 'locate-no-point-located:indexerror', 'locate(skip_missing=True) raises IndexError instead of returning an empty sample when no target is located'
            return 'fail', 'locate-raises-other', 'locate raises ' + res['msg']
        if res['kind'] == 'locate-error':
            return ('allowed-inside' if all(ins) else 'ok'), None, None
        # closed form images of the located points (independent of the evaluation of the geometry with arguments)
        fargs = {k: ([float(v) for v in val] if isinstance(val, list) else float(val)) for k, val in call['args'].items()}
        Xc = numpy.array(closed_form(kind, tag, fargs, res['P'].tolist()), dtype=float).reshape(-1, nd)
        T = numpy.array([[float(v) for v in row] for row in target], dtype=float).reshape(-1, nd)
        X = res['X']
        if X.shape != Xc.shape:
            return 'fail', 'locate-wrong-points', 'sample evaluates to arrays of different shapes'
        if len(X) and numpy.abs(X - Xc).max() > 1e-9 * max(1., S * float(pmax)):
            return 'fail', 'locate-sample-inconsistent', 'the geometry evaluated on the located sample differs from its closed form applied to the root geometry on the same sample'
        if call['skip']:
            k = 0; skipped_inside = 0
            for row, i_ in zip(T, ins):
                if k < len(Xc) and numpy.abs(Xc[k] - row).max() <= tolx: k += 1
                elif i_: skipped_inside += 1
            if k != len(Xc):
                return 'fail', 'locate-skip-missing-wrong', 'locate(skip_missing=True) returns points that are not the in-order subsequence of located targets'
            located = k
            if any(not i_ for i_ in ins) and located > sum(ins):
                return 'fail', 'locate-accepts-outside-point', 'locate(skip_missing=True) locates a target that lies outside the topology'
            return ('allowed-inside' if skipped_inside else 'ok'), None, None
        if not all(ins):
            return 'fail', 'locate-accepts-outside-point', 'locate returns a sample although a target lies outside the topology'
        if Xc.shape != T.shape or numpy.abs(Xc - T).max() > tolx:
            return 'fail', 'locate-wrong-points', 'locate returns points whose images are not the targets in input order within tolerance (max distance %.3g, allowed %.3g)' % (
                numpy.abs(Xc - T).max() if Xc.shape == T.shape else float('nan'), tolx)
        if call['weights'] is not None:
            W = numpy.array(call['weights'], dtype=float)
            want = (W[:, None] * res['P']).sum(axis=0)
            if numpy.abs(res['integral'].reshape(-1) - want).max() > 1e-9 * max(1., numpy.abs(W).sum() * float(pmax)):
                return 'fail', 'locate-weights-wrong', 'integrating over the located sample does not give the weighted sum over the located points in input order'
        return 'ok', None, None

    # ---------------------------------------------------------------- one history
    def history(self, hid):
        rng = self.rng; c = self.c; st = self.st; ob = self.ob
        spec = self.gen_spec()
        pool, geoms, x, domain = self.build(spec)
        nd = x.shape[0]
        self.cur_shape = spec['shape'] if spec['base'] == 'rect' else [spec['n']] * 2
        ncalls = rng.randint(3, 6)
        calls = []
        im = rng.randrange(len(pool)); ig = 0
        prev_args = {}
        for icall in range(ncalls):
            if icall and rng.random() < .35: im = rng.randrange(len(pool))
            if icall and rng.random() < .3: ig = rng.randrange(len(geoms))
            member = pool[im]; kind, tag, g = geoms[ig]
            args = prev_args.get(ig) if (ig in prev_args and rng.random() < .2) else self.gen_args(kind, tag, nd)
            prev_args[ig] = args
            npts = rng.randint(1, 5)
            r = rng.random()
            modes = ['in'] * npts
            if r < .25: modes[rng.randrange(npts)] = rng.choice(['out', 'dom'])
            par = [self.gen_point(member, domain, m, highside=kind == 'nonlin') for m in modes]
            inside = [member.covers(p) if m != 'out' else False for p, m in zip(par, modes)]
            # points of the root domain that are not covered by the member are only usable as "outside" when they are clearly outside
            # (not on the boundary of a covered cell): covers() is exact on closed boxes, so a non covered point is at a dyadic distance > 0
            target = closed_form(kind, tag, args, par)
            # an almost affine geometry whose fit error is close to the tolerance is a recorded defect of its own (known_locate_fit):
            # keep the curved geometries far away from that zone (fit error >= 3e-5 for the element sizes and curvatures used here)
            curved = kind == 'nonlin' and args['a' + tag] != 0
            tol = rng.choice([1e-10, 1e-6, 1e-3])
            if curved and tol == 1e-3:
                tol = 1e-6; self.c.count('lochist:steered-away-from-fit-margin')
            kwkind = rng.random()
            kw = dict(tol=tol) if kwkind < .6 else dict(eps=tol) if kwkind < .85 else dict(tol=tol, eps=rng.choice([1e-10, 1e-6]))
            skip = rng.random() < .25
            weights = [rng.randrange(1, 9) / 4 for _ in range(npts)] if (not skip and rng.random() < .2) else None
            extra = {'unused': 3.} if rng.random() < .2 else {}
            maxdist = 1e6 if rng.random() < .15 else None
            calls.append(dict(member=im, geom=ig, args=args, par=par, inside=inside, target=target, kw=kw, skip=skip, weights=weights, extra=extra, maxdist=maxdist))
        replay = dict(op='locate-history', spec=repr(spec), calls=[dict((k, repr(v)) for k, v in cl.items()) for cl in calls])
        for icall, call in enumerate(calls):
            member = pool[call['member']]; geom = geoms[call['geom']]
            res = self.call(member, geom, x, call)
            st.tick(ob); c.case(('lochist', hid, icall, repr(spec), repr(call['par']), repr(call['args'])), nontrivial=icall > 0)
            verdict, sig, text = self.judge(member, geom, call, res)
            c.count('lochist:%s:%s:%s' % (member.name, geom[0], res['kind'])); c.count('lochist:call#%d' % min(icall, 3))
            if icall and call['geom'] == calls[icall-1]['geom'] and call['member'] == calls[icall-1]['member'] and call['args'] != calls[icall-1]['args'] and call['args']:
                c.count('lochist:same-objects-new-arguments')
            if verdict == 'ok':
                c.traces += 1; continue
            # failing or raising although inside: is it the history?  replay the single call on freshly built objects
            fpool, fgeoms, fx, _ = self.build(spec)
            fres = self.call(fpool[call['member']], fgeoms[call['geom']], fx, call)
            fverdict, fsig, ftext = self.judge(fpool[call['member']], fgeoms[call['geom']], call, fres)
            r2 = dict(replay, failing_call=icall, outcome=res['kind'], detail=res.get('msg'), fresh_outcome=fres['kind'], fresh_verdict=fverdict)
            if verdict == 'fail':
                if fverdict == 'ok':
                    st.fail(ob, 'locate-history-dependent:' + sig, 'call %d of a locate history (topology %s, geometry %s with arguments %r) fails: %s; the same call on freshly built objects is fine' % (
                        icall, member.name, geom[0], call['args'], text), r2)
                else:
                    st.fail(ob, sig, 'locate on %s (%s geometry, arguments %r): %s' % (member.name, geom[0], call['args'], text), r2)
                return
            # allowed by the property (raise / skip), but must not depend on earlier calls
            c.count('lochist:error-or-skip-although-inside')
            if fverdict == 'ok':
                st.disagree(ob, 'call %d of a locate history (topology %s, geometry %s, arguments %r) %s although every target is inside; the same call on freshly built objects locates all targets: the outcome depends on earlier calls' % (
                    icall, member.name, geom[0], call['args'], 'raises LocateError' if res['kind'] == 'locate-error' else 'skips targets'), r2)
                return

    def run(self):
        N = 16 if self.quick else 250
        for hid in range(N):
            self.history(hid)
