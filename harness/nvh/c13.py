"""C13 — argument manipulation commutes with evaluation.

Ties (all against the source selected by NUTILS_SRC):

(V) certified validation through the expression engine (Drivers/C13.lean = Model/Expr evaluator + binding of an
    argument to the value of another root + formal first-order coefficient):
      replace   real `function.replace_arguments(f, σ)` lowered  ==  f lowered, evaluated with every replaced argument
                bound to the Lean value of its replacement (chains, swaps, nested maps, inside integrals / loops / samples)
      linearize real `function.linearize(f, pairs)`  ==  coefficient of t in f(u + t·v)   (formal directional derivative)
      derivative real `function.derivative(f, u)`    ==  the same per entry of u
      factor    real `function.factor(f)` / `evaluable.factor` / `zero_all_arguments`  ==  f  (resp. f at zeros)
      degree    real `argument_degree`  >=  degree of the Lean normal form
    symbolically in all real arguments (for all argument values at once), else exactly at a sampled dyadic point,
    else confirmed on the real code before anything is reported.
(M) mechanism correspondence: `_argument_to_array` / `_Replace.__init__` vs Model/C13 `parse` / `replaceInit` on all
    documented spellings and malformed inputs; the loop of `util.shallow_replace` vs `Machine.step` (result and order of
    `func` calls) on random DAGs of a toy reducible class.
Specification oracles in Python (exact): announced `.arguments`, run-time rejection of wrongly shaped / typed values.
"""
import json, collections, warnings, re, itertools
import numpy
from . import ser, exprcheck as X, polykey
from .common import Infra

warnings.simplefilter('ignore')


# ------------------------------------------------------------------------------------------------ helpers

def feval(function, arr, values, timeout=20):
    def run():
        with numpy.errstate(all='ignore'):
            return numpy.asarray(function.eval(arr, values))
    return X.guarded(run, timeout)


def eval_failure(arr, kind, val):
    """root cause of a real evaluation that did not return a value: the simplifier not terminating is C01's subject"""
    if kind == 'hang' or (kind == 'exception' and 'caught in a loop' in str(val)):
        k, v = X.guarded(lambda: arr.as_evaluable_array.simplified, 10)
        if k == 'hang' or (k == 'exception' and 'caught in a loop' in str(v)):
            return dict(signature='evaluation:simplification-does-not-terminate', real_result='simplification of the lowered array does not terminate (%s)' % k)
        return dict(signature='evaluation:does-not-return', real_result=repr(val))
    return dict(real_result=repr(val))


def base_ok(c, f, simplified=None):
    """the array under manipulation must itself be evaluable (otherwise the property says nothing; C01 owns simplifier failures)"""
    k, v = X.guarded(lambda: f.as_evaluable_array.simplified, 10)
    if k != 'ok':
        c.count('base-array-not-simplifiable:' + (k if k == 'hang' else type(v).__name__))
        return False
    return True


class SimplifyHang(Exception):
    pass


def lower(arr, simplified=False):
    e = arr.as_evaluable_array
    if not simplified:
        return e
    k, v = X.guarded(lambda: e.simplified, 20)
    if k == 'ok':
        return v
    if k == 'hang' or 'caught in a loop' in str(v):
        raise SimplifyHang('simplification of the lowered array does not terminate')
    raise v


def lowering_failure(c, e, sig, what, replay):
    """lowering (+ simplification) of a manipulated array raised: the simplifier not terminating is the C01-family root cause"""
    if isinstance(e, SimplifyHang):
        c.failing_input('evaluation:simplification-does-not-terminate', str(e), replay)
    else:
        c.failing_input(sig + type(e).__name__, what % (type(e).__name__, str(e)[:160]), replay)


def tolist(v):
    return numpy.asarray(v).tolist()


def keys_close(res_a, res_b, rtol=1e-9, atol=1e-11):
    """two Lean results at a concrete point (keys are rationals or contain function atoms of rationals)"""
    if 'error' in res_a or 'error' in res_b or res_a['shape'] != res_b['shape']:
        return False
    try:
        for x, y in zip(res_a['data'], res_b['data']):
            a, b = polykey.to_float(x), polykey.to_float(y)
            if abs(a - b) > atol + rtol * max(abs(a), abs(b)):
                return False
    except Exception:
        return False
    return True


class Batch:
    """collects Lean requests; handlers run after one driver invocation"""

    def __init__(self, c):
        self.c = c; self.reqs = []; self.handlers = []

    def add(self, dicts, handler):
        self.handlers.append((len(self.reqs), len(dicts), handler))
        self.reqs += [json.dumps(d, separators=(',', ':')) for d in dicts]

    def run(self):
        out = []
        for a in self.c.model(self.reqs):
            if a.startswith('bad-request'):
                raise Infra('C13 driver rejected a request: ' + a[:300])
            out.append(json.loads(a))
        for start, n, h in self.handlers:
            h(*out[start:start+n])


def expr_requests(roots, values, **extra):
    """two requests for the same roots: real-valued arguments symbolic / everything at the sampled point"""
    fl = [k for k, v in values.items() if numpy.asarray(v).dtype.kind == 'f']
    l1, s = ser.request(roots, {k: v for k, v in values.items() if k not in fl}, symbolic={k: numpy.shape(values[k]) for k in fl})
    l2, _ = ser.request(roots, values)
    out = []
    for l in (l1, l2):
        d = json.loads(l); d['op'] = 'expr'; d.update(extra); out.append(d)
    return out, s


def settle(c, stream, sym, conc, target_conc, confirm, sig, what, replay):
    """verdict discipline for one Lean claim (entry of binds / lins / derivs, or a cmp string)"""
    vs = sym if isinstance(sym, str) else sym['verdict']
    vc = conc if isinstance(conc, str) else conc['verdict']
    if vs == 'same':
        c.count(stream + ':proved-symbolically-for-all-real-arguments'); c.traces += 1
        return 'sym'
    if vc == 'same':
        c.count(stream + ':equal-exactly-at-sample-point'); c.traces += 1
        return 'conc'
    bad, detail = confirm()
    if bad:
        detail = dict(detail)
        new = c.failing_input(detail.pop('signature', sig), what, dict(replay, **detail))
        c.count(stream + (':violation' if new else ':known-finding'))
        return 'violation'
    if vc == 'differ' and not isinstance(conc, str) and target_conc is not None and keys_close(conc['result'], target_conc):
        c.count(stream + ':equal-within-float-rounding-at-sample-point')   # numerically evaluated coefficients (factor)
        return 'rounding'
    if vc == 'differ':
        kind = 'differ'
    elif isinstance(conc, str):
        kind = 'error:cmp'
    else:
        r = conc.get('result') or {}
        tr = target_conc or {}
        kind = 'error:' + ('%s:%s' % (r.get('error'), str(r.get('what'))[:40]) if 'error' in r else 'target:%s:%s' % (tr.get('error'), str(tr.get('what'))[:40]))
    c.count(stream + ':not-decided-by-lean:' + kind)
    return 'undecided:' + kind


def spec_eval(c, stats, res, real, what, replay):
    """Lean concrete result of a tree vs its real evaluation (correspondence of the specification evaluator)"""
    m = X.compare_result(res, real)
    stats[m] += 1
    if m in ('shape', 'value') or m == 'error:illformed':
        c.broken_no_input('corr:spec-eval', 'Lean specification evaluator and real evaluation of the same tree disagree (%s): %s' % (m, what),
                          dict(replay, lean=res, real=tolist(real)))
        return False
    return m in ('exact', 'close')


def sig_of(arguments):
    return {k: (tuple(int(n) for n in s), d.__name__) for k, (s, d) in arguments.items()}


def describe(function, arr):
    try:
        return lower(arr).asciitree()
    except Exception as e:
        return 'unlowerable: %r' % e


def spec_repr(spec):
    def one(x):
        if isinstance(x, str): return x
        if hasattr(x, 'name') and hasattr(x, 'shape'): return 'Argument(%r,%r,%s)' % (x.name, tuple(x.shape), x.dtype.__name__)
        if hasattr(x, 'shape'): return 'Array%r' % (tuple(x.shape),)
        return repr(x)
    if isinstance(spec, str): return repr(spec)
    if isinstance(spec, dict): return '{' + ', '.join('%s: %s' % (one(k), one(v)) for k, v in spec.items()) + '}'
    return '[' + ', '.join(one(i) if isinstance(i, str) else '(%s, %s)' % (one(i[0]), one(i[1])) for i in spec) + ']'


OUTSIDE_SIG = 'replace:integral-by-integral-outside:loop-id-collision'


def outside_collision_minimal(function):
    """recorded minimal inputs of the open finding: an integral whose (non-scalar) argument is replaced, from outside, by another
    integral — (a) over the same elements (wrong value at the time of recording), (b) over a different number of elements
    (AssertionError in _make_loop_ids_unique).  Specification: the value of f with u bound to the value of g.  True = still fails."""
    from nutils import mesh
    topo, geom = mesh.rectilinear([3])
    basis = topo.basis('std', degree=1)
    J = function.J(geom)
    u = function.field('u', basis)
    f = topo.integral(u**2 * J, degree=2)
    fails = False
    for dom in (topo, topo[:2]):
        g = dom.integral(basis * geom[0] * J, degree=2)
        kg, gv = feval(function, g, {})
        kf, want = feval(function, f, dict(u=gv)) if kg == 'ok' else ('n/a', None)
        if kf != 'ok':
            raise Infra('C13: the components of the recorded input of %s do not evaluate' % OUTSIDE_SIG)
        kr, got = X.guarded(lambda: numpy.asarray(function.eval(function.replace_arguments(f, {'u': g}))), 20)
        fails = fails or not (kr == 'ok' and X.arrays_close(got, want))
    return fails


# ------------------------------------------------------------------------------------------------ the check

def run(c):
    import treelog
    with treelog.set(treelog.NullLog()):
        _run(c)


def _run(c):
    from nutils import function, evaluable as ev, _util as util
    from . import c13gen as G
    c.rule = ('function-level arrays generated through the public API (arithmetic, numpy ops, indexing, sums, stack/concatenate, field/dotarg, '
              'transcendental functions) over a pool of 10 Arguments (float scalars/vectors/matrices, int scalars); replacement maps: renames, swaps, chains, '
              'expressions mentioning replaced arguments, constants, absent keys, nested maps, in every documented spelling; integrals / samples on 4 small meshes; per-case pools whose arguments '
              'have 3-4 axes of (mostly) pairwise different lengths (replace, linearize / derivative, factor with first and second derivative and derivative through a replacement); trees of '
              'integrals / boundary / interface / sub-topology integrals connected by replacements inside the integrand or around the integral, 2-4 levels deep; '
              'a case is non-trivial when the manipulated array depends on >= 1 argument that the manipulation touches; distinct by nutils hash of the lowered result')
    c.assumptions += ['complex arguments are not generated', 'integer arguments and axis lengths are sampled, real arguments are symbolic',
                      'symbolic "same" relies on Props/Poly soundness of the polynomial normal form; the evaluator is executed, not kernel-reduced',
                      'a symbolic "differ"/"unsupported" is never a verdict: exact comparison at the sampled point, then confirmation on the real code',
                      'lowered integrals are serialised after `.simplified` (TransformCoords/TransformIndex/TransformLinear are outside the engine), and so are the trees of the many-axes stream (the unsimplified derivative of a factored form over a 24-entry argument has intermediates of 10^5..10^6 entries): for those streams C01 (simplification preserves value) is assumed',
                      'non-polynomial dependence on the differentiation argument: linearize/derivative are confirmed by central differences on the real code only (supporting evidence)']
    broken = c.build_and_audit()
    ok, out = c.build(['NutilsVerif.Model.C13Driver'])   # request handlers of Drivers/C13.lean, compiled once
    if not ok:
        raise Infra('NutilsVerif.Model.C13Driver does not build:\n' + out[-1500:])
    c.log('build and audit done')
    quick = c.tier == 'quick'
    rng = c.rng
    batch = Batch(c)

    # ---- open known findings: re-run their recorded inputs
    for entry in c.findings:
        if entry.get('status') == 'open' and entry.get('signature') == 'evaluation:simplification-does-not-terminate':
            u_ = function.Argument('u', (3,), float)
            k_, v_ = X.guarded(lambda: function.derivative(function.diagonalize(u_)[:, 0:2]**3, 'u').as_evaluable_array.simplified, 10)
            c.report_known_still_failing(entry, k_ == 'hang' or (k_ == 'exception' and 'caught in a loop' in str(v_)))
        if entry.get('status') == 'open' and entry.get('signature') == OUTSIDE_SIG:
            c.report_known_still_failing(entry, outside_collision_minimal(function))
    speceval = collections.Counter()

    def values_for(*arrays, extra=()):
        args = {}
        for a in arrays:
            for n, sd in a.arguments.items(): args.setdefault(n, sd)
        for n, sd in extra: args.setdefault(n, sd)
        return G.sample_values(rng, args)

    # =============================================================================== stream 1: replace (V)
    def replace_case(f, pool, gen, tag, simplified=False, nested=False, wrap=None):
        """build replace_arguments(f, σ) [and a second map on top], register the Lean claim and the oracles"""
        mode, pairs = G.replacement_map(rng, f, gen)
        if not pairs:
            c.count('replace:no-arguments'); return
        fsig = lambda k: pool[k]
        kind, spec = G.spell(rng, pairs, fsig)
        c.count('replace:map:' + mode); c.count('replace:spelling:' + kind)
        replay = dict(stream='replace', tag=tag, mode=mode, spelling=kind, spec=spec_repr(spec), f=describe(function, f), f_arguments=sig_of(f.arguments))
        try:
            R = function.replace_arguments(f, spec)
        except NameError as e:
            c.case(('replace-raise', tag, spec_repr(spec)))
            c.failing_input('argspec:argument-object-nameerror', 'replace_arguments with Argument objects as keys raises NameError: %s' % e, replay); return
        except Exception as e:
            c.case(('replace-raise', tag, spec_repr(spec)))
            c.failing_input('replace:raises:' + type(e).__name__, 'replace_arguments raises %s on a valid specification: %s' % (type(e).__name__, str(e)[:120]), replay); return
        # effective map (last binding of a key wins; keys that are not arguments of f are skipped)
        sigma = {}
        for k, v in pairs:
            if k in f.arguments:
                sigma[k] = function.Argument(v, *f.arguments[k]) if isinstance(v, str) else function.Array.cast(v)
        stages = [sigma]
        chain = [(f, R, sigma)]
        if nested:
            mode2, pairs2 = G.replacement_map(rng, R, gen)
            pairs2 = [(k, v) for k, v in pairs2 if k in pool]
            if pairs2:
                kind2, spec2 = G.spell(rng, pairs2, fsig)
                try:
                    R2 = function.replace_arguments(R, spec2)
                except NameError as e:
                    c.failing_input('argspec:argument-object-nameerror', 'replace_arguments with Argument objects as keys raises NameError: %s' % e, dict(replay, spec2=spec_repr(spec2))); return
                except Exception as e:
                    c.failing_input('replace:raises:' + type(e).__name__, 'nested replace_arguments raises %s: %s' % (type(e).__name__, str(e)[:120]), dict(replay, spec2=spec_repr(spec2))); return
                sigma2 = {k: (function.Argument(v, *R.arguments[k]) if isinstance(v, str) else function.Array.cast(v)) for k, v in pairs2 if k in R.arguments}
                stages = [sigma2, sigma]
                chain.append((R, R2, sigma2))
                replay.update(spec2=spec_repr(spec2), mode2=mode2)
                c.count('replace:nested')
        Rlast = chain[-1][1]
        # --- oracle: announced arguments (names, shapes, dtypes)
        for (g0, g1, sg) in chain:
            want = {n: sd for n, sd in g0.arguments.items() if n not in sg}
            ok = True
            for v in sg.values():
                for n, sd in v.arguments.items():
                    if n in want and want[n] != sd: ok = False
                    want.setdefault(n, sd)
            if ok and dict(g1.arguments) != want:
                c.failing_input('replace:announced-arguments-wrong', '.arguments of replace_arguments(f, …) is not (unreplaced arguments of f) + (arguments of the replacements)',
                                dict(replay, announced=sig_of(g1.arguments), expected=sig_of(want)))
        try:
            if wrap is not None:
                # the replacement sits inside the integrand: _Replace is lowered with points axes
                Rlast = wrap(Rlast); f = wrap(f)
            eR = lower(Rlast, simplified)
            eF = lower(f, simplified)
            eG = [[lower(v, simplified) for v in st.values()] for st in stages]
        except Exception as e:
            c.case(('replace-lower', tag, spec_repr(spec)))
            lowering_failure(c, e, 'replace:lowering-raises:', 'lowering of replace_arguments(f, …) raises %s: %s', replay); return
        # true dependencies must be announced
        actual = {a.name: (tuple(int(n.__index__()) for n in a.shape), a.dtype) for a in eR.arguments}
        if any(n not in Rlast.arguments or tuple(Rlast.arguments[n][0]) != s or Rlast.arguments[n][1] != d for n, (s, d) in actual.items()):
            c.failing_input('replace:announced-arguments-wrong', 'the lowered result depends on an argument that .arguments does not announce (or announces differently)',
                            dict(replay, announced=sig_of(Rlast.arguments), actual={n: (s, d.__name__) for n, (s, d) in actual.items()}))
        values = values_for(f, *[g1 for _, g1, _ in chain], *[v for st in stages for v in st.values()])
        roots = [eF, eR]; stage_idx = []
        for st, lows in zip(stages, eG):
            stage_idx.append({k: len(roots) + i for i, k in enumerate(st)})
            roots += lows
        try:
            reqs, s = expr_requests(roots, values, binds=[dict(stages=stage_idx, root=0, cmp=1)])
        except ValueError:
            c.count('replace:not-serialisable'); return
        touched = any(k in f.arguments for k in sigma)
        c.case(eR.__nutils_hash__, nontrivial=touched)
        if touched and len(c.samples) < 3:
            c.sample(dict(stream='replace', f_arguments=sig_of(f.arguments), spec=spec_repr(spec), result_arguments=sig_of(Rlast.arguments)))

        def real_sides():
            env = dict(values)
            for st in stages:
                new = {}
                for k, v in st.items():
                    kind, val = feval(function, v, env)
                    if kind != 'ok': return ('replacement-eval', kind, val), None, None
                    new[k] = val
                env = dict(env); env.update(new)
            k1, want = feval(function, f, env)
            k2, got = feval(function, Rlast, values)
            return None, (k1, want), (k2, got)

        def handler(a_sym, a_conc):
            err, W, Gt = real_sides()
            detail = {}
            real_bad = False
            if err is None:
                (k1, want), (k2, got) = W, Gt
                if k1 == 'ok' and k2 != 'ok':
                    real_bad = True; detail = dict(eval_failure(Rlast, k2, got), real_expected=tolist(want), arguments={k: tolist(v) for k, v in values.items()})
                elif k1 == 'ok' and k2 == 'ok' and not X.arrays_close(want, got):
                    real_bad = True; detail = dict(real_result=tolist(got), real_expected=tolist(want), arguments={k: tolist(v) for k, v in values.items()})
                if k2 == 'ok' and numpy.isfinite(got).all():
                    spec_eval(c, speceval, a_conc['results'][1], got, 'replaced tree', replay)
            out = settle(c, 'replace', a_sym['binds'][0], a_conc['binds'][0], a_conc['results'][1], lambda: (real_bad, detail),
                         'replace:value-differs' if not (err is None and Gt[0] != 'ok') else 'replace:evaluation-raises',
                         'replace_arguments(f, σ) does not evaluate to f with the replaced arguments bound to the values of their replacements', replay)
            if out in ('sym', 'conc') and real_bad:
                # Lean proves the trees equal but the real evaluation differs: evaluator problem of the real code or of the engine
                c.broken_no_input('corr:spec-eval', 'Lean finds replace correct but real evaluations differ', dict(replay, **detail))
        batch.add(reqs, handler)

    N1 = 60 if quick else 2400
    for i in range(N1):
        gen = G.FGen(rng, poly=rng.random() < .35)
        shape = rng.choice([(), (), (3,), (2,), (2, 3), (3, 3)])
        try:
            f = gen.array(shape, rng.randint(2, 4 if quick else 5))
        except Exception as e:
            c.count('generator-exception:' + type(e).__name__); continue
        for k, v in gen.hits.items(): c.count('gen:' + k, v)
        if not base_ok(c, f): continue
        replace_case(f, G.POOL, gen, 'plain', nested=rng.random() < .3)

    c.log('stream replace generated')
    topos = G.topologies()
    N1b = 14 if quick else 400
    for i in range(N1b):
        tname, topo, geom = topos[i % len(topos)]
        try:
            tag, g, finish, pool = G.integral_case(rng, tname, topo, geom)
            inside = rng.random() < .5
            I = g if inside else finish(g)
        except Exception as e:
            c.count('generator-exception:' + type(e).__name__); continue
        c.count('integral:' + tag.split(':')[1]); c.count('mesh:' + tname); c.count('integral:replacement-' + ('inside-integrand' if inside else 'outside'))
        gen = G.FGen(rng, poly=True, pool=pool)
        replace_case(I, pool, gen, 'integral:' + tag, simplified=True, nested=rng.random() < .25, wrap=finish if inside else None)

    c.log('stream replace-in-integrals generated')
    # =============================================================================== stream 2: linearize / derivative (V)
    def fd_confirm(f, L, pairs_arrays, values):
        """central differences on the real code: supporting evidence for non-polynomial dependence"""
        dirs = {}
        for k, v in pairs_arrays.items():
            kk, val = feval(function, v, values)
            if kk != 'ok': return None
            dirs[k] = val
        kl, lv = feval(function, L, values)
        if kl != 'ok': return ('raises', eval_failure(L, kl, lv))
        if not numpy.isfinite(lv).all(): return None
        errs = []; fds = []
        for h in (2.**-8, 2.**-11, 2.**-14):
            plus = dict(values); minus = dict(values)
            for k, dv in dirs.items():
                plus[k] = values[k] + h * dv; minus[k] = values[k] - h * dv
            k1, fp = feval(function, f, plus); k2, fm = feval(function, f, minus)
            if k1 != 'ok' or k2 != 'ok' or not (numpy.isfinite(fp).all() and numpy.isfinite(fm).all()): return None
            fd = (fp - fm) / (2 * h)
            fds.append(fd); errs.append(float(numpy.abs(fd - lv).max(initial=0.)))
        scale = max(1., float(numpy.abs(fds[-1]).max(initial=0.)), float(numpy.abs(lv).max(initial=0.)))
        # a wrong derivative leaves an error that does not shrink with h; truncation error shrinks like h²
        agrees = min(errs) <= 1e-5 * scale or errs[-1] <= .25 * errs[0]
        return ('ok', bool(agrees), tolist(fds[-1]), tolist(lv), errs)

    def linearize_case(f, gen, pool, tag='plain', simplified=False):
        fkeys = [n for n, (s, d) in f.arguments.items() if d == float and n in pool]
        if not fkeys:
            c.count('linearize:no-real-argument'); return
        if not base_ok(c, f): return
        rng.shuffle(fkeys)
        keys = fkeys[:rng.randint(1, min(2, len(fkeys)))]
        pairs = []
        for k in keys:
            same = [o for o in pool if o != k and pool[o] == pool[k]]
            r = rng.random()
            if r < .45: pairs.append((k, G.FRESH[k]))
            elif r < .8: pairs.append((k, rng.choice(same)))
            else: pairs.append((k, gen.array(pool[k][0], rng.randint(0, 1))))
        if rng.random() < .2:
            absent = [o for o in pool if o not in f.arguments and pool[o][1] == float]
            if absent: pairs.append((absent[0], G.FRESH[absent[0]]))
        kind, spec = G.spell(rng, pairs, lambda k: pool[k])
        c.count('linearize:spelling:' + kind)
        replay = dict(stream='linearize', tag=tag, spec=spec_repr(spec), f=describe(function, f), f_arguments=sig_of(f.arguments))
        try:
            L = function.linearize(f, spec)
        except NameError as e:
            c.case(('lin-raise', spec_repr(spec)))
            c.failing_input('argspec:argument-object-nameerror', 'linearize with Argument objects as keys raises NameError: %s' % e, replay); return
        except Exception as e:
            c.case(('lin-raise', spec_repr(spec)))
            c.failing_input('linearize:raises:' + type(e).__name__, 'linearize raises %s on a valid specification: %s' % (type(e).__name__, str(e)[:120]), replay); return
        dk = keys[0]
        var = dk if rng.random() < .5 else function.Argument(dk, *f.arguments[dk])
        try:
            D = function.derivative(f, var)
        except Exception as e:
            c.failing_input('derivative:raises:' + type(e).__name__, 'derivative raises %s: %s' % (type(e).__name__, str(e)[:120]), dict(replay, var=dk)); return
        if rng.random() < .3:
            # derivative to an Argument the array does not depend on: zeros of shape f.shape + var.shape
            try:
                D0 = function.derivative(f, function.Argument('nn', (2,), float))
                k0_, v0_ = feval(function, D0, G.sample_values(rng, dict(D0.arguments)))
                if tuple(D0.shape) != tuple(f.shape) + (2,) or k0_ != 'ok' or numpy.asarray(v0_).any() or not set(f.arguments) <= set(D0.arguments):
                    c.failing_input('derivative:absent-argument-wrong', 'derivative of f to an Argument it does not depend on is not an array of zeros of shape f.shape + var.shape', dict(replay, shape=list(D0.shape), result=repr(v0_)[:200]))
                else:
                    c.count('derivative:absent-argument-zero')
            except Exception as e:
                c.failing_input('derivative:absent-argument-raises', 'derivative to an Argument f does not depend on raises %s' % type(e).__name__, replay)
            s0, d0 = f.arguments[dk]
            for what, bad_var in (('absent-name', 'nonexistent'), ('wrong-shape', function.Argument(dk, tuple(s0) + (2,), d0)), ('wrong-dtype', function.Argument(dk, s0, int)), ('not-an-argument', f)):
                try:
                    function.derivative(f, bad_var)
                    c.failing_input('derivative:accepts-' + what, 'derivative(f, var) accepts a variable that does not match the argument of f (%s)' % what, dict(replay, var=what))
                except ValueError:
                    c.count('derivative:rejected:' + what)
                except Exception as e:
                    c.failing_input('derivative:wrong-exception:' + what, 'derivative(f, var) raises %s instead of ValueError' % type(e).__name__, dict(replay, var=what))
        dirs = {k: (function.Argument(v, *f.arguments[k]) if isinstance(v, str) else function.Array.cast(v)) for k, v in pairs if k in f.arguments}
        # announced arguments / shapes
        want = dict(f.arguments)
        for v in dirs.values():
            for n, sd in v.arguments.items(): want.setdefault(n, sd)
        if dict(L.arguments) != want or tuple(L.shape) != tuple(f.shape):
            c.failing_input('linearize:announced-arguments-or-shape-wrong', 'linearize(f, pairs) has wrong .arguments or shape', dict(replay, announced=sig_of(L.arguments), expected=sig_of(want), shape=list(L.shape)))
        if tuple(D.shape) != tuple(f.shape) + tuple(f.arguments[dk][0]) or dict(D.arguments) != dict(f.arguments):
            c.failing_input('derivative:shape-or-arguments-wrong', 'derivative(f, u) has wrong shape or .arguments', dict(replay, shape=list(D.shape), announced=sig_of(D.arguments)))
        values = values_for(f, L, D, *dirs.values())
        try:
            eF, eL, eD = lower(f, simplified), lower(L, simplified), lower(D, simplified)
            roots = [eF, eL, eD]
            stage = {}; lpairs = {}
            for j, (k, v) in enumerate(dirs.items()):
                if isinstance(dict(pairs)[k], str):
                    lpairs[k] = dict(pairs)[k]
                else:
                    nm = '#d%d' % j; stage[nm] = len(roots); roots.append(lower(v, simplified)); lpairs[k] = nm
            reqs, s = expr_requests(roots, values, lins=[dict(root=0, pairs=lpairs, cmp=1, stages=[stage] if stage else [])],
                                    derivs=[dict(root=0, name=dk, cmp=2)])
        except ValueError:
            c.count('linearize:not-serialisable'); return
        except Exception as e:
            lowering_failure(c, e, 'linearize:lowering-raises:', 'lowering of linearize/derivative raises %s: %s', replay); return
        c.case(eL.__nutils_hash__, nontrivial=True)
        if len(c.samples) < 5: c.sample(dict(stream='linearize', f_arguments=sig_of(f.arguments), spec=spec_repr(spec)))

        def handler(a_sym, a_conc, f=f, L=L, D=D, dirs=dirs, values=values, replay=replay, dk=dk):
            # (a) linearize vs formal directional derivative
            def confirm_lin():
                r = fd_confirm(f, L, dirs, values)
                if r is None: return False, {}
                if r[0] == 'raises': return True, r[1]
                return (not r[1]), dict(finite_difference=r[2], real_result=r[3], errors_for_decreasing_h=r[4], arguments={k: tolist(v) for k, v in values.items()})
            out = settle(c, 'linearize', a_sym['lins'][0], a_conc['lins'][0], a_conc['results'][1], confirm_lin, 'linearize:value-differs',
                         'linearize(f, u:v) is not the directional derivative of f', replay)
            if out.startswith('undecided'):
                r = fd_confirm(f, L, dirs, values)
                c.count('linearize:finite-difference-confirmation:' + ('n/a' if r is None else 'agrees' if r[0] == 'ok' and r[1] else 'disagrees'))
            # (b) linearize vs contraction of the real derivative(s) with the directions (real code, exact data)
            kl, lv = feval(function, L, values)
            tot = 0.; okc = kl == 'ok'
            for k, v in dirs.items():
                kd, dv = feval(function, function.derivative(f, k), values)
                kv, vv = feval(function, v, values)
                if kd != 'ok' or kv != 'ok': okc = False; break
                nd = numpy.ndim(vv)
                tot = tot + (numpy.tensordot(dv, vv, axes=(list(range(dv.ndim - nd, dv.ndim)), list(range(nd)))) if nd else dv * vv)
            if okc and numpy.isfinite(lv).all() and numpy.isfinite(tot).all():
                c.count('linearize:contraction-checked')
                if not X.arrays_close(lv, numpy.broadcast_to(tot, lv.shape)):
                    c.failing_input('linearize:contraction-differs', 'linearize(f, u:v) differs from the contraction of derivative(f, u) with v over the axes of u',
                                    dict(replay, linearize=tolist(lv), contraction=tolist(tot), arguments={k: tolist(v) for k, v in values.items()}))
                spec_eval(c, speceval, a_conc['results'][1], lv, 'linearize tree', replay)
            elif kl != 'ok':
                d_ = eval_failure(L, kl, lv)
                c.failing_input(d_.pop('signature', 'linearize:evaluation-raises'), 'evaluation of linearize(f, …) does not return a value: %r' % (lv,), dict(replay, **d_))
            # (c) derivative vs formal partial derivatives
            def confirm_der():
                kd, dv = feval(function, D, values)
                if kd != 'ok': return True, eval_failure(D, kd, dv)
                base = numpy.asarray(values[dk], dtype=float)
                if not numpy.isfinite(dv).all(): return False, {}
                errs = []
                for h in (2.**-8, 2.**-11, 2.**-14):
                    cols = []
                    for idx in numpy.ndindex(base.shape):
                        e = numpy.zeros(base.shape); e[idx] = h
                        k1, fp = feval(function, f, dict(values, **{dk: base + e})); k2, fm = feval(function, f, dict(values, **{dk: base - e}))
                        if k1 != 'ok' or k2 != 'ok': return False, {}
                        cols.append((fp - fm) / (2 * h))
                    fd = numpy.stack(cols, -1).reshape(dv.shape) if cols else numpy.zeros(dv.shape)
                    if not numpy.isfinite(fd).all(): return False, {}
                    errs.append(float(numpy.abs(fd - dv).max(initial=0.)))
                scale = max(1., float(numpy.abs(fd).max(initial=0.)), float(numpy.abs(dv).max(initial=0.)))
                agrees = min(errs) <= 1e-5 * scale or errs[-1] <= .25 * errs[0]
                return (not agrees), dict(finite_difference=tolist(fd), real_result=tolist(dv), errors_for_decreasing_h=errs)
            settle(c, 'derivative', a_sym['derivs'][0], a_conc['derivs'][0], a_conc['results'][2], confirm_der, 'derivative:value-differs',
                   'derivative(f, u) is not the array of partial derivatives of f', replay)
        batch.add(reqs, handler)

    N2 = 50 if quick else 2000
    for i in range(N2):
        poly = rng.random() < .7
        gen = G.FGen(rng, poly=poly, ints=rng.random() < .3)
        shape = rng.choice([(), (3,), (2,), (2, 3), (3,)])
        try:
            f = gen.array(shape, rng.randint(1, 3 if quick else 4))
        except Exception as e:
            c.count('generator-exception:' + type(e).__name__); continue
        linearize_case(f, gen, G.POOL)

    c.log('stream linearize generated')
    # =============================================================================== stream 3: factor, zero_all_arguments, argument_degree (V)
    def degrees_of(e):
        out = {}
        for a in e.arguments:
            try:
                out[a.name] = e.argument_degree(a)
            except ev.NotPolynomal:
                out[a.name] = None
        return out

    def factor_case(f, tag, simplified, replay, allow_factor=True, gen=None, second=False):
        eF = lower(f, simplified)
        try:
            deg = degrees_of(eF.simplified)
        except Exception as e:
            c.failing_input('argument_degree:raises:' + type(e).__name__, 'argument_degree raises %s: %s' % (type(e).__name__, str(e)[:100]), replay); return
        names = sorted(n for n in f.arguments)
        dirargs = []; more = []; more_arrays = []
        polyn = all(d is not None for d in deg.values())
        total = sum(d for d in deg.values() if d is not None)
        roots = [eF]; extra = dict(degrees=[dict(root=0, names=names)], cmp=[], binds=[], lins=[])
        Fa = None
        if allow_factor and polyn and total <= (4 if quick else 5):
            kind, Fa = X.guarded(lambda: function.factor(f), 60)
            if kind != 'ok':
                c.case(('factor-raise', tag, eF.__nutils_hash__))
                c.failing_input('factor:raises:' + (type(Fa).__name__ if kind == 'exception' else 'hang'), 'function.factor raises / hangs on a polynomial array: %r' % (Fa,), replay)
                Fa = None
        if Fa is not None:
            if dict(Fa.arguments) != dict(f.arguments) or tuple(Fa.shape) != tuple(f.shape):
                c.failing_input('factor:announced-arguments-or-shape-wrong', 'factor(f) has wrong .arguments or shape', dict(replay, announced=sig_of(Fa.arguments)))
            try:
                eFa = lower(Fa, simplified)
            except Exception as e:
                lowering_failure(c, e, 'factor:lowering-raises:', 'lowering of factor(f) raises %s: %s', replay); return
            roots.append(eFa); extra['cmp'].append([0, 1])
            c.count('factor:degree-%d' % total)
            # derivative of the factored form (Monomial._derivative with its `powers` multiplicities)
            fkeys = sorted(n for n, (s, d) in f.arguments.items() if d == float)
            # `more`: further claims on the factored form (stream, index into lins, root of the real tree, real array, reference on f, certifying claim)
            if fkeys:
                # all real arguments at once when `second` (every Monomial._derivative branch in one claim), else one of them
                rng.shuffle(fkeys)
                lkeys = fkeys[:3] if second else fkeys[:1]
                P1 = {k: '#v' + k for k in lkeys}
                dirargs += [(v, f.arguments[k]) for k, v in P1.items()]
                try:
                    LFa = function.linearize(Fa, dict(P1))
                    roots.append(lower(LFa, simplified)); extra['lins'].append(dict(root=0, pairs=P1, cmp=len(roots) - 1))
                except NotImplementedError:
                    c.count('factor:derivative-not-implemented'); LFa = None
                except Exception as e:
                    lowering_failure(c, e, 'factor:derivative-raises:', 'linearize(factor(f)) raises %s: %s', replay); LFa = None
                if LFa is not None and second:
                    # (i) second derivative: linearize(f) is certified against the formal derivative of f, the second linearization of
                    #     the factored form against the formal derivative of that certified tree
                    k2 = rng.choice(fkeys)
                    try:
                        L1f = function.linearize(f, dict(P1))
                        L2f = function.linearize(L1f, {k2: '#w'})
                        L2Fa = function.linearize(LFa, {k2: '#w'})
                        i1 = len(roots); roots.append(lower(L1f, simplified)); roots.append(lower(L2Fa, simplified))
                        dirargs.append(('#w', f.arguments[k2]))
                        extra['lins'].append(dict(root=0, pairs=P1, cmp=i1))
                        extra['lins'].append(dict(root=i1, pairs={k2: '#w'}, cmp=i1 + 1))
                        more.append(('factor-second-derivative', len(extra['lins']) - 1, i1 + 1, L2Fa, L2f, ('lins', len(extra['lins']) - 2)))
                        c.count('factor:second-derivative')
                    except Exception as e:
                        lowering_failure(c, e, 'factor:second-derivative-raises:', 'the second derivative of factor(f) raises %s: %s', replay)
                    # (ii) replace an argument of the factored form by an expression and differentiate through it (chain rule in
                    #      Monomial._derivative): replace(f, k:g) is certified against f∘g, the derivative against that tree
                    if gen is not None:
                        try:
                            kr = rng.choice(fkeys)
                            g_ = gen.array(f.arguments[kr][0], rng.randint(0, 1))
                            Rf = function.replace_arguments(f, {kr: g_}); RFa = function.replace_arguments(Fa, {kr: g_})
                            tkeys = sorted(n for n, (s_, d_) in Rf.arguments.items() if d_ == float)
                        except Exception as e:
                            c.count('generator-exception:' + type(e).__name__); tkeys = []
                        if tkeys:
                            rng.shuffle(tkeys)
                            PR = {k_: '#r' + k_ for k_ in tkeys[:2]}
                            try:
                                LRf = function.linearize(Rf, dict(PR)); LRFa = function.linearize(RFa, dict(PR))
                                ig = len(roots); roots += [lower(g_, simplified), lower(Rf, simplified), lower(LRFa, simplified)]
                                dirargs += [(v_, Rf.arguments[k_]) for k_, v_ in PR.items()]
                                more_arrays.append(g_)
                                extra['binds'].append(dict(stages=[{kr: ig}], root=0, cmp=ig + 1))
                                extra['lins'].append(dict(root=ig + 1, pairs=PR, cmp=ig + 2))
                                more.append(('factor-replace-derivative', len(extra['lins']) - 1, ig + 2, LRFa, LRf, ('binds', len(extra['binds']) - 1)))
                                c.count('factor:replace-then-derivative')
                            except Exception as e:
                                lowering_failure(c, e, 'factor:replace-derivative-raises:', 'linearize(replace(factor(f), …)) raises %s: %s', replay)
        else:
            c.count('factor:skipped-' + ('int-arguments' if not allow_factor else 'nonpolynomial' if not polyn else 'degree>%d' % (4 if quick else 5) if total > (4 if quick else 5) else 'raised'))
        # zero_all_arguments vs binding every argument to zeros
        Z = ev.zero_all_arguments(eF)
        zi = len(roots); roots.append(Z)
        zstage = {}
        for a in eF.arguments:
            zstage[a.name] = len(roots); roots.append(ev.zeros_like(a))
        zb = len(extra['binds'])
        extra['binds'].append(dict(stages=[zstage], root=0, cmp=zi))
        values = values_for(f, *more_arrays, extra=dirargs)
        try:
            reqs, s = expr_requests(roots, values, **extra)
        except ValueError:
            c.count('factor:not-serialisable'); return
        c.case(('factor', eF.__nutils_hash__), nontrivial=Fa is not None)
        if Fa is not None and len(c.samples) < 6: c.sample(dict(stream='factor', f_arguments=sig_of(f.arguments), reported_degrees=deg, tag=tag))

        def handler(a_sym, a_conc):
            # degrees: reported >= true degree of the normal form
            true = a_sym['degrees'][0]
            if true is not None:
                for n, t in zip(names, true):
                    rep = deg.get(n, 0)
                    if t == -1:
                        c.count('argument_degree:true-nonpolynomial')
                        if rep is not None and n in deg:
                            c.failing_input('argument_degree:nonpolynomial-reported-polynomial', 'argument_degree reports a degree for an argument the array is not polynomial in', dict(replay, argument=n, reported=rep))
                    elif rep is None:
                        c.count('argument_degree:conservative-NotPolynomal')
                    else:
                        c.count('argument_degree:upper-bound-' + ('tight' if rep == t else 'slack')); c.traces += 1
                        if rep < t:
                            c.failing_input('argument_degree:underestimates', 'argument_degree is smaller than the true degree', dict(replay, argument=n, reported=rep, true=t))
            else:
                c.count('argument_degree:lean-error')
            # zero_all_arguments
            def confirm_zero():
                kz, zv = X.real_eval(Z, {}, simplify=True)
                zeros = {a.name: numpy.zeros([int(n.__index__()) for n in a.shape], dtype=a.dtype) for a in eF.arguments}
                kf, fv = X.real_eval(eF, zeros, simplify=True)
                if kz == 'exception': return True, dict(real_result=repr(zv))
                if kz == 'ok' and kf == 'ok': return (not X.arrays_close(zv, fv)), dict(real_result=tolist(zv), real_expected=tolist(fv))
                return False, {}
            settle(c, 'zero_all_arguments', a_sym['binds'][zb], a_conc['binds'][zb], a_conc['results'][zi], confirm_zero, 'zero_all_arguments:value-differs',
                   'zero_all_arguments(f) is not f at zero arguments', replay)
            if Fa is None: return
            kf, fv = feval(function, f, values); ka, av = feval(function, Fa, values)
            def confirm_factor():
                if ka != 'ok': return True, eval_failure(Fa, ka, av)
                if kf == 'ok' and numpy.isfinite(fv).all() and not X.arrays_close(fv, av, rtol=1e-8, atol=1e-10):
                    return True, dict(real_result=tolist(av), real_expected=tolist(fv), arguments={k: tolist(v) for k, v in values.items()})
                return False, {}
            conc = dict(verdict=a_conc['cmp'][0], result=a_conc['results'][0])
            settle(c, 'factor', a_sym['cmp'][0], conc, a_conc['results'][1], confirm_factor, 'factor:value-differs' if ka == 'ok' else 'factor:evaluation-raises',
                   'factor(f) does not evaluate to f', replay)
            if ka == 'ok' and numpy.isfinite(av).all():
                spec_eval(c, speceval, a_conc['results'][1], av, 'factored tree', replay)
            if extra['lins']:
                li = extra['lins'][0]['cmp']
                def confirm_against(got_arr, want_arr):
                    def confirm():
                        k1, want = feval(function, want_arr, values)
                        k2, got = feval(function, got_arr, values)
                        if k2 != 'ok': return True, eval_failure(got_arr, k2, got)
                        if k1 == 'ok' and numpy.isfinite(want).all() and not X.arrays_close(want, got, rtol=1e-8, atol=1e-10):
                            return True, dict(real_result=tolist(got), real_expected=tolist(want), arguments={k_: tolist(v_) for k_, v_ in values.items()})
                        return False, {}
                    return confirm
                settle(c, 'factor-derivative', a_sym['lins'][0], a_conc['lins'][0], a_conc['results'][li], confirm_against(LFa, function.linearize(f, dict(extra['lins'][0]['pairs']))),
                       'factor:derivative-differs', 'the derivative of factor(f) (Monomial._derivative) is not the derivative of f', replay)
                for stream_, il, ir, got_arr, want_arr, (pk, pi) in more:
                    # the claim is relative to a real tree that is itself certified by claim (pk, pi) of the same request
                    rel = lambda a: a['lins'][il] if a[pk][pi]['verdict'] == 'same' else dict(a['lins'][il], verdict='differ' if a['lins'][il]['verdict'] == 'same' else a['lins'][il]['verdict'])
                    settle(c, stream_, rel(a_sym), rel(a_conc), a_conc['results'][ir], confirm_against(got_arr, want_arr), 'factor:' + stream_[7:] + '-differs',
                           'the %s of factor(f) is not that of f' % stream_[7:].replace('-', ' '), replay)
        batch.add(reqs, handler)

    N3 = 40 if quick else 1400
    for i in range(N3):
        poly = rng.random() < .85
        ints = rng.random() < .15
        gen = G.FGen(rng, poly=poly, ints=ints)
        shape = rng.choice([(), (), (3,), (2,), (2, 3)])
        try:
            f = gen.array(shape, rng.randint(1, 3))
        except Exception as e:
            c.count('generator-exception:' + type(e).__name__); continue
        if rng.random() < .5:
            f = f + rng.choice([1., -2., .5])    # make sure constant terms occur
        if not base_ok(c, f): continue
        factor_case(f, 'plain', False, dict(stream='factor', f=describe(function, f), f_arguments=sig_of(f.arguments)), allow_factor=not any(d == int for s_, d in f.arguments.values()),
                    gen=G.FGen(rng, poly=True, ints=False), second=rng.random() < .4)
    N3b = 6 if quick else 150
    for i in range(N3b):
        tname, topo, geom = topos[i % len(topos)]
        try:
            tag, g, finish, pool = G.integral_case(rng, tname, topo, geom)
            I = finish(g)
        except Exception as e:
            c.count('generator-exception:' + type(e).__name__); continue
        factor_case(I, 'integral:' + tag, True, dict(stream='factor', integral=tag, f_arguments=sig_of(I.arguments)))

    c.log('stream factor generated')
    # =============================================================================== stream 3c: arguments with 3 or 4 axes (V)
    # the same three claims (replace, linearize / derivative, factor and its first / second derivative and derivative through a
    # replacement) over a per-case pool whose arguments have 3-4 axes of (mostly) pairwise different lengths
    N3c = 24 if quick else 320
    for i in range(N3c):
        pool, S = G.nd_pool(rng)
        gen = G.FGen(rng, poly=True, pool=pool, ints=False)
        try:
            f = G.nd_array(rng, gen, S)
        except Exception as e:
            c.count('generator-exception:' + type(e).__name__); continue
        for k, v in gen.hits.items(): c.count('gen:' + k, v)
        if not any(len(f.arguments[n][0]) >= 3 for n in f.arguments):
            c.count('nd:no-many-axes-argument'); continue
        c.count('nd:argument-axes-%d' % len(S)); c.count('nd:lengths-' + ('pairwise-different' if len(set(S)) == len(S) else 'repeated'))
        which = ('factor', 'factor', 'linearize', 'replace')[i % 4]
        c.count('nd:' + which)
        if which == 'factor':
            if not base_ok(c, f): continue
            factor_case(f, 'nd', True, dict(stream='factor', tag='nd', f=describe(function, f), f_arguments=sig_of(f.arguments)), gen=gen, second=True)
        elif which == 'linearize':
            linearize_case(f, gen, pool, tag='nd', simplified=True)
        else:
            if not base_ok(c, f): continue
            replace_case(f, pool, gen, 'nd', simplified=True, nested=rng.random() < .3)

    c.log('stream many-axes generated')
    # =============================================================================== stream 3d: nested replacements in / around integrals (V)
    nested_stream(c, batch, function, G, rng, topos + G.more_topologies(), 25 if quick else 200, speceval)

    c.log('stream nested generated')
    # =============================================================================== stream 4: spellings (M + oracle)
    spelling_stream(c, batch, function, ev, G, rng, 30 if quick else 800)

    c.log('stream spellings generated')
    # =============================================================================== stream 5: run-time checks of supplied values
    argcheck_stream(c, function, ev, G, rng, topos, 12 if quick else 200)

    c.log('stream argcheck done')
    # =============================================================================== stream 6: shallow_replace loop (M), arguments_for
    machine_stream(c, batch, util, rng, 40 if quick else 2500)
    arguments_for_stream(c, function, G, rng, 40 if quick else 1000)
    field_stream(c, function, rng, 30 if quick else 1000)

    c.log('generated %d lean requests' % len(batch.reqs))
    batch.run()
    c.log('lean answers processed')

    for k, v in speceval.items(): c.count('spec-eval:' + k, v)
    nse = speceval['exact'] + speceval['close']
    c.obligation('corr:spec-eval', not any(v[2] == 'broken:corr:spec-eval' for v in c.violations) and nse > 0, 'correspondence', '%d manipulated trees evaluated identically by the Lean specification evaluator and the real code' % nse)
    for stream in ('replace', 'linearize', 'derivative', 'factor', 'factor-derivative', 'zero_all_arguments', 'factor-second-derivative', 'factor-replace-derivative',
                   'nested-replace', 'nested-linearize'):
        ns = c.counters.get(stream + ':proved-symbolically-for-all-real-arguments', 0); nc = c.counters.get(stream + ':equal-exactly-at-sample-point', 0)
        if stream.startswith('nested'):
            # decided by the staged evaluation of the components on the real code in every case; Lean decides the cases whose lowered trees are free of Transform* / ArrayFromTuple nodes
            nreal = c.counters.get(stream + ':agrees-with-staged-real-evaluation', 0)
            c.obligation('valid:' + stream, c.counters.get(stream + ':violation', 0) == 0 and nreal > 0, 'validation', '%d agree with the staged evaluation on the real code; of these Lean: %d symbolic + %d at sample point' % (nreal, ns, nc))
            continue
        c.obligation('valid:' + stream, c.counters.get(stream + ':violation', 0) == 0 and ns + nc > 0, 'validation', '%d symbolic + %d at sample point' % (ns, nc))
    c.extra['proved_symbolically_for_all_real_arguments'] = sum(v for k, v in c.counters.items() if k.endswith(':proved-symbolically-for-all-real-arguments'))
    c.obligation('oracle:no-failing-input', not any(v[2] and not v[2].startswith('broken:') for v in c.violations), 'validation', 'no stream reported a failing input of the real code')
    for b in broken:
        c.broken_no_input('proof', b, dict(detail=b))


# ------------------------------------------------------------------------------------------------ spellings

def spelling_stream(c, batch, function, ev, G, rng, N):
    DT = {float: 'float', int: 'int', bool: 'bool', complex: 'complex'}
    ctxj = lambda args: [[n, [int(x) for x in s], DT[d]] for n, (s, d) in args.items()]
    arrays = {}   # id -> array (for 'array' values)

    def to_model(spec, f):
        def key(k):
            if isinstance(k, str): return {'name': k}
            if isinstance(k, function.Argument): return {'arg': [k.name, [int(x) for x in k.shape], DT[k.dtype]]}
            return {'other': True}
        def val(v):
            if isinstance(v, str): return {'name': v}
            if isinstance(v, function.Argument): return {'arg': [v.name, [int(x) for x in v.shape], DT[v.dtype]]}
            v = function.Array.cast(v); i = len(arrays); arrays[i] = v
            return {'array': [i, [int(x) for x in v.shape], DT[v.dtype], ctxj(v.arguments), bool(v.spaces)]}
        def item(it):
            if isinstance(it, str): return {'str': it}
            return {'pair': [key(it[0]), val(it[1])]}
        if isinstance(spec, str): return dict(kind='str', s=spec)
        if isinstance(spec, dict): return dict(kind='dict', items=[[key(k), val(v)] for k, v in spec.items()])
        return dict(kind='seq', items=[item(it) for it in spec])

    def classify(e):
        s = str(e)
        if isinstance(e, NameError): return 'NameError'
        if isinstance(e, ValueError):
            if 'unpack' in s: return 'unpack'
            if 'Key must be' in s: return 'keyType'
            if 'wrong shape or dtype' in s: return 'keySig'
            if 'but the replacement has shape' in s: return 'valShape'
            if 'but the replacement has dtype' in s: return 'valDtype'
            if 'cannot be bound to a space' in s: return 'boundToSpace'
            if 'two different shapes' in s: return 'joinShape'
            if 'two different dtypes' in s: return 'joinDtype'
        return 'other:' + type(e).__name__ + ':' + s[:60]

    from nutils import mesh
    topo1, geom1 = mesh.rectilinear([2])
    nparse = nrepl = nequiv = 0
    bad = 0
    # fixed corpus of specifications for f(u, v, w): every malformed / borderline form is exercised on every run
    U, V, W = (G.argument(n) for n in 'uvw')
    f0 = numpy.sum(U * V) + W
    corpus = ['', 'u', 'u:v,', ',u:v', 'u:a:b', 'u : v', ':', 'u:', ':v', 'u:v,u:w2', 'w:z,u:v', ['u'], ('u:v', 'zz'), [('u', 'd1'), (U, 'd2')], 'u:d1,u:d2,u:d3',
              [(U, 'v'), ('v', U)], {'u': V, 'v': U}, [(3, 'v')], {('u',): 'v'}, {'u': numpy.zeros((3, 1))}, {'u': numpy.zeros((3,), dtype=int)}, {'w': numpy.zeros((1,))},
              [(function.Argument('u', (4,), float), 'v')], [(function.Argument('u', (3,), int), 'v')], [('nonexistent', numpy.zeros((7,))), (function.Argument('other', (5,), int), numpy.zeros((2,)))],
              {'u': numpy.zeros(3) + numpy.sum(function.Argument('w', (2,), float))}, {'u': numpy.zeros(3) * numpy.sum(function.Argument('w', (), int))}, {'u': U * 2, 'w': numpy.sum(U)}]
    for i in range(N + len(corpus)):
        gen = G.FGen(rng, poly=True)
        x = function.Argument('x', (1,), float)
        try:
            f = f0 if i < len(corpus) else gen.array(rng.choice([(), (3,), (2, 3)]), rng.randint(1, 3))
            if i >= len(corpus) and rng.random() < .3: f = f + numpy.sum(x)
        except Exception:
            continue
        present = list(f.arguments); rng.shuffle(present)
        pool = dict(G.POOL); pool['x'] = ((1,), float)
        if not present: continue
        # ---- (i) equivalence of all spellings of one association of names (oracle: equality on the real code)
        assoc = []
        for k in present[:rng.randint(1, min(3, len(present)))]:
            same = [o for o in pool if o != k and pool[o] == pool[k]]
            assoc.append((k, rng.choice(same + [G.FRESH.get(k, 'y')] * 2)))
        absent = [o for o in pool if o not in f.arguments]
        if absent and rng.random() < .4: assoc.insert(rng.randint(0, len(assoc)), (rng.choice(absent), 'nn'))
        results = {}
        values = None
        for kind in ('dict', 'pairs', 'string', 'strings', 'argkeys', 'argvalues', 'argpairs', 'mixed'):
            _, spec = G.spell(rng, assoc, lambda k: pool[k], force=kind)
            try:
                R = function.replace_arguments(f, spec)
                Lz = function.linearize(f, spec)
            except NameError as e:
                c.failing_input('argspec:argument-object-nameerror', 'Argument objects as keys raise NameError: %s' % e, dict(stream='spellings', spec=spec_repr(spec), f_arguments=sig_of(f.arguments)))
                continue
            except Exception as e:
                c.failing_input('argspec:spelling-raises:' + kind, 'the documented spelling %r raises %s: %s' % (kind, type(e).__name__, str(e)[:100]), dict(stream='spellings', spec=spec_repr(spec), f_arguments=sig_of(f.arguments)))
                continue
            if values is None:
                values = G.sample_values(rng, {**dict(R.arguments), **dict(Lz.arguments)})
            kr, rv = feval(function, R, values); kl, lv = feval(function, Lz, values)
            results[kind] = (sig_of(R.arguments), tolist(rv) if kr == 'ok' else repr(rv), sig_of(Lz.arguments), tolist(lv) if kl == 'ok' else repr(lv))
        if results:
            ref = results.get('dict') or next(iter(results.values()))
            for kind, r in results.items():
                nequiv += 1; c.count('spellings:compared:' + kind)
                if r != ref:
                    bad += 1
                    if r[1] == ref[1] and r[2:] == ref[2:]:
                        c.failing_input('replace:announced-arguments-wrong', 'spelling %r of the same association announces different .arguments of replace_arguments than the dict spelling' % kind,
                                        dict(stream='spellings', assoc=assoc, f_arguments=sig_of(f.arguments), got=r[0], dict_spelling=ref[0]))
                        continue
                    c.failing_input('argspec:spellings-differ:' + kind, 'spelling %r of the same association gives different .arguments or values than the dict spelling' % kind,
                                    dict(stream='spellings', assoc=assoc, f_arguments=sig_of(f.arguments), got=r, dict_spelling=ref))
            c.case(('spellings', tuple(assoc), tuple(sorted(f.arguments))), nontrivial=True)
        # ---- (ii) model correspondence on one specification, well- or ill-formed
        mode = rng.choice(['valid', 'valid', 'badstring', 'wrongshape', 'wrongdtype', 'keyobj-wrong', 'keytype', 'dup', 'bound', 'absent-bad', 'conflict'])
        k0 = present[0]; s0, d0 = f.arguments[k0]
        if mode == 'valid':
            mp, pairs = G.replacement_map(rng, f, gen); _, spec = G.spell(rng, pairs, lambda k: pool[k])
        elif mode == 'badstring':
            spec = rng.choice(['', k0, k0 + ':v,', ',' + k0 + ':v', k0 + ':a:b', k0 + ' : v', ':', k0 + ':', [k0], (k0 + ':v', 'zz')])
        elif mode == 'wrongshape':
            spec = {k0: numpy.zeros(tuple(s0) + (1,))} if rng.random() < .5 else [(k0, numpy.zeros((1,) + tuple(s0)) if s0 else numpy.zeros((1,)))]
        elif mode == 'wrongdtype':
            spec = {k0: numpy.zeros(s0, dtype=int if d0 == float else float)}
        elif mode == 'keyobj-wrong':
            spec = [(function.Argument(k0, tuple(s0) + (2,), d0), 'v')] if rng.random() < .5 else [(function.Argument(k0, s0, int if d0 == float else float), 'v')]
        elif mode == 'keytype':
            spec = [(3, 'v')] if rng.random() < .5 else {(k0,): 'v'}
        elif mode == 'dup':
            spec = '%s:d1,%s:d2' % (k0, k0) if rng.random() < .5 else [(k0, 'd1'), (function.Argument(k0, s0, d0), 'd2')]
        elif mode == 'bound':
            spec = {'x': geom1} if 'x' in f.arguments else {k0: numpy.zeros(s0) + function.Array.cast(geom1[0]) if d0 == float else 'v'}
        elif mode == 'absent-bad':
            spec = [('nonexistent', numpy.zeros((7,))), (function.Argument('other', (5,), int), numpy.zeros((2,)))]
        elif mode == 'conflict':
            # replacement announces an argument that f also has, with a different shape: _join_arguments must object
            others = [n for n in f.arguments if n != k0]
            if not others: continue
            o = others[0]; so, do = f.arguments[o]
            clash = function.Argument(o, tuple(so) + (2,), do)
            spec = {k0: numpy.zeros(s0, dtype=d0) + (numpy.sum(clash) if d0 == float else numpy.sum(clash))}
        if i < len(corpus):
            mode = 'corpus'; spec = corpus[i]
        c.count('argspec:mode:' + mode)
        try:
            real_parse = ('ok', [(a.name, ('arg', n.name, tuple(n.shape), n.dtype) if isinstance(n, function.Argument) else ('array', tuple(n.shape), n.dtype)) for a, n in function._argument_to_array(spec, f)])
        except Exception as e:
            real_parse = ('error', classify(e))
        try:
            R = function.replace_arguments(f, spec)
            real_repl = ('ok', sig_of(R.arguments))
        except Exception as e:
            real_repl = ('error', classify(e))
        try:
            req = dict(op='spec', ctx=ctxj(f.arguments), spec=to_model(spec, f))
        except Exception as e:
            c.count('argspec:not-representable'); continue

        def handler(a, spec=spec, real_parse=real_parse, real_repl=real_repl, f=f, mode=mode):
            nonlocal nparse, nrepl
            replay = dict(stream='argspec', mode=mode, spec=spec_repr(spec), f_arguments=sig_of(f.arguments), model=a, real_parse=repr(real_parse), real_replace=repr(real_repl))
            if 'NameError' in (real_parse[1], real_repl[1]):
                c.failing_input('argspec:argument-object-nameerror', 'Argument objects as keys raise NameError', replay); return
            mp = a['parse']
            if 'ok' in mp:
                model_parse = ('ok', [(n, ('arg', r['arg'][0], tuple(r['arg'][1]), r['arg'][2]) if 'arg' in r else ('array', tuple(r['array'][1]), r['array'][2])) for n, r in mp['ok']])
                rp = ('ok', [(n, (t[0], t[1], tuple(int(x) for x in t[2]), DT[t[3]]) if t[0] == 'arg' else ('array', tuple(int(x) for x in t[1]), DT[t[2]])) for n, t in real_parse[1]]) if real_parse[0] == 'ok' else real_parse
            else:
                model_parse = ('error', mp['error']); rp = real_parse
            nparse += 1
            if model_parse != rp:
                # the model is the documented behaviour: a difference on a valid spec is a failing input, otherwise a broken correspondence
                if model_parse[0] == 'ok' and rp[0] == 'error':
                    c.failing_input('argspec:rejects-valid:' + str(rp[1])[:40], '_argument_to_array rejects a specification the documentation allows', replay)
                elif model_parse[0] == 'error' and rp[0] == 'ok' and model_parse[1] in ('valShape', 'valDtype', 'keySig'):
                    c.failing_input('argspec:accepts-wrong-' + model_parse[1], '_argument_to_array accepts a replacement / key of the wrong shape or dtype', replay)
                else:
                    c.broken_no_input('corr:argument_to_array', 'model and implementation of _argument_to_array disagree', replay)
            mr = a['replace']
            model_repl = ('ok', {n: (tuple(s), d) for n, s, d in mr['arguments']}) if 'arguments' in mr else ('error', mr['error'])
            nrepl += 1
            if model_repl != real_repl:
                if model_repl[0] == 'ok' and real_repl[0] == 'ok':
                    c.failing_input('replace:announced-arguments-wrong', '.arguments of replace_arguments differs from (unreplaced) + (arguments of replacements)', replay)
                elif model_repl[0] == 'error' and real_repl[0] == 'ok' and model_repl[1] in ('valShape', 'valDtype', 'keySig'):
                    c.failing_input('argspec:accepts-wrong-' + model_repl[1], 'replace_arguments accepts a replacement / key of the wrong shape or dtype', replay)
                elif model_repl[0] == 'error' and real_repl[0] == 'ok' and model_repl[1] in ('joinShape', 'joinDtype', 'boundToSpace'):
                    c.failing_input('replace:accepts-' + model_repl[1], 'replace_arguments accepts a replacement that conflicts (%s)' % model_repl[1], replay)
                else:
                    c.broken_no_input('corr:replace-init', 'model and implementation of _Replace.__init__ disagree', replay)
            c.case(('argspec', spec_repr(spec), tuple(sorted(f.arguments))), nontrivial=mode != 'valid' or bool(mp.get('ok')))
            c.count('argspec:outcome:' + (rp[0] if rp[0] == 'ok' else str(rp[1]).split(':')[0]))
        batch.add([req], handler)

    def fin():
        c.obligation('corr:argument_to_array', not any(v[2] == 'broken:corr:argument_to_array' for v in c.violations) and nparse > 0, 'correspondence', '%d specifications parsed identically by model and code' % nparse)
        c.obligation('corr:replace-init', not any(v[2] == 'broken:corr:replace-init' for v in c.violations) and nrepl > 0, 'correspondence', '%d announced argument maps' % nrepl)
        c.obligation('oracle:spellings-equivalent', bad == 0 and nequiv > 0, 'validation', '%d spellings compared with the dict spelling (arguments and values of replace and linearize)' % nequiv)
    batch.add([], fin)


# ------------------------------------------------------------------------------------------------ nested replacements

def nested_stream(c, batch, function, G, rng, topos, N, speceval):
    """trees of integrals / samples / plain expressions connected by replacements that are applied inside the integrand (lowered with
    points axes, inside the element loop of the enclosing integral, to any depth) or around the integral.
    Specification: evaluate bottom-up — every replaced argument bound to the value of its replacement (Lean: staged binding of the
    separately lowered components; real code: staged `function.eval` of the components)."""
    from . import ser
    state = collections.Counter()
    batch.add([], lambda: c.obligation('corr:nested-loop-ids', not state['ids-reported'] and state['ids-checked'] > 0, 'correspondence',
                                       '%d lowered constructions: no element loop nested (through replacements inside integrands) in a loop of the same id' % state['ids-checked']))
    for i in range(N):
        tname, topo, geom = topos[i % len(topos)]
        depth = rng.choice([2, 3, 3, 3, 4])
        try:
            top, free = G.nested_case(rng, tname, topo, geom, depth, friendly=rng.random() < .5)
            nodes = list(top.nodes_postorder())
            comps = {nd.ident: nd.component() for nd in nodes}
            R = top.build(rng)
        except Exception as e:
            c.count('generator-exception:' + type(e).__name__); continue
        chain = top.inside_chain(); risky = top.has_outside_by_integral()
        c.count('nested:depth-%d' % top.depth()); c.count('nested:loops-nested-through-inside-replacements-%d' % chain)
        c.count('nested:mesh:' + tname)
        for nd in nodes:
            c.count('nested:node:' + nd.kind)
            for a, (ch, where) in nd.children.items(): c.count('nested:edge:%s-by-%s' % (where if nd.kind != 'plain' else 'plain', 'integral' if ch.contains_integral() else 'plain'))
        replay = dict(stream='nested', mesh=tname, construction=top.describe(), components={nd.ident: sig_of(comps[nd.ident].arguments) for nd in nodes}, arguments_of_result=sig_of(R.arguments))
        # announced arguments: exactly the unreplaced ones
        want = {}
        for nd in nodes:
            for n_, sd in comps[nd.ident].arguments.items():
                if n_ not in nd.children: want[n_] = sd
        if dict(R.arguments) != want:
            c.failing_input('replace:announced-arguments-wrong', '.arguments of a nested replacement is not the set of unreplaced arguments', dict(replay, expected=sig_of(want)))
        values = G.sample_values(rng, want)

        mag = {'m': 1.}      # largest intermediate value of the staged evaluations: the rounding error of the result scales with its square (quadratic integrands)

        def close(a, b):
            a, b = numpy.asarray(a), numpy.asarray(b)
            scale = max(1., float(numpy.abs(a).max(initial=0.)), float(numpy.abs(b).max(initial=0.)), 4 * mag['m']**2)
            return a.shape == b.shape and bool(numpy.isfinite(a).all()) and float(numpy.abs(a - b).max(initial=0.)) <= 1e-9 * scale

        def staged(vals, uniform=False, top=top, nodes=nodes, comps=comps):
            env = dict(vals)
            # post-order: the value of every node is computed after the values of its children are bound to its own arguments
            out = {}
            for nd in nodes:
                e = dict(env)
                for a, (ch, where) in nd.children.items(): e[a] = out[ch.ident]
                k, v = feval(function, nd.component(uniform=True) if uniform else comps[nd.ident], e)
                if k != 'ok': return k, v
                out[nd.ident] = v
                mag['m'] = max(mag['m'], float(numpy.abs(v).max(initial=0.)))
            return 'ok', out[top.ident]

        ks, wantv = staged(values)
        if ks != 'ok' or not numpy.isfinite(wantv).all():
            c.count('nested:components-do-not-evaluate'); continue
        c.case(('nested', top.describe(), tname), nontrivial=bool(top.children))

        mixed = any(nd.kind in ('boundary', 'subtopo', 'interfaces') for nd in nodes)     # integrals over samples with different numbers of elements
        # ---- mechanism: element loops nested through inside replacements carry different ids (`_sample_<nesting depth>` in `_Integral.lower`)
        k_, e_ = X.guarded(lambda: (top.build(rng, force_inside=True) if risky else R).as_evaluable_array, 30)
        if k_ == 'ok':
            state['ids-checked'] += 1
            if nested_same_loop_id(e_) and not state['ids-reported']:
                state['ids-reported'] = True
                found = chain_search(function, max(3, min(chain, 4)))
                if found is not None:
                    c.failing_input('replace:nested:loop-id-reused-by-nested-element-loops', 'integrals nested through replacements inside integrands reuse a loop id; a chain of such integrals over '
                                    'samples of different element counts does not evaluate to the staged value', dict(replay, chain=found[0], real_result=found[1], real_expected=found[2]))
                else:
                    c.broken_no_input('corr:nested-loop-ids', 'integrals nested through replacements inside integrands reuse a loop id (the lowering no longer names element loops after their nesting depth)', replay)

        def variants(top=top, risky=risky, mixed=mixed):
            """constructions that the property makes equal to (or that have the nesting structure of) the failing one, without the features of the
            open finding — loops of independently lowered integrals share an id and collide when one ends up inside the other, which needs a
            replacement from outside or element loops of different lengths: (name, force_inside, uniform)"""
            if risky: yield 'all-inside', True, False
            if mixed: yield 'all-inside-uniform-domain', True, True

        def id_reused(top=top):
            """with every replacement inside its integrand the element loops are nested by construction and must carry different ids
            (`_sample_<nesting depth>`); a reused id is NOT the open finding (that needs a replacement from outside or independent integrals)"""
            k, e = X.guarded(lambda: top.build(rng, force_inside=True).as_evaluable_array, 30)
            return k == 'ok' and nested_same_loop_id(e)

        def attribute(kind, got, top=top, values=values, wantv=wantv, staged=staged):
            """root cause of a failing nested case: the open finding iff a variant without its features evaluates correctly"""
            detail = dict(real_expected=tolist(wantv), arguments={k: tolist(v) for k, v in values.items()})
            detail.update(eval_failure_plain(kind, got) if kind != 'ok' else dict(real_result=tolist(got)))
            if id_reused():
                return dict(detail, signature='replace:nested:loop-id-reused-by-nested-element-loops')
            for name, fi, uni in variants():
                kw, wv = staged(values, uniform=True) if uni else ('ok', wantv)
                kv, gv = X.guarded(lambda: numpy.asarray(function.eval(top.build(rng, force_inside=fi, uniform=uni), values)), 30)
                if kw == 'ok' and kv == 'ok' and close(gv, wv):
                    c.count('nested:loop-id-collision(known-finding):fixed-by-' + name)
                    return dict(detail, signature=OUTSIDE_SIG, variant_that_evaluates_correctly=name)
                detail['variant:' + name] = tolist(gv) if kv == 'ok' else repr(gv)
            return dict(detail, signature='replace:nested:' + ('value-differs' if kind == 'ok' else 'evaluation-raises:' + (type(got).__name__ if kind == 'exception' else kind)))

        kr, got = feval(function, R, values, timeout=30)
        real_bad = kr != 'ok' or not close(got, wantv)
        what = 'a nested replacement (replacement values that are integrals containing replacements, %d element loops deep) does not evaluate to the integrand with the replaced arguments bound to the values of their replacements' % chain
        if not real_bad: c.count('nested-replace:agrees-with-staged-real-evaluation')
        if real_bad:
            d = attribute(kr, got)
            c.count('nested-replace:violation' if c.match_known(d['signature']) is None else 'nested-replace:known-finding')
            c.failing_input(d.pop('signature'), what, dict(replay, **d))
            continue
        # ---- Lean: staged binding of the separately lowered components == the lowered nested construction
        try:
            eR = lower(R, True)
            ecomp = {nd.ident: lower(comps[nd.ident], True) for nd in nodes}
        except Exception as e:
            c.failing_input('replace:nested:lowering-raises:' + type(e).__name__, 'lowering of a nested replacement raises although it evaluates: %s' % str(e)[:120], replay); continue
        roots = [ecomp[top.ident], eR]; pos = {top.ident: 0}
        for nd in nodes:
            if nd.ident not in pos: pos[nd.ident] = len(roots); roots.append(ecomp[nd.ident])
        stages = [{a: pos[ch.ident] for a, (ch, where) in nd.children.items()} for nd in nodes if nd.children]
        extra = dict(binds=[dict(stages=stages, root=0, cmp=1)], lins=[])
        # linearize the whole construction to an unreplaced real argument
        tk = sorted(want); rng.shuffle(tk)
        L = None; P = {}
        if tk:
            P = {k: '#v' + k for k in tk[:2]}
            try:
                L = function.linearize(R, dict(P))
                roots.append(lower(L, True)); extra['lins'].append(dict(root=1, pairs=P, cmp=len(roots) - 1))
            except Exception as e:
                c.failing_input('linearize:nested:raises:' + type(e).__name__, 'linearize of a nested replacement raises %s: %s' % (type(e).__name__, str(e)[:120]), replay); L = None
        dvals = G.sample_values(rng, {v: want[k] for k, v in P.items()}) if L is not None else {}
        allv = dict(values, **dvals)
        # symbolic in the scalar arguments only (the composition of `depth` quadratic levels has a high degree)
        symn = [k for k, v in allv.items() if numpy.ndim(v) == 0][:3]
        try:
            l1, _ = ser.request(roots, {k: v for k, v in allv.items() if k not in symn}, symbolic={k: () for k in symn})
            l2, _ = ser.request(roots, allv)
        except ValueError:
            c.count('nested:not-serialisable'); continue
        reqs = []
        for l in (l1, l2):
            d = json.loads(l); d['op'] = 'expr'; d.update(extra); reqs.append(d)

        li = len(roots) - 1
        def handler(a_sym, a_conc, R=R, L=L, P=P, got=got, allv=allv, values=values, dvals=dvals, replay=replay, staged=staged, what=what, li=li, top=top, variants=variants, id_reused=id_reused, mag=mag):
            out = settle(c, 'nested-replace', a_sym['binds'][0], a_conc['binds'][0], a_conc['results'][1], lambda: (False, {}), 'replace:nested:value-differs', what, replay)
            spec_eval(c, speceval, a_conc['results'][1], got, 'nested replacement', replay)
            if L is None: return
            def confirm_one(L_, uniform=False):
                kl, lv = feval(function, L_, allv, timeout=30)
                if kl != 'ok': return True, dict(eval_failure(L_, kl, lv), signature='linearize:nested:evaluation-raises')
                errs = []; fd = None
                for h in (2.**-6, 2.**-9, 2.**-12):
                    plus = dict(values); minus = dict(values)
                    for k, v in P.items():
                        plus[k] = values[k] + h * dvals[v]; minus[k] = values[k] - h * dvals[v]
                    k1, fp = staged(plus, uniform); k2, fm = staged(minus, uniform)
                    if k1 != 'ok' or k2 != 'ok': return False, {}
                    fd = (fp - fm) / (2 * h)
                    errs.append(float(numpy.abs(fd - lv).max(initial=0.)))
                scale = max(1., float(numpy.abs(fd).max(initial=0.)), float(numpy.abs(lv).max(initial=0.)), 4 * mag['m']**2)
                agrees = min(errs) <= 1e-6 * scale or errs[-1] <= .25 * errs[0]
                return (not agrees), dict(finite_difference_of_the_staged_evaluation=tolist(fd), real_result=tolist(lv), errors_for_decreasing_h=errs, arguments={k: tolist(v) for k, v in allv.items()})
            ran = {}
            def confirm_lin():
                bad, detail = confirm_one(L)
                ran['compared'] = 'errors_for_decreasing_h' in detail
                if bad and id_reused():
                    detail = dict(detail, signature='linearize:nested:loop-id-reused-by-nested-element-loops')
                elif bad:
                    # root cause as for the value: the open finding iff a variant without its features linearizes correctly
                    for name, fi, uni in variants():
                        kv, Lv = X.guarded(lambda: function.linearize(top.build(rng, force_inside=fi, uniform=uni), dict(P)), 30)
                        if kv == 'ok' and not confirm_one(Lv, uniform=uni)[0]:
                            c.count('nested:loop-id-collision(known-finding):fixed-by-' + name)
                            detail = dict(detail, signature=OUTSIDE_SIG, variant_that_linearizes_correctly=name); break
                return bad, detail
            certified = lambda a: a['binds'][0]['verdict'] == 'same'
            rel = lambda a: a['lins'][0] if certified(a) else dict(a['lins'][0], verdict='differ' if a['lins'][0]['verdict'] == 'same' else a['lins'][0]['verdict'])
            # the formal derivative is taken of the real nested tree, which the first claim certifies; otherwise finite differences of the staged evaluation decide
            r = settle(c, 'nested-linearize', rel(a_sym), rel(a_conc), a_conc['results'][li], confirm_lin, 'linearize:nested:value-differs',
                       'linearize of a nested replacement is not the directional derivative of the staged evaluation', replay)
            if r in ('sym', 'conc') or (r != 'violation' and ran.get('compared')):
                c.count('nested-linearize:agrees-with-staged-real-evaluation')
        batch.add(reqs, handler)


def nested_same_loop_id(e):
    """the lowered array contains a loop inside the body of a loop with the same id"""
    for L in e._loops:
        for dep in L.dependencies:
            for M in dep._loops:
                if M is not L and M.loop_id == L.loop_id:
                    return True
    return False


def chain_search(function, depth, limit=60):
    """search for a failing input of the real code among chains of `depth` integrals over the same space, every one replacing an argument inside the
    integrand of the previous one, with all combinations of element counts (interior: 3, boundary: 2, sub-topology: 2 elements of a line mesh).
    Oracle: staged evaluation.  Returns None or (description, got, want)."""
    from nutils import mesh
    topo, geom = mesh.rectilinear([3])
    basis = topo.basis('std', degree=1); n = len(basis)
    J = function.J(geom); x = geom[0]
    doms = {'interior': lambda h: topo.integral(h * J, degree=2), 'boundary': lambda h: topo.boundary.integral(h * function.J(geom), degree=2),
            'subtopology': lambda h: topo[:2].integral(h * J, degree=2)}
    tried = 0
    for combo in itertools.product(doms, repeat=depth):
        if len(set(combo[1:])) == 1: continue       # equal lengths below the top level: ids may coincide without consequence
        tried += 1
        if tried > limit: break
        fields = [function.field('u%d' % i, basis) for i in range(depth + 1)]
        integrands = [fields[1]**2 + fields[1] * x] + [basis * fields[i + 1]**2 * (1 + x) for i in range(1, depth)]
        comps = [doms[d](g) for d, g in zip(combo, integrands)]
        val = numpy.arange(1., n + 1) / 4
        ok = True
        for i in reversed(range(depth)):
            k, val = feval(function, comps[i], {'u%d' % (i + 1): val})
            if k != 'ok': ok = False; break
        if not ok: continue
        A = None
        for i in reversed(range(depth)):
            g = integrands[i] if A is None else function.replace_arguments(integrands[i], {'u%d' % (i + 1): A})
            A = doms[combo[i]](g)
        k, got = X.guarded(lambda: numpy.asarray(function.eval(A, {'u%d' % depth: numpy.arange(1., n + 1) / 4})), 30)
        if k != 'ok' or not X.arrays_close(got, val, rtol=1e-9, atol=1e-11):
            return ' { '.join(combo) + ' }' * (depth - 1) + ' on mesh.rectilinear([3])', (repr(got) if k != 'ok' else tolist(got)), tolist(val)
    return None


def eval_failure_plain(kind, val):
    return dict(real_result='%s: %r' % (kind, val))


# ------------------------------------------------------------------------------------------------ run-time checks

def argcheck_stream(c, function, ev, G, rng, topos, N):
    nrej = nacc = 0
    bad = 0
    for i in range(N):
        gen = G.FGen(rng, poly=True)
        try:
            f = gen.array(rng.choice([(), (3,), (2, 3)]), rng.randint(1, 3))
        except Exception:
            continue
        if not f.arguments: continue
        values = G.sample_values(rng, dict(f.arguments))
        k0, ref = feval(function, f, values)
        if k0 != 'ok': continue
        e = f.as_evaluable_array
        tname, topo, geom = topos[i % len(topos)]
        smp = topo.sample('gauss', 1)
        entries = {
            'function.eval': lambda a: function.eval(f, a),
            'Array.eval': lambda a: f.eval(a),
            'sample.eval': lambda a: smp.eval(f, a)[0],   # constant over the points: first point
            'eval_once': lambda a: ev.eval_once(e, arguments=a),
            'compile': lambda a: ev.compile(e)(a),
        }
        live = sorted(a.name for a in e.simplified.arguments)
        if not live:
            c.count('argcheck:all-arguments-simplified-away'); continue
        name = rng.choice(live)    # an argument that simplification removes is never looked at: nothing to reject
        shape, dtype = f.arguments[name]
        good = numpy.asarray(values[name])
        perts = {
            'leading-axis-1': good[None],
            'trailing-axis-1': good[..., None],
            'scalar-for-array': good.reshape(-1)[0] if shape else None,
            'length-1-axis': good[..., :1] if shape else None,
            'too-long': numpy.concatenate([good, good], -1) if shape else None,
            'transposed': good.T if len(shape) == 2 and shape[0] != shape[1] else None,
            'flattened': good.reshape(-1) if len(shape) >= 2 else None,
            'array-for-scalar': numpy.array([good]) if not shape else None,
            'complex-for-real': good.astype(complex) + 1j if dtype in (float, int) else None,
            'float-for-int': good + .7 if dtype == int else None,
            'str': good.astype(str),
            'object': numpy.array(good.tolist() if shape else good.item(), dtype=object),
            # value-preserving conversions
            'same:list': good.tolist(),
            'same:int-for-float': numpy.round(good).astype(int) if dtype == float else None,
            'same:integral-float-for-int': good.astype(float) if dtype == int else None,
            'same:float32': good.astype(numpy.float32) if dtype == float else None,
        }
        for pert, val in perts.items():
            if val is None: continue
            ename = rng.choice(list(entries))
            a = dict(values); a[name] = val
            with warnings.catch_warnings():
                warnings.simplefilter('ignore')
                kind, out = X.guarded(lambda: numpy.asarray(entries[ename](a)), 20)
            c.case(('argcheck', pert, ename, tuple(shape), dtype.__name__), nontrivial=True)
            replay = dict(stream='argcheck', entry=ename, argument=name, announced=(list(shape), dtype.__name__), perturbation=pert, supplied=repr(val)[:200], outcome=kind, result=repr(out)[:200])
            if pert.startswith('same:'):
                want = ref
                if pert == 'same:int-for-float':
                    kw, want = feval(function, f, dict(values, **{name: numpy.round(good)}))
                elif pert == 'same:float32':
                    kw, want = feval(function, f, dict(values, **{name: good.astype(numpy.float32).astype(float)}))
                if kind == 'ok' and X.arrays_close(numpy.asarray(out).reshape(numpy.shape(want)) if numpy.size(out) == numpy.size(want) else out, want):
                    c.count('argcheck:value-preserving-conversion-accepted'); nacc += 1
                elif kind == 'ok':
                    bad += 1; c.failing_input('argcheck:conversion-changes-value:' + pert[5:], 'a value-preserving conversion of an argument value changes the result', replay)
                else:
                    c.count('argcheck:value-preserving-conversion-rejected:' + pert[5:])
                continue
            if kind == 'exception':
                c.count('argcheck:rejected:' + type(out).__name__); nrej += 1
            elif kind == 'ok':
                bad += 1
                group = 'wrong-shape-accepted' if pert in ('leading-axis-1', 'trailing-axis-1', 'scalar-for-array', 'length-1-axis', 'too-long', 'transposed', 'flattened', 'array-for-scalar') \
                    else 'lossy-dtype-accepted' if pert in ('complex-for-real', 'float-for-int') else 'nonnumeric-accepted'
                c.failing_input('argcheck:%s:%s' % (group, pert), 'an argument value of the wrong %s is accepted at evaluation time instead of rejected (%s)' % ('shape' if group.startswith('wrong-shape') else 'dtype', pert), replay)
            else:
                bad += 1; c.failing_input('argcheck:hang', 'evaluation with a malformed argument value does not return', replay)
    c.obligation('oracle:argument-values-checked', bad == 0 and nrej > 0, 'validation', '%d malformed values rejected, %d value-preserving conversions accepted' % (nrej, nacc))


# ------------------------------------------------------------------------------------------------ shallow_replace loop

def machine_stream(c, batch, util, rng, N):
    class N_:
        """toy reducible object: identity matters, structure is (label, *children)"""
        def __init__(self, label, *children):
            self.label = label; self.children = children
        def __reduce__(self):
            return N_, (self.label,) + tuple(self.children)

    def show(o):
        if o.label.startswith('var:'): return '(var %s)' % o.label[4:]
        if o.label.startswith('const:'): return '(const %s)' % o.label[6:]
        if o.label.startswith('app:'): return '(app %s%s)' % (o.label[4:], ''.join(' ' + show(ch) for ch in o.children))
        return '(%s %s)' % (o.label, ' '.join(show(ch) for ch in o.children))

    def tree_json(o):
        if o.label.startswith('var:'): return ['var', o.label[4:]]
        if o.label.startswith('const:'): return ['const', int(o.label[6:])]
        if o.label.startswith('app:'): return ['app', o.label[4:], [tree_json(ch) for ch in o.children]]
        return [o.label] + [tree_json(ch) for ch in o.children]

    ncmp = 0
    state = dict(bad=0, n=0)
    for i in range(N):
        names = ['u', 'v', 'w', 'x']
        objs = []; dag = []
        n = rng.randint(1, 10)
        for k in range(n):
            r = rng.random()
            if k < 2 or r < .3:
                if rng.random() < .75:
                    nm = rng.choice(names); objs.append(N_('var:' + nm)); dag.append(['var', nm])
                else:
                    v = rng.randint(-2, 2); objs.append(N_('const:%d' % v)); dag.append(['const', v])
            elif r < .55:
                a, b = rng.randrange(k), rng.randrange(k); op = rng.choice(['add', 'mul'])
                objs.append(N_(op, objs[a], objs[b])); dag.append([op, a, b])
            elif r < .7:
                a = rng.randrange(k); objs.append(N_('neg', objs[a])); dag.append(['neg', a])
            else:
                ids = [rng.randrange(k) for _ in range(rng.randint(0, 3))]
                objs.append(N_('app:f', *[objs[j] for j in ids])); dag.append(['app', 'f', ids])
        root = n - 1
        # replacement map incl. swaps and chains; replacements may contain replaced variables
        sigma = {}
        mode = rng.choice(['swap', 'chain', 'expr', 'none', 'self'])
        if mode == 'swap': sigma = {'u': N_('var:v'), 'v': N_('var:u')}
        elif mode == 'chain': sigma = {'u': N_('var:v'), 'v': N_('var:w')}
        elif mode == 'expr': sigma = {rng.choice(names): N_('add', N_('var:u'), N_('mul', N_('var:v'), N_('const:2')))}
        elif mode == 'self': sigma = {'u': N_('neg', N_('var:u'))}
        calls = []
        ident = {id(o): k for k, o in enumerate(objs)}
        def func(obj):
            if isinstance(obj, N_):
                if id(obj) in ident: calls.append(ident[id(obj)])
                if obj.label.startswith('var:') and obj.label[4:] in sigma:
                    return sigma[obj.label[4:]]
        try:
            res = util.shallow_replace(func, objs[root])
            real = ('ok', show(res), list(calls))
        except Exception as e:
            real = ('exception', type(e).__name__ + ': ' + str(e)[:80], list(calls))
        req = dict(op='machine', dag=dag, sigma={k: tree_json(v) for k, v in sigma.items()}, root=root)

        def handler(a, real=real, dag=dag, sigma=sigma, mode=mode, root=root):
            state['n'] += 1
            c.case(('machine', json.dumps(dag), mode), nontrivial=mode != 'none' and any(d[0] == 'var' and d[1] in sigma for d in dag))
            c.count('shallow_replace:map:' + mode)
            replay = dict(stream='shallow_replace', dag=dag, sigma={k: show(v) for k, v in sigma.items()}, root=root, real=real, model=a)
            # oracle: the specification `subst` (Props: subst_eval); the machine is proved equal to it
            if real[0] != 'ok' or real[1] != a['spec']:
                state['bad'] += 1
                c.failing_input('shallow_replace:result-differs-from-substitution', 'util.shallow_replace does not return the simultaneous substitution', replay)
            elif a['result'] != a['spec'] or real[2] != a['trace']:
                state['bad'] += 1
                c.broken_no_input('corr:shallow_replace', 'model loop and real loop differ in the order / number of func calls (memo or visiting order changed)', replay)
            else:
                c.traces += 1
        batch.add([req], handler)

    def fin():
        c.obligation('corr:shallow_replace', state['bad'] == 0 and state['n'] > 0, 'correspondence', '%d DAGs: same result as `subst` and same sequence of func calls as Machine.step' % state['n'])
    batch.add([], fin)


def arguments_for_stream(c, function, G, rng, N):
    bad = 0; n = 0
    for i in range(N):
        arrays = []
        for j in range(rng.randint(0, 4)):
            gen = G.FGen(rng, poly=True)
            try:
                arrays.append(gen.array(rng.choice([(), (3,), (2, 3)]), rng.randint(0, 2)))
            except Exception:
                pass
        conflict = None
        if arrays and rng.random() < .25:
            names = [nm for a in arrays for nm in a.arguments]
            if names:
                nm = rng.choice(names); s, d = G.POOL[nm]
                conflict = rng.choice(['shape', 'dtype'])
                arrays.insert(rng.randint(0, len(arrays)), numpy.sum(function.Argument(nm, tuple(s) + (2,), d)) if conflict == 'shape' else numpy.sum(function.Argument(nm, s, int if d == float else float)))
        mixed = list(arrays)
        if rng.random() < .3: mixed.insert(0, 3.5)       # non-Array entries are ignored
        want = {}
        clash = False
        for a in arrays:
            for nm, sd in a.arguments.items():
                if nm in want and want[nm] != sd: clash = True
                want.setdefault(nm, sd)
        try:
            got = function.arguments_for(*mixed)
            real = ('ok', {nm: (tuple(a.shape), a.dtype) for nm, a in got.items()}, all(isinstance(a, function.Argument) and a.name == nm for nm, a in got.items()))
        except ValueError as e:
            real = ('ValueError', str(e)[:60], True)
        except Exception as e:
            real = ('exception', type(e).__name__ + str(e)[:60], True)
        n += 1
        c.case(('arguments_for', tuple(sorted(want)), conflict), nontrivial=len(want) > 0)
        c.count('arguments_for:' + ('conflict' if clash else 'consistent'))
        replay = dict(stream='arguments_for', arrays=[sig_of(a.arguments) for a in arrays], real=repr(real))
        if clash:
            if real[0] != 'ValueError':
                bad += 1; c.failing_input('arguments_for:accepts-conflict', 'arguments_for accepts arrays whose arguments conflict in shape or dtype', replay)
        elif real[0] != 'ok' or real[1] != want or not real[2]:
            bad += 1; c.failing_input('arguments_for:wrong-result', 'arguments_for does not return exactly the arguments the arrays depend on', dict(replay, expected=sig_of(want)))
    c.obligation('oracle:arguments_for', bad == 0 and n > 0, 'validation', '%d argument unions' % n)


def field_stream(c, function, rng, N):
    """function.field / dotarg against its docstring: Argument of shape (arrays[i].shape[0]…) + shape, contracted with the first axes"""
    bad = 0; n = 0
    for i in range(N):
        r = numpy.random.default_rng(rng.getrandbits(32))
        k = rng.choice([0, 1, 1, 2, 3])
        arrays = [r.integers(-2, 3, (rng.choice([2, 3]),) + tuple(rng.choice([2, 3]) for _ in range(rng.choice([0, 0, 1, 2])))) / 2. for _ in range(k)]
        shape = tuple(rng.choice([2, 3]) for _ in range(rng.choice([0, 0, 1, 2])))
        fn = function.field if rng.random() < .5 else function.dotarg
        argshape = tuple(a.shape[0] for a in arrays) + shape
        val = r.integers(-4, 5, argshape) / 2.
        # definition: contract axis i of the argument with axis 0 of arrays[i]; result axes = shape, then the remaining axes of every array in order
        letters = iter('abcdefghijklmnopqrstuvwxyz')
        arg_l = [next(letters) for _ in argshape]
        terms = [''.join(arg_l)]; out = arg_l[len(arrays):]
        for j, a in enumerate(arrays):
            rest = [next(letters) for _ in a.shape[1:]]
            terms.append(arg_l[j] + ''.join(rest)); out += rest
        want = numpy.einsum(','.join(terms) + '->' + ''.join(out), val, *arrays)
        replay = dict(stream='field', function=fn.__name__, array_shapes=[list(a.shape) for a in arrays], shape=list(shape))
        n += 1
        c.case(('field', tuple(a.shape for a in arrays), shape), nontrivial=k > 0)
        c.count('field:narrays-%d' % k)
        try:
            F = fn('t', *arrays, shape=shape)
            kind, got = feval(function, F, dict(t=val))
        except Exception as e:
            bad += 1; c.failing_input('field:raises:' + type(e).__name__, 'function.field raises %s: %s' % (type(e).__name__, str(e)[:100]), replay); continue
        if dict(F.arguments) != {'t': (argshape, float)} or tuple(F.shape) != want.shape or kind != 'ok' or not numpy.array_equal(got, want):
            bad += 1
            c.failing_input('field:differs-from-definition', 'function.field(name, *arrays, shape=…) is not the contraction of the argument with the first axes of the arrays',
                            dict(replay, announced=sig_of(F.arguments), result_shape=list(F.shape), got=tolist(got) if kind == 'ok' else repr(got), want=tolist(want)))
    c.obligation('oracle:field', bad == 0 and n > 0, 'validation', '%d fields compared exactly with numpy.einsum of the definition' % n)
