"""C06 — static array metadata is sound.

Ties (all against the *current* source selected by NUTILS_SRC):

(M) grid   every class with an `_intbounds_impl` is instantiated as a REAL node whose children are harness-defined
           stub arrays (`RArg`, an `evaluable.Argument` subclass carrying a prescribed range).  The operand ranges run
           over the exhaustive grid {-inf,-3..3,+inf}^2 (lower <= upper); the real `_intbounds` (or its AssertionError)
           is compared with the Lean transfer function (`Model/C06.lean`, about which `Props/C06.lean` proves
           soundness for all operand ranges and values).  Independently of the model, every grid case is checked by the
           specification oracle: concrete operand values inside the operand ranges are fed to an exact Python-int
           recomputation of the operation AND to the real compiled node; a value outside the announced range is a
           failing input (`intbounds-unsound:<Class>`).
(M2) expr  random expressions of the modelled integer expression language are built both as real evaluable DAGs and
           as Lean `Expr`s; inferred range, announced length, announced arguments and the evaluated values of the model
           are compared with the real ones (ties the inductive theorem `intbounds_sound` to the code).
(V) dag    random well-typed real DAGs (loops, Take from tables, RavelIndex, Range, _SizesToOffsets, Inflate, Einsum, ...):
           every integer-valued sub-node is evaluated at every loop iteration and must lie inside the real `_intbounds`;
           announced shape / dtype / ndim / arguments are compared with the evaluated ndarray; consumer rewrites
           (`simplified`, `optimized_for_numpy`) must preserve the value.
(V) func   `function.Array` compositions on samples of small topologies: announced shape / dtype / arguments vs result.
(V) funcargs (c06_funcargs.py) random programs of the operations that REWRITE the announced-arguments table (replace_arguments in every
           spelling of the specification, derivative, linearize, field, integral, bind) over colliding argument names: announced table
           vs independent set algebra, evaluation with exactly the announced arguments, perturbation of the others.
"""
import itertools, collections, functools, math
import numpy
from .common import Infra

inf = float('inf')
G = [-3, -2, -1, 0, 1, 2, 3]


def all_ranges(g=G):
    return [(l, h) for l in [-inf] + list(g) for h in list(g) + [inf] if l <= h]


def conc(r, ext=(-7, -5, -4, 4, 5, 7), g=G):
    """concrete integer values inside range r: the grid points plus a few beyond the grid on unbounded sides"""
    l, h = r
    return [v for v in list(g) + list(ext) if l <= v <= h]


def snum(x):
    return '-inf' if x == -inf else 'inf' if x == inf else 'nan' if x != x else str(int(x))


def srng(r):
    return snum(r[0]) + ' ' + snum(r[1])


def canon(b):
    """canonical text of a real `_intbounds` outcome"""
    if isinstance(b, str):
        return b
    lo, hi = b
    for x in (lo, hi):
        if not (isinstance(x, int) and not isinstance(x, bool)) and x not in (inf, -inf):
            return 'badtype %r %r' % (lo, hi)
    return 'ok ' + srng(b)


# ---------------------------------------------------------------------------------------------------------------------
# stubs (defined lazily: nutils is imported from NUTILS_SRC)

@functools.lru_cache(None)
def lib():
    from nutils import evaluable as ev, types

    class RArg(ev.Argument):
        'argument with a prescribed integer range'
        lo: object = -inf
        hi: object = inf

        def _intbounds_impl(self):
            return self.lo, self.hi

    return ev, types, RArg


def S(name, r, shape=(), dtype=int):
    ev, types, RArg = lib()
    return RArg(name, tuple(shape), dtype, r[0], r[1])


def real_bounds(node):
    try:
        return node._intbounds
    except AssertionError:
        return 'raise'


class EvalTimeout(Exception):
    pass


class time_limit:
    """wall-clock limit: simplification of random DAGs can fail to terminate (known findings of C01)"""

    def __init__(self, seconds=20):
        self.seconds = seconds

    def _alarm(self, signum, frame):
        raise EvalTimeout('evaluation exceeded %d s' % self.seconds)

    def __enter__(self):
        import signal
        self.old = signal.signal(signal.SIGALRM, self._alarm)
        signal.alarm(self.seconds)

    def __exit__(self, *exc):
        import signal
        signal.alarm(0)
        signal.signal(signal.SIGALRM, self.old)
        return False


def evaluate(node, args, simplify=False):
    ev = lib()[0]
    with time_limit(20):
        return ev.eval_once(node, arguments={k: numpy.asarray(v) for k, v in args.items()}, _simplify=simplify, _optimize=simplify)


def fms(*a):
    return lib()[1].frozenmultiset(a)




# ---------------------------------------------------------------------------------------------------------------------
# (M) grid operations
#
# An `Op` describes how one class with an `_intbounds_impl` is instantiated on stubs:
#   operands : [(name, kind)] — the ranged quantities; kind 'any' (all grid ranges) or 'idx' (ranges with lower >= 0)
#   build(R) : R maps operand name -> range; returns (node whose `_intbounds` is read, node that is evaluated)
#   request(R): the Lean request for the transfer function
#   concrete(V): V maps operand name -> concrete int inside its range; returns (argument dict for the real evaluation,
#               expected flat list of result values by exact Python-int recomputation, or None if the operation is
#               undefined / raises for these operands)

class Op:
    def __init__(self, name, operands, build, request, concrete, cls=None, small=False, grid=None):
        self.name, self.operands, self.build, self.request, self.concrete = name, operands, build, request, concrete
        self.grid = grid  # custom list of grid integers (default G)
        self.cls = cls or name.split(':')[0]
        self.small = small  # use the reduced grid {-inf,-2..2,inf} even in the thorough tier (3+ operands)


def sgn(x): return (x > 0) - (x < 0)


def normdim_spec(length, index):
    if length < 0: return None
    n = index + length if index < 0 else index
    return None if n < 0 or n >= length else n


def ops_table():
    ev, types, RArg = lib()
    from nutils import transformseq
    c = ev.constant
    T = []
    tf = lambda cls, names, *extra: (lambda R: '|'.join(['tf', cls] + [srng(R[n]) for n in names] + list(extra)))
    same = lambda n: (lambda b: (b, b))(n)

    def pointwise(name, cls, names, mk, fn, lean=None, extra=(), kinds=None, small=False):
        kinds = kinds or ['any'] * len(names)
        def build(R):
            n = mk(*[S(k, R[k]) for k in names]); return n, n
        def concrete(V):
            r = fn(*[V[k] for k in names])
            return {k: V[k] for k in names}, (None if r is None else [r])
        T.append(Op(name, list(zip(names, kinds)), build, tf(lean or cls, names, *extra), concrete, cls=cls, small=small))

    pointwise('Negative', 'Negative', ['x'], lambda x: ev.Negative(x), lambda x: -x)
    pointwise('Absolute', 'Absolute', ['x'], lambda x: ev.Absolute(x), lambda x: abs(x))
    pointwise('Sign', 'Sign', ['x'], lambda x: ev.Sign(x), sgn)
    pointwise('Multiply', 'Multiply', ['x', 'y'], lambda x, y: ev.Multiply(fms(x, y)), lambda x, y: x * y)
    pointwise('Add', 'Add', ['x', 'y'], lambda x, y: ev.Add(fms(x, y)), lambda x, y: x + y)
    pointwise('Add:nested', 'Add', ['x', 'y', 'z'], lambda x, y, z: ev.Add(fms(ev.Add(fms(x, y)), z)), lambda x, y, z: x + y + z, small=True)
    pointwise('FloorDivide', 'FloorDivide', ['x', 'y'], lambda x, y: ev.FloorDivide(x, y), lambda x, y: x // y if y else None)
    pointwise('Mod', 'Mod', ['x', 'y'], lambda x, y: ev.Mod(x, y), lambda x, y: x % y if y else None, extra=('n',))
    pointwise('Minimum', 'Minimum', ['x', 'y'], lambda x, y: ev.Minimum(x, y), min)
    pointwise('Maximum', 'Maximum', ['x', 'y'], lambda x, y: ev.Maximum(x, y), max)
    pointwise('InRange', 'InRange', ['x', 'y'], lambda x, y: ev.InRange(x, y), lambda x, y: x if 0 <= x < y else None)
    pointwise('NormDim', 'NormDim', ['x', 'y'], lambda x, y: ev.NormDim(x, y), normdim_spec)
    pointwise('AssertEqual', 'AssertEqual', ['x', 'y'], lambda x, y: ev.AssertEqual(x, y), lambda x, y: x if x == y else None)
    # documented domain of RavelIndex: ia is an index (>= 0) into an axis of length na
    pointwise('RavelIndex', 'RavelIndex', ['ia', 'ib', 'nb'], lambda ia, ib, nb: ev.RavelIndex(ia, ib, c(5), nb),
              lambda ia, ib, nb: ia * nb + ib if ia >= 0 else None, kinds=['any', 'any', 'idx'], small=True)
    for nv in range(4):
        import nutils_poly as poly
        def deg(n, nv=nv):
            try: return poly.degree(nv, n)
            except Exception: return None
        def nco(d, nv=nv):
            try: return poly.ncoeffs(nv, d)
            except Exception: return None
        pointwise('PolyDegree:%d' % nv, 'PolyDegree', ['x'], lambda x, nv=nv: ev.PolyDegree(x, nv), deg)
        T[-1].request = (lambda R, nv=nv: 'tf|PolyDegree|%d|%s' % (nv, srng(R['x'])))
        T[-1].grid = list(range(-1, 12))
        pointwise('PolyNCoeffs:%d' % nv, 'PolyNCoeffs', ['x'], lambda x, nv=nv: ev.PolyNCoeffs(nv, x), nco)
        T[-1].request = (lambda R, nv=nv: 'tf|PolyNCoeffs|%d|%s' % (nv, srng(R['x'])))
        T[-1].grid = list(range(-2, 5))
    for nt, ns, off in [(1, 1, 0), (2, 2, 0), (3, 2, 1), (4, 3, 1), (3, 3, 0)]:
        tgt = transformseq.IndexTransforms(1, nt, 0); srcseq = transformseq.IndexTransforms(1, ns, off)
        pointwise('TransformIndex:%d,%d,%d' % (nt, ns, off), 'TransformIndex', ['x'], lambda x, t=tgt, s=srcseq: ev.TransformIndex(t, s, x),
                  lambda x, nt=nt, ns=ns, off=off: x + off if 0 <= x < ns and x + off < nt else None)
        T[-1].request = (lambda R, nt=nt: 'tf|TransformIndex|%d' % nt)

    # ---- identities on a stub of fixed shape filled with one value
    def ident(name, shape, mk, nout):
        def build(R):
            n = mk(S('x', R['x'], tuple(c(k) for k in shape))); return n, n
        def concrete(V):
            return {'x': numpy.full(shape, V['x'])}, [V['x']] * nout
        T.append(Op(name, [('x', 'any')], build, tf('Identity', ['x']), concrete))
    ident('InsertAxis', (), lambda x: ev.InsertAxis(x, c(2)), 2)
    ident('Transpose', (2, 2), lambda v: ev.Transpose(v, (1, 0)), 4)
    ident('TakeDiag', (2, 2), lambda v: ev.TakeDiag(v), 2)
    ident('Ravel', (2, 2), lambda v: ev.Ravel(v), 4)
    ident('Unravel', (4,), lambda v: ev.Unravel(v, c(2), c(2)), 4)
    ident('Take', (4,), lambda v: ev.Take(v, c(numpy.array([3, 0]))), 2)
    ident('_TakeSlice', (4,), lambda v: ev._TakeSlice(v, c(2), c(1)), 2)
    ident('_Get', (4,), lambda v: ev._Get(v, c(1)), 1)
    ident('LoopConcatenate', (), lambda x: ev.loop_concatenate(ev.InsertAxis(x, c(1)), ev.loop_index('gi', c(3))), 3)

    # ---- length dependent classes; operand 'n' is the length stub
    def lengthop(name, cls, lean, mk, fn, mkargs=lambda V: {}, evalnode=None):
        def build(R):
            n = S('n', R['n']); node = mk(n); return node, (evalnode(n) if evalnode else node)
        def concrete(V):
            a = {'n': V['n']}; a.update(mkargs(V)); return a, fn(V['n'])
        T.append(Op(name, [('n', 'idx')], build, tf(lean, ['n']), concrete, cls=cls))
    lengthop('Range', 'Range', 'Range', lambda n: ev.Range(n), lambda n: list(range(n)))
    lengthop('_LoopIndex', '_LoopIndex', 'IndexBelow', lambda n: ev.loop_index('gj', n), lambda n: list(range(n)),
             evalnode=lambda n: ev.loop_concatenate(ev.InsertAxis(ev.loop_index('gj', n), c(1)), ev.loop_index('gj', n)))
    lengthop('Find', 'Find', 'IndexBelow', lambda n: ev.Find(S('w', (-inf, inf), (n,), bool)), lambda n: list(range(n)), lambda V: {'w': numpy.ones(V['n'], bool)})
    lengthop('ArgSort', 'ArgSort', 'IndexBelow', lambda n: ev.ArgSort(S('v', (-inf, inf), (n,))), lambda n: list(range(n))[::-1], lambda V: {'v': -numpy.arange(V['n'])})
    lengthop('SearchSorted', 'SearchSorted', 'SearchSorted', lambda n: ev.SearchSorted(c(numpy.array([-100, 100])), S('v', (-inf, inf), (n,)), None, 'left'),
             lambda n: [0, n], lambda V: {'v': numpy.arange(V['n'])})
    lengthop('Zeros', 'Zeros', 'Zeros', lambda n: ev.Zeros((n,), int), lambda n: [0] * n)
    T[-1].request = lambda R: 'tf|Zeros'

    def veclen(name, cls, lean, mk, fn, extra=(), kinds=('any', 'idx')):
        def build(R):
            n = S('n', R['n']); v = S('v', R['f'], (n,)); node = mk(v, n); return node, node
        def concrete(V):
            return {'n': V['n'], 'v': numpy.full(V['n'], V['f'])}, fn(V['f'], V['n'])
        T.append(Op(name, [('f', kinds[0]), ('n', kinds[1])], build, tf(lean, ['f', 'n'], *extra), concrete, cls=cls))
    veclen('Sum', 'Sum', 'Sum', lambda v, n: ev.Sum(v), lambda x, n: [x * n])
    veclen('_SizesToOffsets', '_SizesToOffsets', 'SizesToOffsets', lambda v, n: ev._SizesToOffsets(v), lambda x, n: [x * k for k in range(n + 1)], kinds=('idx', 'idx'))
    # Einsum: 'tf|Einsum|<number of summed lengths>|<length ranges...>|<operand ranges...>'
    def einsum(name, mk, req, fn, operands):
        def build(R):
            node = mk(R); return node, node
        T.append(Op(name, operands, build, req, fn, cls='Einsum', small=len(operands) > 2))
    einsum('Einsum:sum1', lambda R: (lambda n: ev.Einsum((S('v', R['f'], (n,)),), ((0,),), ()))(S('n', R['n'])),
           lambda R: 'tf|Einsum|1|%s|%s' % (srng(R['n']), srng(R['f'])),
           lambda V: ({'n': V['n'], 'v': numpy.full(V['n'], V['f'])}, [V['f'] * V['n']]), [('f', 'any'), ('n', 'idx')])
    einsum('Einsum:dot', lambda R: (lambda n: ev.Einsum((S('v', R['f'], (n,)), S('w', R['g'], (n,))), ((0,), (0,)), ()))(S('n', R['n'])),
           lambda R: 'tf|Einsum|1|%s|%s|%s' % (srng(R['n']), srng(R['f']), srng(R['g'])),
           lambda V: ({'n': V['n'], 'v': numpy.full(V['n'], V['f']), 'w': numpy.full(V['n'], V['g'])}, [V['f'] * V['g'] * V['n']]), [('f', 'any'), ('g', 'any'), ('n', 'idx')])
    einsum('Einsum:sum2', lambda R: (lambda n, m: ev.Einsum((S('v', R['f'], (n, m)),), ((0, 1),), ()))(S('n', R['n']), S('m', R['m'])),
           lambda R: 'tf|Einsum|2|%s|%s|%s' % (srng(R['n']), srng(R['m']), srng(R['f'])),
           lambda V: ({'n': V['n'], 'm': V['m'], 'v': numpy.full((V['n'], V['m']), V['f'])}, [V['f'] * V['n'] * V['m']]), [('f', 'any'), ('n', 'idx'), ('m', 'idx')])
    einsum('Einsum:outer', lambda R: ev.Einsum((S('v', R['f'], (c(2),)), S('w', R['g'], (c(3),))), ((0,), (1,)), (0, 1)),
           lambda R: 'tf|Einsum|0|%s|%s' % (srng(R['f']), srng(R['g'])),
           lambda V: ({'v': numpy.full(2, V['f']), 'w': numpy.full(3, V['g'])}, [V['f'] * V['g']] * 6), [('f', 'any'), ('g', 'any')])
    einsum('Einsum:rowsum', lambda R: (lambda n: ev.Einsum((S('v', R['f'], (c(2), n)),), ((0, 1),), (0,)))(S('n', R['n'])),
           lambda R: 'tf|Einsum|1|%s|%s' % (srng(R['n']), srng(R['f'])),
           lambda V: ({'n': V['n'], 'v': numpy.full((2, V['n']), V['f'])}, [V['f'] * V['n']] * 2), [('f', 'any'), ('n', 'idx')])
    # Inflate: the three ways the multiplicity is determined
    def inflate(name, mk, req, fn, operands):
        def build(R):
            node = mk(R); return node, node
        T.append(Op(name, operands, build, req, fn, cls='Inflate', small=len(operands) > 2))
    inflate('Inflate:scalar', lambda R: ev.Inflate(S('x', R['f']), c(1), c(3)), lambda R: 'tf|Inflate|%s|scalar' % srng(R['f']),
            lambda V: ({'x': V['f']}, [0, V['f'], 0]), [('f', 'any')])
    for dm in ([0, 1, 2], [0, 0, 1], [2, 2, 2], [1], []):
        mc = max(collections.Counter(dm).values(), default=0)
        def fn(V, dm=dm):
            out = [0] * 3
            for d in dm: out[d] += V['f']
            return {'x': numpy.full(len(dm), V['f'])}, out
        inflate('Inflate:const%s' % ''.join(map(str, dm)), lambda R, dm=dm: ev.Inflate(S('x', R['f'], (c(len(dm)),)), c(numpy.array(dm, dtype=int)), c(3)),
                lambda R, mc=mc: 'tf|Inflate|%s|const %d' % (srng(R['f']), mc), fn, [('f', 'any')])
    inflate('Inflate:shape1', lambda R: (lambda n: ev.Inflate(S('x', R['f'], (n,)), S('d', (0, 0), (n,)), c(2)))(S('n', R['n'])),
            lambda R: 'tf|Inflate|%s|shape %s' % (srng(R['f']), snum(R['n'][1])),
            lambda V: ({'n': V['n'], 'x': numpy.full(V['n'], V['f']), 'd': numpy.zeros(V['n'], int)}, [V['f'] * V['n'], 0]), [('f', 'any'), ('n', 'idx')])
    inflate('Inflate:shape2', lambda R: (lambda n, m: ev.Inflate(S('x', R['f'], (n, m)), S('d', (0, 0), (n, m)), c(2)))(S('n', R['n']), S('m', R['m'])),
            lambda R: 'tf|Inflate|%s|shape %s %s' % (srng(R['f']), snum(R['n'][1]), snum(R['m'][1])),
            lambda V: ({'n': V['n'], 'm': V['m'], 'x': numpy.full((V['n'], V['m']), V['f']), 'd': numpy.zeros((V['n'], V['m']), int)}, [V['f'] * V['n'] * V['m'], 0]),
            [('f', 'any'), ('n', 'idx'), ('m', 'idx')])
    T.append(Op('BoolToInt', [('n', 'idx')], lambda R: (lambda node: (node, node))(ev.BoolToInt(S('w', (-inf, inf), (S('n', R['n']),), bool))),
                lambda R: 'tf|BoolToInt', lambda V: ({'n': V['n'], 'w': numpy.arange(V['n']) % 2 == 0}, [1 - k % 2 for k in range(V['n'])])))
    return T


def flat_ints(a):
    return [int(x) for x in numpy.asarray(a).ravel()]


def inside(v, b):
    return b[0] <= v <= b[1]


def stream_grid(c, T):
    """(M) exhaustive operand-range grid per transfer function + specification oracle on every case"""
    quick = c.tier == 'quick'
    SMALL = [-2, -1, 0, 1, 2]
    cases = []   # (op, R, real outcome, bnode, enode)
    for op in T:
        g = op.grid or (SMALL if (op.small or (quick and len(op.operands) > 2)) else G)
        per = []
        for name, kind in op.operands:
            rs = all_ranges(g)
            if kind == 'idx': rs = [r for r in rs if r[0] >= 0]
            per.append(rs)
        combos = list(itertools.product(*per))
        limit = 1500 if quick else 40000
        if len(combos) > limit:
            combos = c.rng.sample(combos, limit)
        for combo in combos:
            R = dict(zip([n for n, _ in op.operands], combo))
            try:
                bnode, enode = op.build(R)
            except AssertionError:
                c.count('grid-ctor-raise:' + op.cls); continue
            cases.append((op, R, canon(real_bounds(bnode)), enode, g))
    ans = c.model([op.request(R) for op, R, *_ in cases])
    ndis = collections.Counter(); nunsound = collections.Counter(); ncases = collections.Counter(); nvals = 0; nreal = 0
    realeval_budget = collections.Counter()
    for (op, R, real, enode, g), model in zip(cases, ans):
        ncases[op.cls] += 1
        c.count('grid:' + op.cls)
        c.count('grid-outcome:' + ('raise' if real == 'raise' else 'range'))
        if model == 'bad-request':
            raise Infra('lean driver rejected %r' % op.request(R))
        names = [n for n, _ in op.operands]
        # ---- specification oracle: concrete operand values inside the operand ranges
        bad = None
        rb = None
        if real.startswith('ok'):
            lo, hi = real.split()[1:]
            rb = (float(lo) if 'inf' in lo else int(lo), float(hi) if 'inf' in hi else int(hi))
        ext = (-7, -5, -4, 4, 5, 7) if g is G or g is SMALL or g == G else ()
        assigns = list(itertools.islice(itertools.product(*[conc(R[n], ext, g) for n in names]), 400))
        good = []
        for vals in assigns:
            V = dict(zip(names, vals))
            args, expected = op.concrete(V)
            if expected is None: continue
            good.append((V, args, expected)); nvals += 1
            if rb is not None and bad is None:
                out = [v for v in expected if not inside(v, rb)]
                if out: bad = (V, args, expected, out[0])
        c.case((op.name, tuple(sorted(R.items()))), nontrivial=bool(good))
        # ---- real evaluation (confirms the recomputation, and is what a failing input is made of)
        do_real = bad is not None or (good and realeval_budget[op.name] < (12 if quick else 150) and c.rng.random() < (.05 if quick else .2))
        if do_real:
            realeval_budget[op.name] += 1
            todo = [bad[:3]] if bad else c.rng.sample(good, min(len(good), 3))
            for V, args, expected in todo:
                try:
                    got = flat_ints(evaluate(enode, args))
                except Exception as e:
                    got = 'exception %s: %s' % (type(e).__name__, str(e)[:80])
                nreal += 1; c.traces += 1
                if got != expected:
                    ndis['spec:' + op.cls] += 1
                    c.broken_no_input('corr:spec:' + op.cls, 'exact recomputation of %s disagrees with the evaluated node' % op.name,
                                      dict(op=op.name, ranges={k: srng(v) for k, v in R.items()}, values=V, expected=expected, got=got))
                elif rb is not None:
                    out = [v for v in got if not inside(v, rb)]
                    if out:
                        nunsound[op.cls] += 1
                        c.failing_input('intbounds-unsound:' + op.cls,
                                        '%s announces the range %s for operand ranges %s but evaluates to %r for operand values %r' % (op.name, real, {k: srng(v) for k, v in R.items()}, out[0], V),
                                        dict(op=op.name, ranges={k: srng(v) for k, v in R.items()}, values=V, announced=real, evaluated=got, model=model))
        # ---- correspondence model <-> code
        if model != real and not (bad is not None):
            ndis[op.cls] += 1
            c.sample(dict(stream='grid-disagreement', op=op.name, ranges={k: srng(v) for k, v in R.items()}, real=real, model=model), limit=12)
            c.broken_no_input('corr:tf:' + op.cls, 'transfer function of %s: real %r, model %r for operand ranges %r; no reachable value outside the real range found' % (
                op.name, real, model, {k: srng(v) for k, v in R.items()}), dict(op=op.name, ranges={k: srng(v) for k, v in R.items()}, real=real, model=model))
        elif model != real:
            ndis[op.cls] += 1
    c.sample(dict(stream='grid', example=dict(op=cases[0][0].name, ranges={k: srng(v) for k, v in cases[0][1].items()}, real=cases[0][2], model=ans[0])))
    for cls in sorted(ncases):
        c.obligation('corr:tf:' + cls, ndis[cls] == 0 and ndis['spec:' + cls] == 0 and nunsound[cls] == 0, 'correspondence',
                     '%d grid cases, %d disagreements, %d unsound' % (ncases[cls], ndis[cls], nunsound[cls]))
    c.count('grid-concrete-values', nvals); c.count('grid-real-evaluations', nreal)


def stream_corpus(c):
    """past failures first: the minimal inputs of the two genuine defects of the pinned tree (fixed since; the signatures stay)"""
    ev = lib()[0]
    k = ev.constant
    a = ev.Argument('a', (k(2),), int)
    h = ev.Inflate(ev.InRange(a, k(4)), k(numpy.array([0, 0])), k(1))
    A = dict(a=numpy.array([3, 3]))
    lo, hi = h._intbounds
    val = flat_ints(evaluate(h, A))
    ok1 = all(lo <= v <= hi for v in val)
    m = ev.Minimum(h, k(numpy.array([4])))
    raw, simp = flat_ints(evaluate(m, A)), flat_ints(evaluate(m, A, simplify=True))
    if not ok1 or raw != simp:
        c.failing_input('intbounds-unsound:Inflate', 'Inflate with a repeated dof announces (%s, %s) but evaluates to %r; Minimum(that, 4) evaluates to %r raw and %r simplified' % (
            snum(lo), snum(hi), val, raw, simp), dict(stream='corpus', case='inflate-duplicate-dofs', announced=[snum(lo), snum(hi)], value=val, minimum_raw=raw, minimum_simplified=simp))
    n = ev.InRange(ev.Argument('n', (), int), k(6))
    e = ev.Einsum((ev.InsertAxis(k(2), n), ev.InsertAxis(k(3), n)), ((0,), (0,)), ())
    lo, hi = e._intbounds
    bad = None
    for nv in range(6):
        v = flat_ints(evaluate(e, dict(n=numpy.array(nv))))[0]
        if not lo <= v <= hi: bad = (nv, v); break
    if bad:
        c.failing_input('intbounds-unsound:Einsum', 'Einsum over an axis of length n in [0,5] announces (%s, %s) but evaluates to %d for n=%d' % (snum(lo), snum(hi), bad[1], bad[0]),
                        dict(stream='corpus', case='einsum-variable-length', announced=[snum(lo), snum(hi)], n=bad[0], value=bad[1]))
    c.case(('corpus', 'inflate'), True); c.case(('corpus', 'einsum'), True)
    c.obligation('corpus:known-defects-stay-fixed', ok1 and raw == simp and not bad, 'correspondence', 'Inflate with repeated dofs, Einsum over a variable length')


def run(c):
    c.rule = ('grid: every class with an _intbounds_impl as a real node over range-carrying stubs x exhaustive operand ranges over {-inf,-3..3,inf}^2 '
              '(3+ operands: {-inf,-2..2,inf}^2, sampled in the quick tier); non-trivial when at least one concrete operand assignment inside the ranges has a defined '
              'result; distinct by (class, ranges).  consumers: the five range-consuming _simplified rules x the same grid, non-trivial when a rewrite fires.  '
              'expr: random expressions of the Lean expression language (depth 1-4, loops, Take, RavelIndex, _SizesToOffsets, computed lengths) built as real DAGs, with '
              'honest argument values; non-trivial when more than one node; distinct by tokens+values.  dag: random real DAGs over ~45 classes; one case per '
              'integer sub-node (evaluated at every loop iteration), non-trivial when it has entries.  func: function.Array compositions on samples; one case per array.  funcargs: random programs of replace_arguments / Array.replace / derivative / linearize / field / integral / bind over arrays that depend on several arguments whose names are all strings of length 1-3 over a 2-3 letter alphabet (substrings of each other), every spelling of the specification (string, dict, tuples of strings, pairs of names / Argument objects / arrays); one case per array, non-trivial when not a leaf, distinct by (operation text, announced names, shape).')
    c.assumptions += ['64-bit overflow of numpy integers is not modelled (Python ints are unbounded)',
                      'RavelIndex is used with ia >= 0 only (documented domain: ia indexes an axis of length na; all construction sites pass dofmaps, Range or x % n)']
    broken = c.build_and_audit()
    c.log('proofs built and audited')
    import traceback
    def guarded(name, fn, *a):
        # an exception escaping a stream comes from the code under test behaving differently from the pinned tree (on which every
        # stream runs through for every seed): that is a broken correspondence, not an infrastructure problem
        try:
            fn(c, *a)
        except Infra:
            raise
        except Exception as e:
            tb = traceback.format_exc()
            c.obligation('stream:' + name, False, 'correspondence', 'stream aborted by %s' % type(e).__name__)
            c.broken_no_input('stream:' + name, 'stream aborted by %s: %s' % (type(e).__name__, str(e)[:200]), dict(stream=name, traceback=tb[-3000:]))
        c.log(name + ' done')
    guarded('corpus', stream_corpus)
    guarded('grid', lambda c: stream_grid(c, ops_table()))
    guarded('consumers', stream_consumers)
    guarded('expr', stream_expr)
    guarded('dag', stream_dag)
    guarded('func', stream_func)
    from . import c06_funcargs
    guarded('funcargs', lambda c: c06_funcargs.stream_funcargs(c, time_limit, EvalTimeout))
    for b in broken:
        c.broken_no_input('proof', b, dict(detail=b))


# ---------------------------------------------------------------------------------------------------------------------
# (M2) the expression language of Model/C06Expr.lean against real DAGs

class ExprGen:
    """generates (tokens, real node) pairs; a vector also carries its length spec (tokens, real node) mirroring `node.shape[0]`"""

    def __init__(self, rng):
        self.rng = rng
        self.ev, self.types, self.RArg = lib()
        self.nloop = 0
        self.args = {}      # name -> (lo, hi, length spec or None)
        self.by_spec = {}

    RANGES = [(-inf, inf), (0, 3), (-2, 2), (1, 3), (-3, -1), (0, inf), (-inf, 0), (0, 0), (2, 2), (-inf, -1), (1, inf), (0, 1)]

    def argname(self, lo, hi, L):
        key = (lo, hi, L[0] if L else None)
        names = self.by_spec.setdefault(key, [])
        if names and self.rng.random() < .5:
            return self.rng.choice(names)
        n = len(self.args); self.args[n] = (lo, hi, L); names.append(n)
        return n

    def const_s(self, v):
        return 'const s 1 %d' % v, self.ev.constant(v)

    def length_spec(self):
        r = self.rng.random()
        if r < .3: return self.const_s(2)
        if r < .5: return self.const_s(3)
        if r < .58: return self.const_s(0)
        if r < .66: return self.const_s(1)
        lo, hi = self.rng.choice([(0, 3), (1, 3), (0, inf), (2, 2), (0, 0), (0, 1)])
        n = self.argname(lo, hi, None)
        return 'argS %d %s %s' % (n, snum(lo), snum(hi)), S('a%d' % n, (lo, hi))

    def index_scalar(self, d, loops):
        """a scalar whose range has a non-negative lower bound (usable as a length)"""
        r = self.rng.random()
        if d <= 0 or r < .4: return self.length_spec()
        if r < .55 and loops:
            return self.loopindex(loops)
        if r < .7:
            t, n = self.scalar(d-1, loops); return 'abs ' + t, self.ev.Absolute(n)
        if r < .85:
            (t1, n1), (t2, n2) = self.scalar(d-1, loops), self.length_spec(); return 'inRange %s %s' % (t1, t2), self.ev.InRange(n1, n2)
        (t1, n1), (t2, n2) = self.index_scalar(d-1, loops), self.index_scalar(d-1, loops)
        return 'add %s %s' % (t1, t2), self.ev.Add(fms(n1, n2))

    def loopindex(self, loops):
        lid, (lt, ln) = self.rng.choice(loops)
        return 'loopIndex %d %s' % (lid, lt), self.ev.loop_index('l%d' % lid, ln)

    def divisor(self, d, loops):
        r = self.rng.random()
        if r < .35: return self.const_s(self.rng.choice([-3, -2, -1, 1, 2, 3]))
        if r < .7:
            lo, hi = self.rng.choice([(1, 3), (-3, -1), (1, inf), (-inf, -1), (2, 2)])
            n = self.argname(lo, hi, None); return 'argS %d %s %s' % (n, snum(lo), snum(hi)), S('a%d' % n, (lo, hi))
        t, n = self.scalar(d-1, loops)
        return 'add abs %s const s 1 1' % t, self.ev.Add(fms(self.ev.Absolute(n), self.ev.constant(1)))

    def scalar(self, d, loops):
        ev, rng = self.ev, self.rng
        if d <= 0 or rng.random() < .15:
            r = rng.random()
            if r < .3: return self.const_s(rng.randint(-3, 4))
            if r < .5 and loops: return self.loopindex(loops)
            lo, hi = rng.choice(self.RANGES); n = self.argname(lo, hi, None)
            return 'argS %d %s %s' % (n, snum(lo), snum(hi)), S('a%d' % n, (lo, hi))
        k = rng.choice(['neg', 'abs', 'sign', 'add', 'add', 'mul', 'mul', 'floordiv', 'mod', 'min', 'max', 'inRange', 'normDim', 'ravelIndex', 'take', 'sum', 'sum', 'loopSum', 'idx'])
        if k == 'idx': return self.index_scalar(d, loops)
        if k in ('neg', 'abs', 'sign'):
            t, n = self.scalar(d-1, loops)
            return k + ' ' + t, {'neg': ev.Negative, 'abs': ev.Absolute, 'sign': ev.Sign}[k](n)
        if k in ('add', 'mul', 'min', 'max'):
            (t1, n1), (t2, n2) = self.scalar(d-1, loops), self.scalar(d-1, loops)
            node = ev.Add(fms(n1, n2)) if k == 'add' else ev.Multiply(fms(n1, n2)) if k == 'mul' else ev.Minimum(n1, n2) if k == 'min' else ev.Maximum(n1, n2)
            return '%s %s %s' % (k, t1, t2), node
        if k in ('floordiv', 'mod'):
            (t1, n1), (t2, n2) = self.scalar(d-1, loops), self.divisor(d-1, loops)
            return '%s %s %s' % (k, t1, t2), (ev.FloorDivide if k == 'floordiv' else ev.Mod)(n1, n2)
        if k == 'inRange':
            (t1, n1), (t2, n2) = self.scalar(d-1, loops), self.index_scalar(d-1, loops)
            return 'inRange %s %s' % (t1, t2), ev.InRange(n1, n2)
        if k == 'normDim':
            (t1, n1), (t2, n2) = self.index_scalar(d-1, loops), self.scalar(d-1, loops)
            return 'normDim %s %s' % (t1, t2), ev.NormDim(n1, n2)
        if k == 'ravelIndex':
            (t1, n1), (t2, n2), (t3, n3) = self.index_scalar(d-1, loops), self.scalar(d-1, loops), self.index_scalar(d-1, loops)
            return 'ravelIndex %s %s %s' % (t1, t2, t3), ev.RavelIndex(n1, n2, ev.constant(7), n3)
        if k == 'take':
            (tf, nf, L), (ti, ni) = self.vector(d-1, loops), self.scalar(d-1, loops)
            # indices inside [0, n): nutils' rewrite rules (and the default rule, which evaluates simplified) do not wrap negative indices as numpy does
            if self.rng.random() < .5:
                ti, ni = 'inRange %s %s' % (ti, L[0]), ev.InRange(ni, L[1])
            else:
                ti, ni = 'mod %s max %s const s 1 1' % (ti, L[0]), ev.Mod(ni, ev.Maximum(L[1], ev.constant(1)))
            return 'take %s %s' % (tf, ti), ev.Take(nf, ni)
        if k == 'sum':
            tf, nf, L = self.vector(d-1, loops)
            return 'sum %s %s' % (tf, L[0]), ev.Sum(nf)
        if k == 'loopSum':
            lid = self.nloop; self.nloop += 1
            L = self.index_scalar(min(d-1, 1), loops)
            tb, nb = self.scalar(d-1, loops + [(lid, L)])
            return 'loopSum %d %s %s' % (lid, L[0], tb), ev.loop_sum(nb, ev.loop_index('l%d' % lid, L[1]))
        raise AssertionError(k)

    def vector(self, d, loops, L=None):
        """returns (tokens, node, length spec)"""
        ev, rng = self.ev, self.rng
        free = L is None
        if L is None: L = self.length_spec() if rng.random() < .8 else self.index_scalar(min(d, 1), [l for l in loops if False])
        if d <= 0 or rng.random() < .15:
            r = rng.random()
            if r < .25 and L[0].startswith('const s 1 '):
                k = int(L[0].split()[-1]); vals = [rng.randint(-3, 4) for _ in range(k)]
                return 'const v %d %s' % (k, ' '.join(map(str, vals))), ev.constant(numpy.array(vals, dtype=int)), L
            if r < .45: return 'range ' + L[0], ev.Range(L[1]), L
            if r < .6:
                t, n = self.scalar(d-1, loops); return 'insertAxis %s %s' % (t, L[0]), ev.InsertAxis(n, L[1]), L
            lo, hi = rng.choice(self.RANGES); n = self.argname(lo, hi, L)
            return 'argV %d %s %s %s' % (n, snum(lo), snum(hi), L[0]), S('a%d' % n, (lo, hi), (L[1],)), L
        ks = ['neg', 'abs', 'sign', 'add', 'mul', 'floordiv', 'mod', 'min', 'max', 'inRange', 'normDim', 'ravelIndex', 'take', 'insertAxis']
        if free: ks += ['sizesToOffsets', 'sizesToOffsets', 'loopConcat', 'loopConcat', 'loopConcat']
        k = rng.choice(ks)
        if k in ('neg', 'abs', 'sign'):
            t, n, _ = self.vector(d-1, loops, L)
            return k + ' ' + t, {'neg': ev.Negative, 'abs': ev.Absolute, 'sign': ev.Sign}[k](n), L
        if k in ('add', 'mul', 'min', 'max'):
            (t1, n1, _), (t2, n2, _) = self.vector(d-1, loops, L), self.vector(d-1, loops, L)
            node = ev.Add(fms(n1, n2)) if k == 'add' else ev.Multiply(fms(n1, n2)) if k == 'mul' else ev.Minimum(n1, n2) if k == 'min' else ev.Maximum(n1, n2)
            return '%s %s %s' % (k, t1, t2), node, L
        if k in ('floordiv', 'mod'):
            (t1, n1, _), (t2, n2) = self.vector(d-1, loops, L), self.divisor(d-1, loops)
            return '%s %s insertAxis %s %s' % (k, t1, t2, L[0]), (ev.FloorDivide if k == 'floordiv' else ev.Mod)(n1, ev.InsertAxis(n2, L[1])), L
        if k == 'inRange':
            (t1, n1, _), (t2, n2) = self.vector(d-1, loops, L), self.index_scalar(d-1, loops)
            return 'inRange %s %s' % (t1, t2), ev.InRange(n1, n2), L
        if k == 'normDim':
            (t1, n1), (t2, n2, _) = self.index_scalar(d-1, loops), self.vector(d-1, loops, L)
            return 'normDim insertAxis %s %s %s' % (t1, L[0], t2), ev.NormDim(ev.InsertAxis(n1, L[1]), n2), L
        if k == 'ravelIndex':
            (t3, n3) = self.index_scalar(d-1, loops)
            if rng.random() < .5:
                (t1, n1, _), (t2, n2) = self.vector(d-1, loops, L), self.scalar(d-1, loops)
                if not t1.startswith(('range', 'abs', 'const v')) or any(x.startswith('-') for x in t1.split()):
                    t1, n1 = 'abs ' + t1, ev.Absolute(n1)
            else:
                (t1, n1), (t2, n2, _) = self.index_scalar(d-1, loops), self.vector(d-1, loops, L)
            return 'ravelIndex %s %s %s' % (t1, t2, t3), ev.RavelIndex(n1, n2, ev.constant(7), n3), L
        if k == 'take':
            (tf, nf, Lf), (ti, ni, _) = self.vector(d-1, loops), self.vector(d-1, loops, L)
            if self.rng.random() < .5:
                ti, ni = 'inRange %s %s' % (ti, Lf[0]), ev.InRange(ni, Lf[1])
            else:
                ti, ni = 'mod %s insertAxis max %s const s 1 1 %s' % (ti, Lf[0], L[0]), ev.Mod(ni, ev.InsertAxis(ev.Maximum(Lf[1], ev.constant(1)), L[1]))
            return 'take %s %s' % (tf, ti), ev.Take(nf, ni), L
        if k == 'insertAxis':
            t, n = self.scalar(d-1, loops); return 'insertAxis %s %s' % (t, L[0]), ev.InsertAxis(n, L[1]), L
        if k == 'sizesToOffsets':
            t, n, _ = self.vector(d-1, loops, L)
            t, n = 'abs ' + t, ev.Absolute(n)
            return 'sizesToOffsets %s %s' % (t, L[0]), ev._SizesToOffsets(n), ('add %s const s 1 1' % L[0], ev.Add(fms(L[1], ev.constant(1))))
        if k == 'loopConcat':
            lid = self.nloop; self.nloop += 1
            N = self.index_scalar(min(d-1, 1), loops)
            inner = loops + [(lid, N)]
            if rng.random() < .5:
                Lb = self.const_s(rng.choice([0, 1, 2]))
            elif rng.random() < .6:
                Lb = self.loopindex([(lid, N)])          # triangular: the chunk size is the loop index
            else:
                Lb = self.index_scalar(1, inner)
            tb, nb, _ = self.vector(d-1, inner, Lb)
            index = ev.loop_index('l%d' % lid, N[1])
            node = ev.loop_concatenate(nb, index)
            one = 'const s 1 1'
            if Lb[1].isconstant:
                ltok = 'take sizesToOffsets insertAxis %s %s %s %s' % (Lb[0], N[0], N[0], N[0])
            else:
                cs = 'loopConcat %d %s insertAxis %s %s %s' % (lid, N[0], Lb[0], one, one)
                cs_len = 'take sizesToOffsets insertAxis %s %s %s %s' % (one, N[0], N[0], N[0])
                ltok = 'take sizesToOffsets %s %s %s' % (cs, cs_len, N[0])
            return 'loopConcat %d %s %s %s' % (lid, N[0], tb, Lb[0]), node, (ltok, node.shape[0])
        raise AssertionError(k)

    def environment(self):
        """honest argument values: inside the declared ranges, with the declared lengths (evaluated recursively)"""
        vals = {}
        def value(lo, hi):
            l = -4 if lo == -inf else lo; h = 4 if hi == inf else hi
            return self.rng.randint(int(l), int(h))
        # scalars first (lengths are scalars), then vectors in order of creation (a length spec only refers to earlier names)
        for n, (lo, hi, L) in sorted(self.args.items()):
            if L is None: vals[n] = [value(lo, hi)]
        return vals, value


def real_deps(node):
    ev = lib()[0]
    out = set()
    for a in node.arguments:
        if isinstance(a, ev._LoopIndex): out.add('l' + str(a.loop_id)[1:])
        else: out.add('a' + a.name[1:])
    return out


def stream_expr(c):
    """(M2) model Expr vs real DAG: range, arguments, evaluated values, and the value preservation of `simplified`"""
    ev = lib()[0]
    N = 220 if c.tier == 'quick' else 10000
    reqs = []; meta = []
    ntry = 0
    while len(meta) < N and ntry < 20 * N:
        ntry += 1
        g = ExprGen(c.rng)
        depth = c.rng.choice([1, 2, 2, 3, 3, 4])
        try:
            if c.rng.random() < .5:
                tok, node = g.scalar(depth, []); L = None
            else:
                tok, node, L = g.vector(depth, [])
        except AssertionError:
            c.count('expr-ctor-raise'); continue
        except Exception as e:
            c.count('expr-ctor-exc:' + type(e).__name__); continue
        # environment: scalars, then vector lengths by evaluating the real length nodes
        vals, value = g.environment()
        ok = True
        for n, (lo, hi, Ls) in sorted(g.args.items()):
            if Ls is None: continue
            try:
                k = int(evaluate(Ls[1], {'a%d' % m: (v[0] if g.args[m][2] is None else v) for m, v in vals.items()}))
            except Exception:
                ok = False; break
            vals[n] = [value(lo, hi) for _ in range(max(k, 0))]
        if not ok:
            c.count('expr-env-fail'); continue
        envs = ';'.join('%d:%s' % (n, ','.join(map(str, v))) for n, v in vals.items())
        for t, nd, kind in [(tok, node, 'top')] + ([(L[0], L[1], 'length')] if L is not None else []):
            reqs.append('expr|%s|%s|' % (t, envs)); meta.append((t, nd, kind, g, vals))
    ans = c.model(reqs)
    ndis = collections.Counter(); nunsound = 0
    for (tok, node, kind, g, vals), a in zip(meta, ans):
        if a == 'bad-request':
            raise Infra('lean driver rejected expr %r' % tok)
        f = dict(x.split('=', 1) for x in a.split(';'))
        args = {'a%d' % m: (v[0] if g.args[m][2] is None else numpy.array(v, dtype=int)) for m, v in vals.items()}
        try:
            with time_limit(20):
                rb = canon(node._intbounds)
        except AssertionError:
            rb = 'raise'
        except Exception as e:
            rb = 'raise'; c.count('expr-bounds-exc:' + type(e).__name__)
        try:
            with numpy.errstate(all='ignore'):
                rv = flat_ints(evaluate(node, args))
        except Exception as e:
            rv = 'raise'
        rdeps = real_deps(node)
        mdeps = set(filter(None, f['deps'].split(',')))
        head = tok.split()[0]
        c.count('expr-head:' + head); c.count('expr-kind:' + kind)
        for w in set(tok.split()):
            if w.isalpha(): c.count('expr-op:' + w)
        c.case(('expr', tok, tuple(sorted(vals.items()))), nontrivial=len(tok.split()) > 4)
        replay = dict(stream='expr', tokens=tok, arguments={k: flat_ints(v) for k, v in args.items()}, real_bounds=rb, real_value=rv, real_deps=sorted(rdeps), model=a)
        # --- property oracle on the real code: value inside the announced range
        if rb.startswith('ok') and rv != 'raise':
            lo, hi = rb.split()[1:]
            lo = float(lo) if 'inf' in lo else int(lo); hi = float(hi) if 'inf' in hi else int(hi)
            out = [x for x in rv if not (lo <= x <= hi)]
            if out:
                nunsound += 1
                culprit = first_unsound(node, args) or type(node).__name__
                c.failing_input('intbounds-unsound:' + culprit, 'expression %s evaluates to %r outside its announced range %s' % (tok, out[0], rb), replay)
                continue
        # --- property oracle: the result depends only on announced arguments (checked by the (V) stream by perturbation); here: model tie
        mv = f['eval'] if f['eval'] == 'raise' else [int(x) for x in f['eval'].split()]
        # announced shape: the Lean `lenOf` against the real `shape` (range and value) and against the evaluated array
        if node.ndim <= 1 and rv != 'raise':
            if node.ndim == 0:
                rlen, rlenb = 'scalar', 'scalar'
            else:
                try:
                    with time_limit(20):
                        rlenb = canon(node.shape[0]._intbounds)
                except Exception:
                    rlenb = 'raise'
                try:
                    rlen = str(int(evaluate(node.shape[0], args)))
                except Exception:
                    rlen = 'raise'
                if rlen != 'raise' and int(rlen) != len(rv):
                    c.failing_input('metadata-wrong:' + type(node).__name__, 'announced length %s, delivered %d: %s' % (rlen, len(rv), tok), replay)
            if (f['len'], f['lenbounds']) != (rlen, rlenb):
                ndis['shape'] += 1
                c.broken_no_input('corr:expr:shape', 'announced shape: model (%s, %s), real (%s, %s) for %s' % (f['len'], f['lenbounds'], rlen, rlenb, tok), replay)
        bounds_differ = f['bounds'] != rb
        if bounds_differ and f['bounds'] == 'raise' and mv == 'raise' and rv == 'raise' and ('loopSum' in tok or 'mod' in tok):
            # the default rule evaluates a 0-d constant through `eval_once`, i.e. SIMPLIFIED (a failing operand may be simplified away);
            # the model evaluates strictly.  Only reachable for expressions whose evaluation raises anyway.
            c.count('expr-default-rule-on-failing-constant'); bounds_differ = False
        if bounds_differ and rb == 'raise' and rv == 'raise' and mv != 'raise' and ('loopConcat' in tok or 'loopSum' in tok):
            # the default rule evaluates the constant node, and the compiled code evaluates loop-invariant parts of loops that run zero times
            c.count('expr-default-rule-hoisted-invariant-raises'); bounds_differ = False
        if bounds_differ: ndis['bounds'] += 1
        if mdeps != rdeps: ndis['deps'] += 1
        eval_differs = mv != rv
        if eval_differs and rv == 'raise' and mv != 'raise' and ('loopConcat' in tok or 'loopSum' in tok):
            # the compiled code evaluates loop-invariant sub-expressions even if the loop runs zero times; the model is lazy
            c.count('expr-hoisted-invariant-raises'); eval_differs = False
        if eval_differs: ndis['eval'] += 1
        if bounds_differ or mdeps != rdeps or eval_differs:
            c.sample(dict(replay, disagreement=True), limit=12)
            c.broken_no_input('corr:expr:' + ('bounds' if bounds_differ else 'deps' if mdeps != rdeps else 'eval'),
                              'model Expr and real DAG disagree on %s' % tok, replay)
        else:
            c.traces += 1
        if f['index'] == '1': c.count('expr-isindex')
        if f['simp'] != 'none': c.count('expr-consumer-fires:' + head)
        # --- consumer rewrites on the real code preserve the value
        if rv != 'raise' and kind == 'top':
            try:
                with numpy.errstate(all='ignore'):
                    sv = flat_ints(evaluate(node, args, simplify=True))
            except Exception as e:
                # e.g. InRange._intbounds raising while simplifying Take(Range(n), i) for an index that is never evaluated
                c.count('expr-simplify-raises:' + type(e).__name__); sv = rv
            if sv != rv:
                c.count('expr-simplified-differs')
                culprit = first_unsound(node, args)
                direct = None
                if head in ('inRange', 'mod', 'min', 'max', 'normDim'):
                    try:
                        res = node._simplified()
                        if res is not None and any(res is d for d in node.dependencies):
                            direct = flat_ints(evaluate(res, args))
                    except Exception:
                        direct = None
                if culprit:
                    c.failing_input('intbounds-unsound:' + culprit, 'simplified value differs and a sub-node leaves its announced range: %s' % tok, dict(replay, simplified_value=sv))
                elif direct is not None and direct != rv:
                    c.failing_input('consumer-unsound:' + type(node).__name__, '%s._simplified returns an operand with a different value: %s' % (type(node).__name__, tok), dict(replay, simplified_value=sv, operand_value=direct))
                else:
                    # a value-changing simplification that involves no range (e.g. Take with negative indices, which numpy wraps and the
                    # rewrite rules do not): the subject of C01/C02, not of C06
                    c.count('expr-simplified-differs-without-range-culprit')
    c.sample(dict(stream='expr', tokens=meta[0][0], model=ans[0]))
    for k in ('bounds', 'deps', 'eval', 'shape'):
        c.obligation('corr:expr:' + k, ndis[k] == 0, 'correspondence', '%d expressions, %d disagreements' % (len(meta), ndis[k]))
    c.obligation('expr:values-in-range', nunsound == 0, 'correspondence', '%d expressions evaluated' % len(meta))


def walk(node, seen=None):
    ev = lib()[0]
    seen = seen if seen is not None else {}
    if id(node) in seen: return seen
    seen[id(node)] = node
    for d in node.dependencies:
        if isinstance(d, ev.Evaluable): walk(d, seen)
    return seen


def first_unsound(node, args):
    """class name of a deepest loop-free integer sub-node whose evaluated value leaves its announced range"""
    ev = lib()[0]
    best = None
    for sub in walk(node).values():
        if not isinstance(sub, ev.Array) or sub.dtype != int: continue
        if any(isinstance(a, ev._LoopIndex) for a in sub.arguments): continue
        try:
            with time_limit(20):
                lo, hi = sub._intbounds
            with numpy.errstate(all='ignore'):
                v = flat_ints(evaluate(sub, args))
        except Exception:
            continue
        if any(not (lo <= x <= hi) for x in v):
            size = len(walk(sub))
            if best is None or size < best[0]: best = (size, type(sub).__name__)
    return best and best[1]


# ---------------------------------------------------------------------------------------------------------------------
# (V) random real DAGs: every integer sub-node at every loop iteration inside its range; announced shape / dtype / ndim / arguments

class DagGen:
    """bottom-up pool of well-typed real evaluable nodes (dtype, constant or computed shapes), with honest argument values"""

    def __init__(self, rng, prefix='g'):
        self.rng = rng
        self.ev = lib()[0]
        self.prefix = prefix
        self.argvals = {}        # name -> callable(env) -> value (depends on lengths) ; resolved in order of creation
        self.order = []
        self.pool = []           # nodes outside loops
        self.nloop = 0

    # ---- leaves
    def const_int(self, shape):
        return self.ev.constant(numpy.array([self.rng.randint(-3, 4) for _ in range(int(numpy.prod(shape)))], dtype=int).reshape(shape))

    def new_arg(self, shape_nodes, dtype, lo=-inf, hi=inf):
        name = '%s%d' % (self.prefix, len(self.order))
        if dtype == int:
            node = S(name, (lo, hi), tuple(shape_nodes))
        else:
            node = self.ev.Argument(name, tuple(shape_nodes), dtype)
        def value(env, shape_nodes=shape_nodes, dtype=dtype, lo=lo, hi=hi):
            shape = tuple(int(evaluate(n, env)) for n in shape_nodes)
            size = int(numpy.prod(shape)) if shape else 1
            if dtype == int:
                l = -4 if lo == -inf else int(lo); h = 4 if hi == inf else int(hi)
                return numpy.array([self.rng.randint(l, h) for _ in range(size)], dtype=int).reshape(shape)
            if dtype == bool:
                return numpy.array([self.rng.random() < .5 for _ in range(size)], dtype=bool).reshape(shape)
            return numpy.array([self.rng.randint(-8, 8) / 4 for _ in range(size)], dtype=float).reshape(shape)
        self.argvals[name] = value; self.order.append(name)
        return node

    def length(self):
        r = self.rng.random()
        c = self.ev.constant
        if r < .7: return c(self.rng.choice([0, 1, 2, 2, 3, 3, 4]))
        lo, hi = self.rng.choice([(0, 3), (1, 3), (0, inf), (2, 2), (1, inf)])
        return self.new_arg((), int, lo, hi if hi != inf else inf) if hi != inf else self.ev.Minimum(self.new_arg((), int, lo, inf), c(3)) if self.rng.random() < .5 else self.new_arg((), int, lo, 3)

    def leaf(self, extra=()):
        rng, ev = self.rng, self.ev
        r = rng.random()
        if extra and r < .25: return rng.choice(extra)
        shape = [self.length() for _ in range(rng.choice([0, 0, 1, 1, 1, 2]))]
        if r < .45 and all(isinstance(n, ev.Constant) for n in shape):
            return self.const_int(tuple(int(n.value) for n in shape))
        if r < .85:
            lo, hi = rng.choice(ExprGen.RANGES)
            return self.new_arg(shape, int, lo, hi)
        if r < .93: return self.new_arg(shape, float)
        return self.new_arg(shape, bool)

    # ---- one random operation on members of `pool`
    def step(self, pool, loopidx=()):
        rng, ev = self.rng, self.ev
        c = ev.constant
        ints = [n for n in pool if n.dtype == int]
        def pick(pred=lambda n: True, frm=None):
            cands = [n for n in (frm if frm is not None else pool) if pred(n)]
            return rng.choice(cands) if cands else None
        def same_shape(a):
            return pick(lambda n: n.dtype == a.dtype and n.shape == a.shape and n is not a) or a
        def as_shape(x, like):
            """scalar int node broadcast to the shape of `like`"""
            for n in like.shape: x = ev.InsertAxis(x, n)
            return x
        k = rng.choice(['unary', 'binary', 'binary', 'divmod', 'cmp', 'insertaxis', 'transpose', 'sum', 'sum', 'takediag', 'ravel', 'unravel', 'take', 'take',
                        'inflate', 'inflate', 'range', 'ravelindex', 'offsets', 'searchsorted', 'argsort', 'find', 'loopsum', 'loopconcat', 'loopconcat', 'float', 'power',
                        'inrange', 'normdim', 'einsum', 'diagonalize', 'concat', 'minmaxconst', 'product', 'choose', 'poly'])
        a = pick(lambda n: n.dtype == int)
        if loopidx and rng.random() < .7:   # inside a loop body: prefer operands that depend on the innermost index
            a = pick(lambda n: n.dtype == int and loopidx[-1] in n.arguments) or a
        if a is None: return self.leaf(loopidx)
        if k == 'unary': return rng.choice([ev.Negative, ev.Absolute, ev.Sign])(a)
        if k == 'binary':
            b = same_shape(a)
            return rng.choice([lambda: ev.Add(fms(a, b)), lambda: ev.Multiply(fms(a, b)), lambda: ev.Minimum(a, b), lambda: ev.Maximum(a, b), lambda: ev.subtract(a, b)])()
        if k == 'divmod':
            b = same_shape(a)
            d = ev.Add(fms(ev.Absolute(b), as_shape(c(1), b)))
            if rng.random() < .4: d = ev.Negative(d)
            return rng.choice([ev.FloorDivide, ev.Mod])(a, d)
        if k == 'cmp':
            b = same_shape(a)
            return ev.BoolToInt(rng.choice([ev.Greater, ev.Equal, ev.Less])(a, b))
        if k == 'insertaxis': return ev.InsertAxis(a, self.length())
        if k == 'transpose':
            a = pick(lambda n: n.ndim >= 2) or a
            if a.ndim < 2: return ev.InsertAxis(a, c(2))
            perm = list(range(a.ndim)); rng.shuffle(perm)
            return ev.Transpose(a, tuple(perm))
        if k == 'sum':
            a = pick(lambda n: n.dtype == int and n.ndim >= 1) or a
            return ev.Sum(a) if a.ndim else a
        if k == 'product':
            a = pick(lambda n: n.dtype == int and n.ndim >= 1) or a
            return ev.Product(a) if a.ndim else a
        if k == 'takediag':
            a = pick(lambda n: n.ndim >= 2 and n.shape[-1] == n.shape[-2]) or ev.InsertAxis(ev.InsertAxis(a, c(2)), c(2))
            return ev.TakeDiag(a)
        if k == 'ravel':
            a = pick(lambda n: n.ndim >= 2) or ev.InsertAxis(ev.InsertAxis(a, c(2)), c(3))
            return ev.Ravel(a)
        if k == 'unravel':
            n1, n2 = self.length(), self.length()
            f = pick(lambda n: n.ndim >= 1 and n.shape[-1] == ev.multiply(n1, n2))
            base = self.new_arg((ev.multiply(n1, n2),), int, *rng.choice(ExprGen.RANGES)) if f is None else f
            return ev.Unravel(base, n1, n2)
        if k == 'take':
            f = pick(lambda n: n.ndim >= 1)
            if f is None: return ev.InsertAxis(a, c(3))
            n = f.shape[-1]
            idx = pick(lambda m: m.dtype == int) or a
            r = rng.random()
            if r < .35: idx = ev.Mod(idx, as_shape(ev.Maximum(n, c(1)), idx))            # in [0, max(n,1)-1]
            elif r < .6: idx = ev.InRange(idx, n)
            elif r < .8: idx = ev.NormDim(as_shape(n, idx), ev.Mod(idx, as_shape(ev.Maximum(n, c(1)), idx)))
            else: idx = ev.Minimum(ev.Absolute(idx), as_shape(ev.Maximum(ev.subtract(n, c(1)), c(0)), idx))
            return ev.Take(f, idx)
        if k == 'inflate':
            f = pick(lambda n: n.ndim >= 1) or ev.InsertAxis(a, c(2))
            length = rng.choice([c(1), c(2), c(4)])
            nd = rng.choice([1] * 3 + [min(2, f.ndim)] + [0])
            if nd == 0:
                return ev.Inflate(f, ev.InRange(ev.Absolute(pick(lambda m: m.dtype == int and m.ndim == 0) or c(0)), length) if rng.random() < .5 else c(0), length)
            dshape = f.shape[f.ndim-nd:]
            if all(isinstance(n, ev.Constant) for n in dshape) and rng.random() < .6:
                shp = tuple(int(n.value) for n in dshape)
                dof = c(numpy.array([rng.randrange(int(length.value)) for _ in range(int(numpy.prod(shp)))], dtype=int).reshape(shp))
            else:
                dof = self.new_arg(dshape, int, 0, int(length.value) - 1)
            return ev.Inflate(f, dof, length)
        if k == 'range': return ev.Range(self.length() if rng.random() < .6 else (pick(lambda m: m.dtype == int and m.ndim == 0 and ev._isindex(m)) or c(2)))
        if k == 'ravelindex':
            na, nb = self.length(), self.length()
            ia = ev.Range(na) if rng.random() < .5 else ev.Mod(a, as_shape(ev.Maximum(na, c(1)), a))
            b = pick(lambda m: m.dtype == int and m.ndim <= 1) or a
            ib = ev.Range(nb) if rng.random() < .5 else ev.Mod(b, as_shape(ev.Maximum(nb, c(1)), b))
            if ia.ndim + ib.ndim > 3: ib = ev.Range(nb)
            return ev.RavelIndex(ia, ib, na, nb)
        if k == 'offsets':
            v = pick(lambda n: n.dtype == int and n.ndim == 1) or ev.InsertAxis(a if a.ndim == 0 else ev.Sum(a) if a.ndim == 1 else c(1), self.length())
            if v.ndim != 1: v = ev.InsertAxis(c(2), self.length())
            return ev._SizesToOffsets(ev.Absolute(v))
        if k == 'searchsorted':
            arr = c(numpy.array(sorted(rng.randint(-3, 4) for _ in range(rng.randint(0, 4))), dtype=int))
            return ev.SearchSorted(a, arr, None, rng.choice(['left', 'right']))
        if k == 'argsort':
            v = pick(lambda n: n.ndim >= 1) or ev.InsertAxis(a, c(3))
            return ev.ArgSort(v)
        if k == 'find':
            v = pick(lambda n: n.dtype == int and n.ndim == 1) or ev.InsertAxis(a if a.ndim == 0 else c(1), self.length())
            if v.ndim != 1: v = ev.Range(self.length())
            return ev.Find(ev.Greater(v, as_shape(c(rng.randint(-1, 2)), v)))
        if k in ('loopsum', 'loopconcat'):
            lid = '%sL%d' % (self.prefix, self.nloop); self.nloop += 1
            n = self.length() if rng.random() < .7 else (pick(lambda m: m.dtype == int and m.ndim == 0 and ev._isindex(m)) or c(2))
            idx = ev.loop_index(lid, n)
            inner = list(loopidx) + [idx]
            body_pool = [idx] + [m for m in pool if rng.random() < .5][:6]
            for _ in range(rng.randint(2, 6)):
                try:
                    body_pool.append(self.step(body_pool, inner))
                except Exception:
                    pass
            body = pick(lambda m: m.dtype == int and idx in m.arguments, body_pool) or idx
            if k == 'loopsum':
                if any(idx in s.arguments for s in body.shape): body = ev.Sum(body) if body.ndim == 1 else idx
                return ev.loop_sum(body, idx)
            if body.ndim == 0: body = ev.InsertAxis(body, rng.choice([c(1), c(2), idx, ev.Add(fms(idx, c(1)))]))
            if any(idx in s.arguments for s in body.shape[:-1]): body = ev.InsertAxis(idx, idx)
            return ev.loop_concatenate(body, idx)
        if k == 'float':
            f = pick(lambda n: n.dtype == float)
            x = ev.IntToFloat(a)
            if f is not None and f.shape == x.shape: return rng.choice([ev.Add(fms(x, f)), ev.Multiply(fms(x, f))])
            return x
        if k == 'power':
            b = same_shape(a)
            return ev.Power(a, ev.Mod(b, as_shape(c(3), b)))
        if k == 'inrange': return ev.InRange(ev.Absolute(a), rng.choice([c(3), c(5), self.length()]))
        if k == 'normdim':
            n = rng.choice([c(2), c(3), c(4)])
            return ev.NormDim(as_shape(n, a), ev.subtract(ev.Mod(a, as_shape(ev.multiply(n, c(2)), a)), as_shape(n, a)))
        if k == 'einsum':
            v = pick(lambda n: n.dtype == int and n.ndim == 1)
            if v is None: return ev.InsertAxis(a, c(2))
            w = same_shape(v)
            return rng.choice([lambda: ev.Einsum((v, w), ((0,), (0,)), ()), lambda: ev.Einsum((v,), ((0,),), ()), lambda: ev.Einsum((v, w), ((0,), (1,)), (0, 1))])()
        if k == 'diagonalize':
            v = pick(lambda n: n.ndim >= 1) or ev.InsertAxis(a, c(2))
            return ev.Diagonalize(v)
        if k == 'concat':
            v = pick(lambda n: n.dtype == int and n.ndim == 1) or ev.InsertAxis(a if a.ndim == 0 else c(1), c(2))
            if v.ndim != 1: v = ev.Range(c(2))
            w = pick(lambda n: n.dtype == int and n.ndim == 1) or v
            return ev.concatenate([v, w], axis=0)
        if k == 'minmaxconst':
            return rng.choice([ev.Minimum, ev.Maximum])(a, as_shape(c(rng.randint(-2, 3)), a))
        if k == 'choose':
            v = pick(lambda n: n.dtype == int and n.ndim >= 1 and isinstance(n.shape[-1], ev.Constant) and int(n.shape[-1].value) > 0)
            if v is None: return ev.Absolute(a)
            nsel = int(v.shape[-1].value)
            sel = self.new_arg(v.shape[:-1], int, 0, nsel - 1)
            return ev.Choose(sel, v)
        if k == 'poly':
            s = pick(lambda n: n.dtype == int and n.ndim == 0) or c(1)
            nv = rng.randint(0, 3)
            if rng.random() < .5:
                return ev.PolyNCoeffs(nv, ev.Minimum(ev.Absolute(s), c(4)))
            return ev.PolyDegree(ev.PolyNCoeffs(nv, ev.Minimum(ev.Absolute(s), c(4))), nv)
        raise AssertionError(k)

    def build(self, nsteps):
        for _ in range(3): self.pool.append(self.leaf())
        for _ in range(nsteps):
            try:
                node = self.step(self.pool)
            except Exception as e:   # construction errors of the code under test are outcomes, not harness failures
                self.nfail = getattr(self, 'nfail', 0) + 1
                continue
            if node is not None: self.pool.append(node)
        return self.pool

    def environment(self):
        env = {}
        for name in self.order:
            env[name] = self.argvals[name](env)
        return env


def safe_tree(node):
    try:
        return node.asciitree()[:4000]
    except Exception as e:
        return 'asciitree raises %s' % type(e).__name__


def bind_loops(node):
    """all values of `node` over all iterations of the loops whose index is free in it, as one flat array"""
    ev = lib()[0]
    f = ev._flat(node) if node.ndim else ev.InsertAxis(node, ev.constant(1))
    for _ in range(8):
        free = [a for a in f.arguments if isinstance(a, ev._LoopIndex)]
        if not free: return f
        # bind an index on which no other free index's length depends
        cand = [x for x in free if not any(x in y.length.arguments for y in free if y is not x)]
        f = ev.loop_concatenate(f, (cand or free)[0])
    return None


def stream_dag(c):
    ev = lib()[0]
    ndags = 32 if c.tier == 'quick' else 1200
    stats = collections.Counter()
    nviol = collections.Counter()
    unexpected = []
    for idag in range(ndags):
        g = DagGen(c.rng)
        pool = g.build(c.rng.randint(6, 14))
        stats['construction-failures'] += getattr(g, 'nfail', 0)
        try:
            env = g.environment()
        except Exception as e:
            stats['env-fail:' + type(e).__name__] += 1; continue
        nodes = {}
        for root in pool: walk(root, nodes)
        stats['dags'] += 1
        for sub in nodes.values():
            if not isinstance(sub, ev.Array): continue
            cls = type(sub).__name__
            has_loopidx = any(isinstance(a, ev._LoopIndex) for a in sub.arguments)
            # ---- integer range at every loop iteration
            if sub.dtype == int:
                try:
                    with time_limit(20):
                        lo, hi = sub._intbounds
                except AssertionError:
                    stats['bounds-raise:' + cls] += 1; lo = None
                except Exception as e:
                    stats['bounds-exc:%s:%s' % (cls, type(e).__name__)] += 1; lo = None
                if lo is not None:
                    try:
                        f = bind_loops(sub)
                    except Exception as e:
                        f = None; unexpected.append('bind_loops(%s): %s: %s' % (cls, type(e).__name__, str(e)[:120]))
                    try:
                        with numpy.errstate(all='ignore'):
                            vals = flat_ints(evaluate(f, env)) if f is not None else None
                    except Exception as e:
                        vals = None; stats['eval-raise'] += 1
                    if vals is not None:
                        stats['intnodes'] += 1; c.count('dag-int:' + cls); c.traces += 1
                        if has_loopidx: stats['intnodes-in-loop'] += 1; c.count('dag-int-in-loop:' + cls)
                        c.case(('dag', idag, cls, len(nodes), lo, hi, tuple(vals[:6])), nontrivial=len(vals) > 0)
                        out = [v for v in vals if not (lo <= v <= hi)]
                        if out:
                            nviol['range'] += 1
                            c.failing_input('intbounds-unsound:' + cls, '%s node evaluates to %r outside its announced range (%s, %s)' % (cls, out[0], snum(lo), snum(hi)),
                                            dict(stream='dag', node=repr(sub)[:600], tree=safe_tree(sub), cls=cls, announced=[snum(lo), snum(hi)], values=vals[:40], arguments={k: numpy.asarray(v).tolist() for k, v in env.items()}, in_loop=has_loopidx))
            # ---- announced shape / dtype / ndim / arguments of loop-free nodes
            if has_loopidx: continue
            try:
                with numpy.errstate(all='ignore'):
                    val = numpy.asarray(evaluate(sub, env))
            except Exception as e:
                stats['eval-raise'] += 1; continue
            stats['metanodes'] += 1; c.count('dag-meta:' + cls)
            try:
                # raw (unsimplified) evaluation of the announced shape: `__index__` would simplify, and simplification may raise where
                # evaluation does not (InRange._intbounds on an index that is never taken)
                shape = tuple(int(evaluate(n, env)) for n in sub.shape)
            except Exception as e:
                stats['shape-eval-raises:' + type(e).__name__] += 1; continue
            kind = {bool: 'b', int: 'i', float: 'f', complex: 'c'}[sub.dtype]
            what = None
            if val.ndim != sub.ndim: what = 'ndim %d announced, %d delivered' % (sub.ndim, val.ndim)
            elif shape != val.shape: what = 'shape %r announced, %r delivered' % (shape, val.shape)
            elif val.dtype.kind != kind: what = 'dtype %s announced, %s delivered' % (kind, val.dtype.kind)
            if what:
                nviol['meta'] += 1
                c.failing_input('metadata-wrong:' + cls, '%s: %s' % (cls, what), dict(stream='dag', node=repr(sub)[:600], tree=safe_tree(sub), cls=cls, what=what, arguments={k: numpy.asarray(v).tolist() for k, v in env.items()}))
                continue
            # result independent of arguments that are not announced
            announced = {a.name for a in sub.arguments if isinstance(a, ev.Argument)}
            others = [k for k in env if k not in announced]
            if others and c.rng.random() < .5:
                env2 = dict(env)
                for k in others:
                    v = numpy.asarray(env[k])
                    env2[k] = (~v) if v.dtype == bool else v + (1 if v.dtype.kind == 'i' else .5)
                try:
                    with numpy.errstate(all='ignore'):
                        val2 = numpy.asarray(evaluate(sub, env2))
                    same = val2.shape == val.shape and (val2 == val).all()
                except Exception as e:
                    same = None   # un-announced shape arguments can only make the evaluation raise (shape check of an Argument)
                    stats['perturbed-raises'] += 1
                stats['perturbations'] += 1
                if same is False:
                    nviol['arguments'] += 1
                    c.failing_input('arguments-incomplete:' + cls, '%s: value changes when arguments that are not announced are perturbed' % cls,
                                    dict(stream='dag', node=repr(sub)[:600], cls=cls, announced=sorted(announced), perturbed=others, arguments={k: numpy.asarray(v).tolist() for k, v in env.items()}))
            # evaluating with ONLY the announced arguments must succeed with the same value
            if c.rng.random() < .3:
                try:
                    with numpy.errstate(all='ignore'):
                        val3 = numpy.asarray(evaluate(sub, {k: v for k, v in env.items() if k in announced or any(k == a.name for s in walk(sub).values() if isinstance(s, ev.Argument) for a in [s])}))
                    ok3 = val3.shape == val.shape and (val3 == val).all()
                except Exception as e:
                    ok3 = False
                stats['announced-only'] += 1
                if not ok3:
                    nviol['arguments'] += 1
                    c.failing_input('arguments-incomplete:' + cls, '%s: evaluation with only the announced arguments fails or differs' % cls,
                                    dict(stream='dag', node=repr(sub)[:600], cls=cls, announced=sorted(announced), arguments={k: numpy.asarray(v).tolist() for k, v in env.items()}))
        # ---- consumers: the simplified / optimized roots deliver the same values
        for root in pool[-3:]:
            if any(isinstance(a, ev._LoopIndex) for a in root.arguments): continue
            try:
                with numpy.errstate(all='ignore'):
                    v0 = numpy.asarray(evaluate(root, env))
            except Exception:
                continue
            try:
                with numpy.errstate(all='ignore'):
                    v1 = numpy.asarray(evaluate(root, env, simplify=True))
            except Exception as e:
                stats['simplify-raises:' + type(e).__name__] += 1; continue
            stats['simplified-roots'] += 1
            if v0.shape != v1.shape or not (v0 == v1).all():
                culprit = first_unsound(root, env)
                if culprit:
                    nviol['range'] += 1
                    c.failing_input('intbounds-unsound:' + culprit, 'simplified DAG differs and a %s sub-node leaves its range' % culprit, dict(stream='dag-simplify', node=repr(root)[:600]))
                else:
                    stats['simplified-differs-no-range-culprit'] += 1
    for k, v in stats.items(): c.count('dag:' + k, v)
    if unexpected:
        c.broken_no_input('dag:unexpected-exception', 'the real code raises where the pinned tree does not: ' + unexpected[0], dict(stream='dag', exceptions=unexpected[:20]))
    c.obligation('dag:no-unexpected-exception', not unexpected, 'exploration', '%d' % len(unexpected))
    c.sample(dict(stream='dag', dags=stats['dags'], int_nodes=stats['intnodes'], int_nodes_inside_loops=stats['intnodes-in-loop'], meta_nodes=stats['metanodes']))
    c.obligation('dag:values-in-range', nviol['range'] == 0, 'exploration', '%d integer nodes (%d with a free loop index) evaluated at every iteration' % (stats['intnodes'], stats['intnodes-in-loop']))
    c.obligation('dag:shape-dtype-ndim', nviol['meta'] == 0, 'exploration', '%d nodes' % stats['metanodes'])
    c.obligation('dag:arguments', nviol['arguments'] == 0, 'exploration', '%d perturbations of un-announced arguments, %d announced-only evaluations' % (stats['perturbations'], stats['announced-only']))


# ---------------------------------------------------------------------------------------------------------------------
# (V) function.Array compositions on samples of small topologies

def stream_func(c):
    from nutils import mesh, function
    rng = c.rng
    nrounds = 12 if c.tier == 'quick' else 300
    kinds = {bool: 'b', int: 'i', float: 'f', complex: 'c'}
    nbad = collections.Counter(); nchecked = 0
    for iround in range(nrounds):
        dim = rng.choice([1, 2, 2])
        if dim == 1:
            topo, geom = mesh.line(rng.randint(1, 3), space='X')
            geom = geom[numpy.newaxis] if geom.ndim == 0 else geom
        else:
            topo, geom = mesh.rectilinear([rng.randint(1, 2), rng.randint(1, 3)])
        basis = topo.basis(rng.choice(['std', 'discont']), degree=rng.choice([1, 2]))
        argspecs = {}
        def newarg(shape, dtype):
            name = 'p%d' % len(argspecs); argspecs[name] = (tuple(shape), dtype)
            return function.Argument(name, tuple(shape), dtype=dtype)
        pool = [geom, basis, newarg(basis.shape, float), newarg((), float), newarg((2,), int), topo.f_index,
                function.Array.cast(numpy.array([1, -2, 3])), function.Array.cast(numpy.array([[1., 2.], [3., 4.]])), function.Array.cast(numpy.array([True, False]))]
        def pick(pred=lambda f: True, default=None):
            cands = [f for f in pool if pred(f)]
            return rng.choice(cands) if cands else default
        for _ in range(rng.randint(6, 14)):
            a = pick()
            k = rng.choice(['add', 'mul', 'neg', 'abs', 'sin', 'sum', 'stack', 'getitem', 'newaxis', 'transpose', 'cmp', 'where', 'dot', 'grad', 'minmax', 'intops', 'power', 'deriv', 'concat', 'sign', 'einsum', 'reshape', 'take'])
            try:
                if k in ('add', 'mul', 'minmax', 'cmp'):
                    b = pick(lambda f: f.ndim == 0 or f.shape == a.shape or a.ndim == 0, a)
                    if a.dtype == bool and k in ('add', 'mul'): a = a.astype(int) if hasattr(a, 'astype') else a
                    r = {'add': lambda: a + b, 'mul': lambda: a * b, 'minmax': lambda: rng.choice([numpy.minimum, numpy.maximum])(a, b),
                         'cmp': lambda: rng.choice([numpy.greater, numpy.less, numpy.equal])(a, b)}[k]()
                elif k == 'neg': r = -a if a.dtype != bool else ~a
                elif k == 'abs': r = abs(a) if a.dtype != bool else a
                elif k == 'sin': r = numpy.sin(a) if a.dtype in (float, int) else a
                elif k == 'sign': r = numpy.sign(a) if a.dtype in (float, int) else a
                elif k == 'sum': r = numpy.sum(a, axis=rng.randrange(a.ndim)) if a.ndim and a.dtype != bool else a
                elif k == 'stack':
                    b = pick(lambda f: f.shape == a.shape and f.dtype == a.dtype, a)
                    r = numpy.stack([a, b], axis=rng.randint(0, a.ndim))
                elif k == 'concat':
                    a = pick(lambda f: f.ndim >= 1, geom)
                    b = pick(lambda f: f.ndim == a.ndim and f.shape[1:] == a.shape[1:] and f.dtype == a.dtype, a)
                    r = numpy.concatenate([a, b], axis=0)
                elif k == 'getitem':
                    a = pick(lambda f: f.ndim >= 1 and f.shape[0] > 0, geom)
                    r = a[rng.randrange(a.shape[0])] if rng.random() < .5 else a[::rng.choice([1, 2, -1])] if rng.random() < .5 else a[..., :1]
                elif k == 'newaxis': r = a[numpy.newaxis] if rng.random() < .5 else a[..., numpy.newaxis]
                elif k == 'transpose': r = numpy.transpose(a) if a.ndim >= 2 else a
                elif k == 'where':
                    cnd = pick(lambda f: f.dtype == bool)
                    b = pick(lambda f: f.shape == cnd.shape and f.dtype != bool) if cnd is not None else None
                    r = numpy.choose(cnd.astype(int) if hasattr(cnd, 'astype') else cnd, [b, -b]) if b is not None else a
                elif k == 'dot':
                    a = pick(lambda f: f.ndim >= 1 and f.dtype != bool, geom)
                    b = pick(lambda f: f.ndim >= 1 and f.shape[0] == a.shape[-1] and f.dtype != bool)
                    r = a @ b if b is not None else numpy.sum(a * a, axis=-1)
                elif k == 'grad': r = function.grad(a, geom) if a.dtype == float else a
                elif k == 'intops':
                    a = pick(lambda f: f.dtype == int, topo.f_index)
                    r = rng.choice([lambda: a // 2, lambda: a % 3, lambda: a * a, lambda: numpy.abs(a) + 1, lambda: numpy.minimum(a, 1)])()
                elif k == 'power': r = a ** 2 if a.dtype in (float, int) else a
                elif k == 'deriv':
                    name = rng.choice(list(argspecs))
                    r = function.derivative(a, name) if a.dtype == float and argspecs[name][1] == float else a
                elif k == 'einsum': r = numpy.einsum('i,i->', a, a) if a.ndim == 1 and a.dtype != bool else numpy.einsum('ij->ji', a) if a.ndim == 2 else a
                elif k == 'reshape': r = numpy.reshape(a, (-1,)) if a.ndim >= 2 else numpy.reshape(a, a.shape + (1,))
                elif k == 'take':
                    a = pick(lambda f: f.ndim >= 1 and f.shape[0] > 0, geom)
                    r = numpy.take(a, numpy.array([0, a.shape[0]-1, 0]), axis=0)
                else: r = a
            except Exception as e:
                c.count('func-build-exc:' + type(e).__name__); continue
            if isinstance(r, function.Array) and r.ndim <= 4 and int(numpy.prod(r.shape or (1,))) <= 400:
                pool.append(r); c.count('func-op:' + k)
        samples = [topo.sample('gauss', rng.choice([1, 2])), topo.sample('uniform', 1), topo.boundary.sample('gauss', 1)]
        args_all = {n: (numpy.array([rng.randint(-3, 3) for _ in range(int(numpy.prod(s or (1,))))], dtype=int).reshape(s) if d == int else
                        numpy.array([rng.randint(-8, 8) / 4 for _ in range(int(numpy.prod(s or (1,))))], dtype=float).reshape(s)) for n, (s, d) in argspecs.items()}
        for f in pool:
            smp = rng.choice(samples)
            announced = dict(f.arguments)
            what = None
            # the tables themselves
            if not (isinstance(f.shape, tuple) and all(isinstance(n, int) for n in f.shape) and f.ndim == len(f.shape) and f.dtype in kinds):
                what = 'malformed tables shape=%r dtype=%r ndim=%r' % (f.shape, f.dtype, f.ndim)
            elif any(n not in argspecs or (tuple(s), d) != argspecs[n] for n, (s, d) in announced.items()):
                what = 'announced arguments %r do not match the arguments it was built from %r' % (announced, argspecs)
            else:
                try:
                    with numpy.errstate(all='ignore'), time_limit(30):
                        val = numpy.asarray(smp.eval(f, {n: args_all[n] for n in announced}))        # ONLY the announced arguments
                except Exception as e:
                    val = None
                    try:
                        with numpy.errstate(all='ignore'), time_limit(30):
                            smp.eval(f, args_all)
                        with_all = True
                    except Exception:
                        with_all = False
                    if with_all or isinstance(e, (KeyError, AssertionError)):
                        what = 'evaluation with exactly the announced arguments raises %s: %s' % (type(e).__name__, str(e)[:100])
                    else:
                        c.count('func-invalid-composition:' + type(e).__name__)   # e.g. numpy.greater on booleans: rejected when lowered
                if val is not None:
                  try:
                    nchecked += 1; c.traces += 1
                    c.case(('func', iround, f.shape, f.dtype.__name__, tuple(sorted(announced))), nontrivial=True)
                    if val.ndim != f.ndim + 1 or val.shape[1:] != f.shape: what = 'shape %r announced, %r delivered (after the point axis)' % (f.shape, val.shape[1:])
                    elif val.dtype.kind != kinds[f.dtype]: what = 'dtype %s announced, %s delivered' % (f.dtype.__name__, val.dtype)
                    else:
                        with numpy.errstate(all='ignore'), time_limit(30):
                            val2 = numpy.asarray(smp.eval(f, {n: (v if n in announced else v + 1) for n, v in args_all.items()}))
                        if val2.shape != val.shape or not ((val2 == val) | ((val2 != val2) & (val != val))).all():
                            what = 'value changes with arguments that are not announced'
                    if what is None and f.dtype != bool and rng.random() < .3:
                        with numpy.errstate(all='ignore'), time_limit(30):
                            integral = numpy.asarray(smp.integrate(f, {n: args_all[n] for n in announced}))
                        if integral.shape != f.shape: what = 'integral has shape %r, announced %r' % (integral.shape, f.shape)
                  except EvalTimeout:
                    c.count('func-eval-timeout')
            if what:
                nbad[what.split()[0]] += 1
                c.failing_input('function-metadata-wrong:' + type(f).__name__, 'function.Array %s: %s' % (type(f).__name__, what),
                                dict(stream='func', cls=type(f).__name__, what=what, shape=list(f.shape), dtype=f.dtype.__name__, announced={k: [list(s), d.__name__] for k, (s, d) in announced.items()}))
    c.count('func-arrays-checked', nchecked)
    c.obligation('func:shape-dtype-arguments', not nbad, 'exploration', '%d function arrays evaluated on samples' % nchecked)


# ---------------------------------------------------------------------------------------------------------------------
# (M) consumers of ranges on the operand-range grid: which rewrite fires (vs the Lean `simp*` functions) and whether it preserves values

def stream_consumers(c):
    ev = lib()[0]
    quick = c.tier == 'quick'
    cons = [('inRange', lambda x, y: ev.InRange(x, y), lambda x, y: x if 0 <= x < y else None),
            ('mod', lambda x, y: ev.Mod(x, y), lambda x, y: x % y if y else None),
            ('min', lambda x, y: ev.Minimum(x, y), min),
            ('max', lambda x, y: ev.Maximum(x, y), max),
            ('normDim', lambda x, y: ev.NormDim(x, y), normdim_spec)]
    cases = []
    rs = all_ranges(G)
    for name, mk, spec in cons:
        combos = list(itertools.product(rs, rs))
        if quick: combos = c.rng.sample(combos, 600)
        for r1, r2 in combos:
            x, y = S('x', r1), S('y', r2)
            try:
                node = mk(x, y)
                res = node._simplified()
            except AssertionError:
                c.count('consumer-ctor-raise:' + name); continue
            fired = '0' if res is x else '1' if res is y else 'none' if res is None else 'other'
            cases.append((name, r1, r2, node, res, fired, spec))
    ans = c.model(['expr|%s argS 0 %s argS 1 %s||' % (name, srng(r1), srng(r2)) for name, r1, r2, *_ in cases])
    ndis = collections.Counter(); nfired = collections.Counter(); nunsound = 0
    for (name, r1, r2, node, res, fired, spec), a in zip(cases, ans):
        f = dict(t.split('=', 1) for t in a.split(';'))
        c.count('consumer-grid:' + name)
        replay = dict(stream='consumers', consumer=name, ranges=[srng(r1), srng(r2)], real=fired, model=f['simp'])
        # oracle: a fired rewrite must preserve the value for all operand values inside the ranges
        bad = None
        if fired in ('0', '1'):
            nfired[name] += 1
            for vx in conc(r1):
                for vy in conc(r2):
                    want = spec(vx, vy)
                    if want is not None and want != (vx, vy)[int(fired)] or want is None and name in ('inRange', 'normDim'):
                        bad = (vx, vy, want); break      # a different value, or a run-time check that fails would be dropped
                if bad: break
        c.case(('consumer', name, r1, r2), nontrivial=fired != 'none')
        if bad:
            vx, vy, want = bad
            try:
                raw = flat_ints(evaluate(node, dict(x=vx, y=vy)))
            except Exception as e:
                raw = 'raises ' + type(e).__name__
            try:
                simp = flat_ints(evaluate(res, dict(x=vx, y=vy)))
            except Exception as e:
                simp = 'raises ' + type(e).__name__
            if raw != simp and not (isinstance(raw, str) and isinstance(simp, str)):
                nunsound += 1; ndis[name] += 1
                c.failing_input('consumer-unsound:' + type(node).__name__, '%s._simplified replaces the node by an operand although the value differs: operands %r give %r, the rewrite gives %r' % (
                    type(node).__name__, (vx, vy), raw, simp), dict(replay, values=[vx, vy], raw=raw, simplified=simp))
                continue
        if fired != 'other' and fired != f['simp']:
            ndis[name] += 1
            c.broken_no_input('corr:consumer:' + name, 'consumer %s fires differently: real %s, model %s for operand ranges %s, %s' % (name, fired, f['simp'], srng(r1), srng(r2)), replay)
    for name, *_ in cons:
        c.obligation('corr:consumer:' + name, ndis[name] == 0, 'correspondence', '%d range pairs, rewrite fired %d times' % (c.counters.get('consumer-grid:' + name, 0), nfired[name]))
    # ---- _isindex, Power.__post_init__, InsertAxis._inverse: thresholds on the lower endpoint
    nthr = 0; bad_thr = 0
    for r in rs:
        x = S('q', r)
        # _isindex
        got = bool(ev._isindex(x)); want = r[0] >= 0; nthr += 1
        if got != want:
            bad_thr += 1
            if got and not want:
                c.failing_input('consumer-unsound:_isindex', '_isindex accepts a scalar whose range %s contains negative values' % srng(r), dict(stream='consumers', consumer='_isindex', range=srng(r)))
            else:
                c.broken_no_input('corr:consumer:_isindex', '_isindex rejects a scalar with range %s' % srng(r), dict(range=srng(r)))
        # Power with an integer exponent
        try:
            p = ev.Power(S('b', (1, 5)), x); got = True
        except AssertionError:
            got = False
        nthr += 1
        if got != want:
            bad_thr += 1
            if got:
                v = max(r[0], -2) if r[0] != -inf else -1
                try:
                    evaluate(p, dict(b=2, q=int(v))); outcome = 'evaluates'
                except Exception as e:
                    outcome = 'raises ' + type(e).__name__
                c.failing_input('consumer-unsound:Power', 'Power accepts an integer exponent with range %s; exponent %d %s' % (srng(r), v, outcome), dict(stream='consumers', consumer='Power', range=srng(r)))
            else:
                c.broken_no_input('corr:consumer:Power', 'Power rejects an integer exponent with range %s' % srng(r), dict(range=srng(r)))
        # InsertAxis._inverse: a square matrix with an inserted axis of length >= 2 is singular
        if r[0] >= 0:
            L = S('L', r)
            M = ev.InsertAxis(ev.Argument('m', (L,), float), L)
            res = M._inverse(0, 1)
            got = res is not None; want = r[0] > 1; nthr += 1
            if got != want:
                bad_thr += 1
                if got and r[0] <= 1 <= r[1]:
                    raw = evaluate(ev.Inverse(M), dict(L=1, m=numpy.array([4.])))
                    simp = evaluate(res, dict(L=1, m=numpy.array([4.])))
                    c.failing_input('consumer-unsound:InsertAxis._inverse', 'InsertAxis._inverse declares a matrix singular whose size range %s contains 1: inverse %r, rewrite %r' % (srng(r), raw.tolist(), numpy.asarray(simp).tolist()),
                                    dict(stream='consumers', consumer='InsertAxis._inverse', range=srng(r)))
                else:
                    c.broken_no_input('corr:consumer:InsertAxis._inverse', 'InsertAxis._inverse fires=%s for a size range %s' % (got, srng(r)), dict(range=srng(r)))
    c.obligation('corr:consumer:thresholds', bad_thr == 0, 'correspondence', '%d threshold decisions (_isindex, Power, InsertAxis._inverse)' % nthr)
