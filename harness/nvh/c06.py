"""C06 — static array metadata is sound.

Ties (all against the *current* source selected by NUTILS_SRC):

(M) grid   every class with an `_intbounds_impl` is instantiated as a REAL node whose children are harness-defined
           stub arrays (`RArg`, an `evaluable.Argument` subclass carrying a prescribed range).  The operand ranges run
           over the exhaustive grid {-inf,-3..3,+inf}^2 (lower <= upper); the real `_intbounds` (or its AssertionError)
           is compared with the Lean transfer function (`Model/C06.lean`, about which `Props/C06.lean` proves
           soundness for all operand ranges and values).  Independently of the model, every grid case is checked by the
           specification oracle: concrete operand values inside the operand ranges are fed to an exact Python-int
           recomputation of the operation AND to the real compiled node; a value outside the announced range is a
           failing input (`intbounds-unsound:<Class>`).
(M2) expr  random expressions of the modelled integer expression language are built both as real evaluable DAGs and
           as Lean `Expr`s; inferred range, announced length, announced arguments and the evaluated values of the model
           are compared with the real ones (ties the inductive theorem `intbounds_sound` to the code).
(V) dag    random well-typed real DAGs (loops, Take from tables, RavelIndex, Range, _SizesToOffsets, Inflate, Einsum, ...):
           every integer-valued sub-node is evaluated at every loop iteration and must lie inside the real `_intbounds`;
           announced shape / dtype / ndim / arguments are compared with the evaluated ndarray; consumer rewrites
           (`simplified`, `optimized_for_numpy`) must preserve the value.
(V) func   `function.Array` compositions on samples of small topologies: announced shape / dtype / arguments vs result.
"""
import itertools, collections, functools, math
import numpy
from .common import Infra

inf = float('inf')
G = [-3, -2, -1, 0, 1, 2, 3]


def all_ranges(g=G):
    return [(l, h) for l in [-inf] + list(g) for h in list(g) + [inf] if l <= h]


def conc(r, ext=(-7, -5, -4, 4, 5, 7), g=G):
    """concrete integer values inside range r: the grid points plus a few beyond the grid on unbounded sides"""
    l, h = r
    return [v for v in list(g) + list(ext) if l <= v <= h]


def snum(x):
    return '-inf' if x == -inf else 'inf' if x == inf else 'nan' if x != x else str(int(x))


def srng(r):
    return snum(r[0]) + ' ' + snum(r[1])


def canon(b):
    """canonical text of a real `_intbounds` outcome"""
    if isinstance(b, str):
        return b
    lo, hi = b
    for x in (lo, hi):
        if not (isinstance(x, int) and not isinstance(x, bool)) and x not in (inf, -inf):
            return 'badtype %r %r' % (lo, hi)
    return 'ok ' + srng(b)


# ---------------------------------------------------------------------------------------------------------------------
# stubs (defined lazily: nutils is imported from NUTILS_SRC)

@functools.lru_cache(None)
def lib():
    from nutils import evaluable as ev, types

    class RArg(ev.Argument):
        'argument with a prescribed integer range'
        lo: object = -inf
        hi: object = inf

        def _intbounds_impl(self):
            return self.lo, self.hi

    return ev, types, RArg


def S(name, r, shape=(), dtype=int):
    ev, types, RArg = lib()
    return RArg(name, tuple(shape), dtype, r[0], r[1])


def real_bounds(node):
    try:
        return node._intbounds
    except AssertionError:
        return 'raise'


def evaluate(node, args, simplify=False):
    ev = lib()[0]
    return ev.eval_once(node, arguments={k: numpy.asarray(v) for k, v in args.items()}, _simplify=simplify, _optimize=simplify)


def fms(*a):
    return lib()[1].frozenmultiset(a)




# ---------------------------------------------------------------------------------------------------------------------
# (M) grid operations
#
# An `Op` describes how one class with an `_intbounds_impl` is instantiated on stubs:
#   operands : [(name, kind)] — the ranged quantities; kind 'any' (all grid ranges) or 'idx' (ranges with lower >= 0)
#   build(R) : R maps operand name -> range; returns (node whose `_intbounds` is read, node that is evaluated)
#   request(R): the Lean request for the transfer function
#   concrete(V): V maps operand name -> concrete int inside its range; returns (argument dict for the real evaluation,
#               expected flat list of result values by exact Python-int recomputation, or None if the operation is
#               undefined / raises for these operands)

class Op:
    def __init__(self, name, operands, build, request, concrete, cls=None, small=False, grid=None):
        self.name, self.operands, self.build, self.request, self.concrete = name, operands, build, request, concrete
        self.grid = grid  # custom list of grid integers (default G)
        self.cls = cls or name.split(':')[0]
        self.small = small  # use the reduced grid {-inf,-2..2,inf} even in the thorough tier (3+ operands)


def sgn(x): return (x > 0) - (x < 0)


def normdim_spec(length, index):
    if length < 0: return None
    n = index + length if index < 0 else index
    return None if n < 0 or n >= length else n


def ops_table():
    ev, types, RArg = lib()
    from nutils import transformseq
    c = ev.constant
    T = []
    tf = lambda cls, names, *extra: (lambda R: '|'.join(['tf', cls] + [srng(R[n]) for n in names] + list(extra)))
    same = lambda n: (lambda b: (b, b))(n)

    def pointwise(name, cls, names, mk, fn, lean=None, extra=(), kinds=None, small=False):
        kinds = kinds or ['any'] * len(names)
        def build(R):
            n = mk(*[S(k, R[k]) for k in names]); return n, n
        def concrete(V):
            r = fn(*[V[k] for k in names])
            return {k: V[k] for k in names}, (None if r is None else [r])
        T.append(Op(name, list(zip(names, kinds)), build, tf(lean or cls, names, *extra), concrete, cls=cls, small=small))

    pointwise('Negative', 'Negative', ['x'], lambda x: ev.Negative(x), lambda x: -x)
    pointwise('Absolute', 'Absolute', ['x'], lambda x: ev.Absolute(x), lambda x: abs(x))
    pointwise('Sign', 'Sign', ['x'], lambda x: ev.Sign(x), sgn)
    pointwise('Multiply', 'Multiply', ['x', 'y'], lambda x, y: ev.Multiply(fms(x, y)), lambda x, y: x * y)
    pointwise('Add', 'Add', ['x', 'y'], lambda x, y: ev.Add(fms(x, y)), lambda x, y: x + y)
    pointwise('Add:nested', 'Add', ['x', 'y', 'z'], lambda x, y, z: ev.Add(fms(ev.Add(fms(x, y)), z)), lambda x, y, z: x + y + z, small=True)
    pointwise('FloorDivide', 'FloorDivide', ['x', 'y'], lambda x, y: ev.FloorDivide(x, y), lambda x, y: x // y if y else None)
    pointwise('Mod', 'Mod', ['x', 'y'], lambda x, y: ev.Mod(x, y), lambda x, y: x % y if y else None, extra=('n',))
    pointwise('Minimum', 'Minimum', ['x', 'y'], lambda x, y: ev.Minimum(x, y), min)
    pointwise('Maximum', 'Maximum', ['x', 'y'], lambda x, y: ev.Maximum(x, y), max)
    pointwise('InRange', 'InRange', ['x', 'y'], lambda x, y: ev.InRange(x, y), lambda x, y: x if 0 <= x < y else None)
    pointwise('NormDim', 'NormDim', ['x', 'y'], lambda x, y: ev.NormDim(x, y), normdim_spec)
    pointwise('AssertEqual', 'AssertEqual', ['x', 'y'], lambda x, y: ev.AssertEqual(x, y), lambda x, y: x if x == y else None)
    # documented domain of RavelIndex: ia is an index (>= 0) into an axis of length na
    pointwise('RavelIndex', 'RavelIndex', ['ia', 'ib', 'nb'], lambda ia, ib, nb: ev.RavelIndex(ia, ib, c(5), nb),
              lambda ia, ib, nb: ia * nb + ib if ia >= 0 else None, kinds=['any', 'any', 'idx'], small=True)
    for nv in range(4):
        import nutils_poly as poly
        def deg(n, nv=nv):
            try: return poly.degree(nv, n)
            except Exception: return None
        def nco(d, nv=nv):
            try: return poly.ncoeffs(nv, d)
            except Exception: return None
        pointwise('PolyDegree:%d' % nv, 'PolyDegree', ['x'], lambda x, nv=nv: ev.PolyDegree(x, nv), deg)
        T[-1].request = (lambda R, nv=nv: 'tf|PolyDegree|%d|%s' % (nv, srng(R['x'])))
        T[-1].grid = list(range(-1, 12))
        pointwise('PolyNCoeffs:%d' % nv, 'PolyNCoeffs', ['x'], lambda x, nv=nv: ev.PolyNCoeffs(nv, x), nco)
        T[-1].request = (lambda R, nv=nv: 'tf|PolyNCoeffs|%d|%s' % (nv, srng(R['x'])))
        T[-1].grid = list(range(-2, 5))
    for nt, ns, off in [(1, 1, 0), (2, 2, 0), (3, 2, 1), (4, 3, 1), (3, 3, 0)]:
        tgt = transformseq.IndexTransforms(1, nt, 0); srcseq = transformseq.IndexTransforms(1, ns, off)
        pointwise('TransformIndex:%d,%d,%d' % (nt, ns, off), 'TransformIndex', ['x'], lambda x, t=tgt, s=srcseq: ev.TransformIndex(t, s, x),
                  lambda x, nt=nt, ns=ns, off=off: x + off if 0 <= x < ns and x + off < nt else None)
        T[-1].request = (lambda R, nt=nt: 'tf|TransformIndex|%d' % nt)

    # ---- identities on a stub of fixed shape filled with one value
    def ident(name, shape, mk, nout):
        def build(R):
            n = mk(S('x', R['x'], tuple(c(k) for k in shape))); return n, n
        def concrete(V):
            return {'x': numpy.full(shape, V['x'])}, [V['x']] * nout
        T.append(Op(name, [('x', 'any')], build, tf('Identity', ['x']), concrete))
    ident('InsertAxis', (), lambda x: ev.InsertAxis(x, c(2)), 2)
    ident('Transpose', (2, 2), lambda v: ev.Transpose(v, (1, 0)), 4)
    ident('TakeDiag', (2, 2), lambda v: ev.TakeDiag(v), 2)
    ident('Ravel', (2, 2), lambda v: ev.Ravel(v), 4)
    ident('Unravel', (4,), lambda v: ev.Unravel(v, c(2), c(2)), 4)
    ident('Take', (4,), lambda v: ev.Take(v, c(numpy.array([3, 0]))), 2)
    ident('_TakeSlice', (4,), lambda v: ev._TakeSlice(v, c(2), c(1)), 2)
    ident('_Get', (4,), lambda v: ev._Get(v, c(1)), 1)
    ident('LoopConcatenate', (), lambda x: ev.loop_concatenate(ev.InsertAxis(x, c(1)), ev.loop_index('gi', c(3))), 3)

    # ---- length dependent classes; operand 'n' is the length stub
    def lengthop(name, cls, lean, mk, fn, mkargs=lambda V: {}, evalnode=None):
        def build(R):
            n = S('n', R['n']); node = mk(n); return node, (evalnode(n) if evalnode else node)
        def concrete(V):
            a = {'n': V['n']}; a.update(mkargs(V)); return a, fn(V['n'])
        T.append(Op(name, [('n', 'idx')], build, tf(lean, ['n']), concrete, cls=cls))
    lengthop('Range', 'Range', 'Range', lambda n: ev.Range(n), lambda n: list(range(n)))
    lengthop('_LoopIndex', '_LoopIndex', 'IndexBelow', lambda n: ev.loop_index('gj', n), lambda n: list(range(n)),
             evalnode=lambda n: ev.loop_concatenate(ev.InsertAxis(ev.loop_index('gj', n), c(1)), ev.loop_index('gj', n)))
    lengthop('Find', 'Find', 'IndexBelow', lambda n: ev.Find(S('w', (-inf, inf), (n,), bool)), lambda n: list(range(n)), lambda V: {'w': numpy.ones(V['n'], bool)})
    lengthop('ArgSort', 'ArgSort', 'IndexBelow', lambda n: ev.ArgSort(S('v', (-inf, inf), (n,))), lambda n: list(range(n))[::-1], lambda V: {'v': -numpy.arange(V['n'])})
    lengthop('SearchSorted', 'SearchSorted', 'SearchSorted', lambda n: ev.SearchSorted(c(numpy.array([-100, 100])), S('v', (-inf, inf), (n,)), None, 'left'),
             lambda n: [0, n], lambda V: {'v': numpy.arange(V['n'])})
    lengthop('Zeros', 'Zeros', 'Zeros', lambda n: ev.Zeros((n,), int), lambda n: [0] * n)
    T[-1].request = lambda R: 'tf|Zeros'

    def veclen(name, cls, lean, mk, fn, extra=(), kinds=('any', 'idx')):
        def build(R):
            n = S('n', R['n']); v = S('v', R['f'], (n,)); node = mk(v, n); return node, node
        def concrete(V):
            return {'n': V['n'], 'v': numpy.full(V['n'], V['f'])}, fn(V['f'], V['n'])
        T.append(Op(name, [('f', kinds[0]), ('n', kinds[1])], build, tf(lean, ['f', 'n'], *extra), concrete, cls=cls))
    veclen('Sum', 'Sum', 'Sum', lambda v, n: ev.Sum(v), lambda x, n: [x * n])
    veclen('_SizesToOffsets', '_SizesToOffsets', 'SizesToOffsets', lambda v, n: ev._SizesToOffsets(v), lambda x, n: [x * k for k in range(n + 1)], kinds=('idx', 'idx'))
    # Einsum: 'tf|Einsum|<number of summed lengths>|<length ranges...>|<operand ranges...>'
    def einsum(name, mk, req, fn, operands):
        def build(R):
            node = mk(R); return node, node
        T.append(Op(name, operands, build, req, fn, cls='Einsum', small=len(operands) > 2))
    einsum('Einsum:sum1', lambda R: (lambda n: ev.Einsum((S('v', R['f'], (n,)),), ((0,),), ()))(S('n', R['n'])),
           lambda R: 'tf|Einsum|1|%s|%s' % (srng(R['n']), srng(R['f'])),
           lambda V: ({'n': V['n'], 'v': numpy.full(V['n'], V['f'])}, [V['f'] * V['n']]), [('f', 'any'), ('n', 'idx')])
    einsum('Einsum:dot', lambda R: (lambda n: ev.Einsum((S('v', R['f'], (n,)), S('w', R['g'], (n,))), ((0,), (0,)), ()))(S('n', R['n'])),
           lambda R: 'tf|Einsum|1|%s|%s|%s' % (srng(R['n']), srng(R['f']), srng(R['g'])),
           lambda V: ({'n': V['n'], 'v': numpy.full(V['n'], V['f']), 'w': numpy.full(V['n'], V['g'])}, [V['f'] * V['g'] * V['n']]), [('f', 'any'), ('g', 'any'), ('n', 'idx')])
    einsum('Einsum:sum2', lambda R: (lambda n, m: ev.Einsum((S('v', R['f'], (n, m)),), ((0, 1),), ()))(S('n', R['n']), S('m', R['m'])),
           lambda R: 'tf|Einsum|2|%s|%s|%s' % (srng(R['n']), srng(R['m']), srng(R['f'])),
           lambda V: ({'n': V['n'], 'm': V['m'], 'v': numpy.full((V['n'], V['m']), V['f'])}, [V['f'] * V['n'] * V['m']]), [('f', 'any'), ('n', 'idx'), ('m', 'idx')])
    einsum('Einsum:outer', lambda R: ev.Einsum((S('v', R['f'], (c(2),)), S('w', R['g'], (c(3),))), ((0,), (1,)), (0, 1)),
           lambda R: 'tf|Einsum|0|%s|%s' % (srng(R['f']), srng(R['g'])),
           lambda V: ({'v': numpy.full(2, V['f']), 'w': numpy.full(3, V['g'])}, [V['f'] * V['g']] * 6), [('f', 'any'), ('g', 'any')])
    einsum('Einsum:rowsum', lambda R: (lambda n: ev.Einsum((S('v', R['f'], (c(2), n)),), ((0, 1),), (0,)))(S('n', R['n'])),
           lambda R: 'tf|Einsum|1|%s|%s' % (srng(R['n']), srng(R['f'])),
           lambda V: ({'n': V['n'], 'v': numpy.full((2, V['n']), V['f'])}, [V['f'] * V['n']] * 2), [('f', 'any'), ('n', 'idx')])
    # Inflate: the three ways the multiplicity is determined
    def inflate(name, mk, req, fn, operands):
        def build(R):
            node = mk(R); return node, node
        T.append(Op(name, operands, build, req, fn, cls='Inflate', small=len(operands) > 2))
    inflate('Inflate:scalar', lambda R: ev.Inflate(S('x', R['f']), c(1), c(3)), lambda R: 'tf|Inflate|%s|scalar' % srng(R['f']),
            lambda V: ({'x': V['f']}, [0, V['f'], 0]), [('f', 'any')])
    for dm in ([0, 1, 2], [0, 0, 1], [2, 2, 2], [1], []):
        mc = max(collections.Counter(dm).values(), default=0)
        def fn(V, dm=dm):
            out = [0] * 3
            for d in dm: out[d] += V['f']
            return {'x': numpy.full(len(dm), V['f'])}, out
        inflate('Inflate:const%s' % ''.join(map(str, dm)), lambda R, dm=dm: ev.Inflate(S('x', R['f'], (c(len(dm)),)), c(numpy.array(dm, dtype=int)), c(3)),
                lambda R, mc=mc: 'tf|Inflate|%s|const %d' % (srng(R['f']), mc), fn, [('f', 'any')])
    inflate('Inflate:shape1', lambda R: (lambda n: ev.Inflate(S('x', R['f'], (n,)), S('d', (0, 0), (n,)), c(2)))(S('n', R['n'])),
            lambda R: 'tf|Inflate|%s|shape %s' % (srng(R['f']), snum(R['n'][1])),
            lambda V: ({'n': V['n'], 'x': numpy.full(V['n'], V['f']), 'd': numpy.zeros(V['n'], int)}, [V['f'] * V['n'], 0]), [('f', 'any'), ('n', 'idx')])
    inflate('Inflate:shape2', lambda R: (lambda n, m: ev.Inflate(S('x', R['f'], (n, m)), S('d', (0, 0), (n, m)), c(2)))(S('n', R['n']), S('m', R['m'])),
            lambda R: 'tf|Inflate|%s|shape %s %s' % (srng(R['f']), snum(R['n'][1]), snum(R['m'][1])),
            lambda V: ({'n': V['n'], 'm': V['m'], 'x': numpy.full((V['n'], V['m']), V['f']), 'd': numpy.zeros((V['n'], V['m']), int)}, [V['f'] * V['n'] * V['m'], 0]),
            [('f', 'any'), ('n', 'idx'), ('m', 'idx')])
    T.append(Op('BoolToInt', [('n', 'idx')], lambda R: (lambda node: (node, node))(ev.BoolToInt(S('w', (-inf, inf), (S('n', R['n']),), bool))),
                lambda R: 'tf|BoolToInt', lambda V: ({'n': V['n'], 'w': numpy.arange(V['n']) % 2 == 0}, [1 - k % 2 for k in range(V['n'])])))
    return T


def flat_ints(a):
    return [int(x) for x in numpy.asarray(a).ravel()]


def inside(v, b):
    return b[0] <= v <= b[1]


def stream_grid(c, T):
    """(M) exhaustive operand-range grid per transfer function + specification oracle on every case"""
    quick = c.tier == 'quick'
    SMALL = [-2, -1, 0, 1, 2]
    cases = []   # (op, R, real outcome, bnode, enode)
    for op in T:
        g = op.grid or (SMALL if (op.small or (quick and len(op.operands) > 2)) else G)
        per = []
        for name, kind in op.operands:
            rs = all_ranges(g)
            if kind == 'idx': rs = [r for r in rs if r[0] >= 0]
            per.append(rs)
        combos = list(itertools.product(*per))
        limit = 2500 if quick else 40000
        if len(combos) > limit:
            combos = c.rng.sample(combos, limit)
        for combo in combos:
            R = dict(zip([n for n, _ in op.operands], combo))
            try:
                bnode, enode = op.build(R)
            except AssertionError:
                c.count('grid-ctor-raise:' + op.cls); continue
            cases.append((op, R, canon(real_bounds(bnode)), enode, g))
    ans = c.model([op.request(R) for op, R, *_ in cases])
    ndis = collections.Counter(); nunsound = collections.Counter(); ncases = collections.Counter(); nvals = 0; nreal = 0
    realeval_budget = collections.Counter()
    for (op, R, real, enode, g), model in zip(cases, ans):
        ncases[op.cls] += 1
        c.count('grid:' + op.cls)
        c.count('grid-outcome:' + ('raise' if real == 'raise' else 'range'))
        if model == 'bad-request':
            raise Infra('lean driver rejected %r' % op.request(R))
        names = [n for n, _ in op.operands]
        # ---- specification oracle: concrete operand values inside the operand ranges
        bad = None
        rb = None
        if real.startswith('ok'):
            lo, hi = real.split()[1:]
            rb = (float(lo) if 'inf' in lo else int(lo), float(hi) if 'inf' in hi else int(hi))
        ext = (-7, -5, -4, 4, 5, 7) if g is G or g is SMALL or g == G else ()
        assigns = list(itertools.islice(itertools.product(*[conc(R[n], ext, g) for n in names]), 400))
        good = []
        for vals in assigns:
            V = dict(zip(names, vals))
            args, expected = op.concrete(V)
            if expected is None: continue
            good.append((V, args, expected)); nvals += 1
            if rb is not None and bad is None:
                out = [v for v in expected if not inside(v, rb)]
                if out: bad = (V, args, expected, out[0])
        c.case((op.name, tuple(sorted(R.items()))), nontrivial=bool(good))
        # ---- real evaluation (confirms the recomputation, and is what a failing input is made of)
        do_real = bad is not None or (good and realeval_budget[op.name] < (12 if quick else 150) and c.rng.random() < (.05 if quick else .2))
        if do_real:
            realeval_budget[op.name] += 1
            todo = [bad[:3]] if bad else c.rng.sample(good, min(len(good), 3))
            for V, args, expected in todo:
                try:
                    got = flat_ints(evaluate(enode, args))
                except Exception as e:
                    got = 'exception %s: %s' % (type(e).__name__, str(e)[:80])
                nreal += 1; c.traces += 1
                if got != expected:
                    ndis['spec:' + op.cls] += 1
                    c.broken_no_input('corr:spec:' + op.cls, 'exact recomputation of %s disagrees with the evaluated node' % op.name,
                                      dict(op=op.name, ranges={k: srng(v) for k, v in R.items()}, values=V, expected=expected, got=got))
                elif rb is not None:
                    out = [v for v in got if not inside(v, rb)]
                    if out:
                        nunsound[op.cls] += 1
                        c.failing_input('intbounds-unsound:' + op.cls,
                                        '%s announces the range %s for operand ranges %s but evaluates to %r for operand values %r' % (op.name, real, {k: srng(v) for k, v in R.items()}, out[0], V),
                                        dict(op=op.name, ranges={k: srng(v) for k, v in R.items()}, values=V, announced=real, evaluated=got, model=model))
        # ---- correspondence model <-> code
        if model != real and not (bad is not None):
            ndis[op.cls] += 1
            c.sample(dict(stream='grid-disagreement', op=op.name, ranges={k: srng(v) for k, v in R.items()}, real=real, model=model), limit=12)
            c.broken_no_input('corr:tf:' + op.cls, 'transfer function of %s: real %r, model %r for operand ranges %r; no reachable value outside the real range found' % (
                op.name, real, model, {k: srng(v) for k, v in R.items()}), dict(op=op.name, ranges={k: srng(v) for k, v in R.items()}, real=real, model=model))
        elif model != real:
            ndis[op.cls] += 1
    c.sample(dict(stream='grid', example=dict(op=cases[0][0].name, ranges={k: srng(v) for k, v in cases[0][1].items()}, real=cases[0][2], model=ans[0])))
    for cls in sorted(ncases):
        c.obligation('corr:tf:' + cls, ndis[cls] == 0 and ndis['spec:' + cls] == 0 and nunsound[cls] == 0, 'correspondence',
                     '%d grid cases, %d disagreements, %d unsound' % (ncases[cls], ndis[cls], nunsound[cls]))
    c.count('grid-concrete-values', nvals); c.count('grid-real-evaluations', nreal)


def run(c):
    c.rule = ('grid: every class with an _intbounds_impl x exhaustive operand ranges over {-inf,-3..3,inf} (3+ operands: {-inf,-2..2,inf}, sampled); '
              'a grid case is non-trivial when at least one concrete operand assignment inside the ranges has a defined result; distinct by (class, ranges)')
    c.assumptions += ['64-bit overflow of numpy integers is not modelled (Python ints are unbounded)',
                      'RavelIndex is used with ia >= 0 only (documented domain: ia indexes an axis of length na; all construction sites pass dofmaps, Range or x % n)']
    broken = []
    T = ops_table()
    stream_grid(c, T)
    for b in broken:
        c.broken_no_input('proof', b, dict(detail=b))
