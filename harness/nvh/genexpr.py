"""Generator of random well-typed evaluable DAGs (raw node constructors: nothing is simplified on
construction) together with exactly representable argument values.

gen.array(dtype, shape, depth) returns an evaluable.Array of the requested static type.  Sharing: already
generated sub-expressions of a matching type are reused with probability `share`.  Every constructor used is
counted in gen.hits.  Values are small dyadic rationals / small integers so float evaluation is exact.
"""
import numpy, itertools
from nutils import evaluable as ev, types


class Gen:
    def __init__(self, rng, maxlen=3, share=.25, allow=None, loops=True, real_args=True):
        self.rng = rng
        self.maxlen = maxlen
        self.share = share
        self.pool = {}       # (dtype, shape, loopctx) -> [arrays]
        self.args = {}       # name -> ndarray
        self.hits = {}
        self.nloops = 0
        self.loopstack = []  # [(index_node, length)]
        self.allow = allow
        self.loops = loops
        self.counter = itertools.count()

    # ------------------------------------------------------------- helpers
    def hit(self, k):
        self.hits[k] = self.hits.get(k, 0) + 1

    def const_shape(self, shape):
        return tuple(ev.constant(int(n)) for n in shape)

    def value(self, dtype, shape, lo=None, hi=None):
        r = numpy.random.default_rng(self.rng.getrandbits(32))
        if dtype == bool:
            return r.integers(0, 2, shape).astype(bool)
        if dtype == int:
            return r.integers(-3 if lo is None else lo, (3 if hi is None else hi) + 1, shape)
        return r.integers(-8, 9, shape) / self.rng.choice([1., 2., 4.])

    def argument(self, dtype, shape, lo=None, hi=None):
        name = 'a%d' % next(self.counter)
        self.args[name] = self.value(dtype, shape, lo, hi)
        self.hit('Argument')
        return ev.Argument(name, self.const_shape(shape), dtype)

    def constant(self, dtype, shape, lo=None, hi=None):
        self.hit('Constant')
        return ev.Constant(types.arraydata(self.value(dtype, shape, lo, hi)))

    def index(self, shape, n, depth):
        """int array of `shape` with values in [0, n) (n >= 1), known to nutils via its _intbounds"""
        c = self.rng.random()
        if c < .35 or n == 0:
            return self.constant(int, shape, 0, max(n-1, 0))
        if c < .55:
            return ev.InRange(self.argument(int, shape, 0, n-1), ev.constant(n))
        if c < .65 and self.loopstack:
            idx, length = self.rng.choice(self.loopstack)
            if length <= n:
                self.hit('_LoopIndex')
                e = idx
                for k in shape:
                    e = ev.InsertAxis(e, ev.constant(k))
                return e
        if c < .8 and len(shape) == 1 and shape[0] <= n:
            self.hit('Range')
            return ev.Range(ev.constant(shape[0]))
        if c < .9:
            self.hit('Mod')
            return ev.Mod(self.array(int, shape, depth-1), ev.Constant(types.arraydata(numpy.full(shape, n))))
        self.hit('NormDim')
        return ev.NormDim(ev.Constant(types.arraydata(numpy.full(shape, n))), self.argument(int, shape, -n, n-1))

    def leaf(self, dtype, shape):
        c = self.rng.random()
        if c < .5:
            return self.argument(dtype, shape)
        if c < .85:
            return self.constant(dtype, shape)
        if c < .92:
            self.hit('Zeros')
            return ev.Zeros(self.const_shape(shape), dtype)
        if dtype == int and shape == () and self.loopstack:
            self.hit('_LoopIndex')
            return self.rng.choice(self.loopstack)[0]
        if dtype == int and len(shape) == 1:
            self.hit('Range')
            return ev.Range(ev.constant(shape[0]))
        return self.argument(dtype, shape)

    def newlen(self):
        return self.rng.choice([0, 1, 1, 2, 2, 3, self.maxlen])

    # ------------------------------------------------------------- main
    def array(self, dtype, shape, depth):
        shape = tuple(int(n) for n in shape)
        key = (dtype, shape, tuple(id(i) for i, _ in self.loopstack))
        pool = self.pool.setdefault(key, [])
        if pool and self.rng.random() < self.share:
            self.hit('(shared)')
            return self.rng.choice(pool)
        if depth <= 0:
            e = self.leaf(dtype, shape)
        else:
            ops = self.ops_for(dtype, shape)
            for _ in range(4):
                op = self.rng.choice(ops)
                try:
                    e = getattr(self, 'mk_' + op)(dtype, shape, depth)
                except (AssertionError, ValueError, TypeError) as ex:
                    self.hit('(rejected:%s)' % op)
                    e = None
                if e is not None:
                    self.hit(op)
                    break
            else:
                e = self.leaf(dtype, shape)
        assert e.dtype == dtype, (e, dtype)
        pool.append(e)
        return e

    def ops_for(self, dtype, shape):
        ops = ['leaf']
        nd = len(shape)
        if nd >= 1:
            ops += ['InsertAxis', 'Take', 'Inflate', 'TakeDiag', 'Ravel', 'Unravel0']
        if nd >= 2:
            ops += ['Transpose', 'Transpose', 'Unravel']
            if shape[-1] == shape[-2]:
                ops += ['Diagonalize', 'Diagonalize']
        if dtype != bool:
            ops += ['Add', 'Add', 'Multiply', 'Multiply', 'Sum', 'Product', 'Negative', 'Absolute', 'Sign', 'Minimum', 'Maximum', 'Choose', 'PowerInt']
            if self.loops and len(self.loopstack) < 2:
                ops += ['LoopSum', 'LoopSum']
                if nd >= 1:
                    ops += ['LoopConcatenate']
        if dtype == int:
            ops += ['BoolToInt', 'FloorDivide', 'Mod']
        if dtype == float:
            ops += ['IntToFloat', 'Trig', 'Sqrt', 'Reciprocal', 'Polyval', 'PolyGradVal', 'PolyMulVal', 'Legendre']
            if nd >= 2 and shape[-1] == shape[-2] and 1 <= shape[-1] <= 3:
                ops += ['Inverse']
            ops += ['Determinant']
        if dtype == bool:
            ops += ['Equal', 'Less', 'Greater', 'LogicalNot', 'leaf', 'Add', 'Multiply', 'Sum', 'Product']
            if self.loops and len(self.loopstack) < 2:
                ops += ['LoopSum']
        if self.allow is not None:
            ops = [o for o in ops if o in self.allow or o == 'leaf']
        return ops

    def mk_leaf(self, dtype, shape, depth):
        return self.leaf(dtype, shape)

    def mk_InsertAxis(self, dtype, shape, depth):
        return ev.InsertAxis(self.array(dtype, shape[:-1], depth-1), ev.constant(shape[-1]))

    def mk_Transpose(self, dtype, shape, depth):
        axes = list(range(len(shape)))
        while axes == list(range(len(shape))):
            self.rng.shuffle(axes)
        src = [None] * len(shape)
        for i, a in enumerate(axes):
            src[a] = shape[i]
        return ev.Transpose(self.array(dtype, tuple(src), depth-1), tuple(axes))

    def mk_Add(self, dtype, shape, depth):
        return ev.Add(types.frozenmultiset([self.array(dtype, shape, depth-1), self.array(dtype, shape, depth-1)]))

    def mk_Multiply(self, dtype, shape, depth):
        return ev.Multiply(types.frozenmultiset([self.array(dtype, shape, depth-1), self.array(dtype, shape, depth-1)]))

    def mk_Sum(self, dtype, shape, depth):
        return ev.Sum(self.array(dtype, shape + (self.newlen(),), depth-1))

    def mk_Product(self, dtype, shape, depth):
        return ev.Product(self.array(dtype, shape + (self.rng.choice([0, 1, 2, 2, 3]),), depth-1))

    def mk_TakeDiag(self, dtype, shape, depth):
        return ev.TakeDiag(self.array(dtype, shape + (shape[-1],), depth-1))

    def mk_Diagonalize(self, dtype, shape, depth):
        return ev.Diagonalize(self.array(dtype, shape[:-1], depth-1))

    def mk_Take(self, dtype, shape, depth):
        k = self.rng.randint(0, len(shape))   # number of trailing axes produced by the index
        ishape = shape[len(shape)-k:]
        n = self.rng.choice([1, 2, 3])
        func = self.array(dtype, shape[:len(shape)-k] + (n,), depth-1)
        return ev.Take(func, self.index(ishape, n, depth-1))

    def mk_Inflate(self, dtype, shape, depth):
        k = self.rng.choice([0, 1, 1, 2])
        dshape = tuple(self.rng.choice([1, 2, 2, 3]) for _ in range(k))
        n = shape[-1]
        if n == 0 and any(dshape) or n == 0 and not dshape:
            dshape = (0,)
        func = self.array(dtype, shape[:-1] + dshape, depth-1)
        return ev.Inflate(func, self.index(dshape, n, depth-1), ev.constant(n))

    def mk_Ravel(self, dtype, shape, depth):
        n = shape[-1]
        divs = [(a, n // a) for a in range(1, n+1) if n % a == 0] if n else [(0, self.rng.choice([0, 1, 2])), (self.rng.choice([1, 2]), 0)]
        a, b = self.rng.choice(divs)
        return ev.Ravel(self.array(dtype, shape[:-1] + (a, b), depth-1))

    def mk_Unravel(self, dtype, shape, depth):
        a, b = shape[-2:]
        return ev.Unravel(self.array(dtype, shape[:-2] + (a*b,), depth-1), ev.constant(a), ev.constant(b))

    def mk_Unravel0(self, dtype, shape, depth):
        # unravel then take the diagonal/sum to come back: Sum(Unravel(x, a, b)) has shape pre+(a,)
        a = shape[-1]; b = self.rng.choice([1, 2, 3])
        if dtype == bool:
            return None
        return ev.Sum(ev.Unravel(self.array(dtype, shape[:-1] + (a*b,), depth-1), ev.constant(a), ev.constant(b)))

    def mk_Negative(self, dtype, shape, depth):
        return ev.Negative(self.array(dtype, shape, depth-1))

    def mk_Absolute(self, dtype, shape, depth):
        return ev.Absolute(self.array(dtype, shape, depth-1))

    def mk_Sign(self, dtype, shape, depth):
        return ev.Sign(self.array(dtype, shape, depth-1))

    def mk_Minimum(self, dtype, shape, depth):
        return ev.Minimum(self.array(dtype, shape, depth-1), self.array(dtype, shape, depth-1))

    def mk_Maximum(self, dtype, shape, depth):
        return ev.Maximum(self.array(dtype, shape, depth-1), self.array(dtype, shape, depth-1))

    def mk_Choose(self, dtype, shape, depth):
        m = self.rng.choice([1, 2, 3])
        return ev.Choose(self.index(shape, m, depth-1), self.array(dtype, shape + (m,), depth-1))

    def mk_PowerInt(self, dtype, shape, depth):
        p = self.rng.choice([0, 1, 2, 3, 4])
        func = self.array(dtype, shape, depth-1)
        return ev.Power(func, ev.Constant(types.arraydata(numpy.full(shape, p, dtype=dtype))))

    def mk_Sqrt(self, dtype, shape, depth):
        func = self.array(float, shape, depth-1)
        sq = ev.Multiply(types.frozenmultiset([func, func]))
        return ev.Power(sq, ev.Constant(types.arraydata(numpy.full(shape, self.rng.choice([.5, 1.5, 2.])))))

    def mk_Reciprocal(self, dtype, shape, depth):
        func = self.array(float, shape, depth-1)
        pos = ev.Add(types.frozenmultiset([ev.Absolute(func), ev.Constant(types.arraydata(numpy.full(shape, self.rng.choice([1., .5, 2.]))))]))
        return self.rng.choice([ev.Reciprocal(pos), ev.Power(pos, ev.Constant(types.arraydata(numpy.full(shape, float(self.rng.choice([-1, -2]))))))])

    def mk_Trig(self, dtype, shape, depth):
        cls = self.rng.choice([ev.Sin, ev.Cos, ev.Exp, ev.Tan, ev.ArcTan, ev.SinH, ev.CosH, ev.TanH])
        return cls(self.array(float, shape, depth-1))

    def mk_BoolToInt(self, dtype, shape, depth):
        return ev.BoolToInt(self.array(bool, shape, depth-1))

    def mk_IntToFloat(self, dtype, shape, depth):
        return ev.IntToFloat(self.array(int, shape, depth-1))

    def mk_FloorDivide(self, dtype, shape, depth):
        return ev.FloorDivide(self.array(int, shape, depth-1), self.constant(int, shape, 1, 3) if self.rng.random() < .7 else ev.Constant(types.arraydata(-numpy.ones(shape, int)*self.rng.choice([1, 2]))))

    def mk_Mod(self, dtype, shape, depth):
        return ev.Mod(self.array(int, shape, depth-1), self.constant(int, shape, 1, 3))

    def _cmp(self, cls, shape, depth):
        t = self.rng.choice([int, float])
        return cls(self.array(t, shape, depth-1), self.array(t, shape, depth-1))

    def mk_Equal(self, dtype, shape, depth):
        return self._cmp(ev.Equal, shape, depth)

    def mk_Less(self, dtype, shape, depth):
        return self._cmp(ev.Less, shape, depth)

    def mk_Greater(self, dtype, shape, depth):
        return self._cmp(ev.Greater, shape, depth)

    def mk_LogicalNot(self, dtype, shape, depth):
        return ev.LogicalNot(self.array(bool, shape, depth-1))

    def mk_Determinant(self, dtype, shape, depth):
        n = self.rng.choice([1, 2, 2, 3])
        return ev.Determinant(self.array(float, shape + (n, n), depth-1))

    def mk_Inverse(self, dtype, shape, depth):
        n = shape[-1]
        func = self.array(float, shape, depth-1)
        # make it safely invertible: diagonally dominant  A -> diag(c) + A/16
        eye = ev.Diagonalize(ev.Constant(types.arraydata(numpy.full(shape[:-1], 4.))))
        scaled = ev.Multiply(types.frozenmultiset([func, ev.Constant(types.arraydata(numpy.full(shape, 1/16)))]))
        return ev.Inverse(ev.Add(types.frozenmultiset([eye, scaled])))

    def _ncoeffs(self, nv, p):
        import math
        return math.comb(nv + p, nv)

    def mk_Polyval(self, dtype, shape, depth):
        k = self.rng.randint(0, len(shape))
        nv = self.rng.choice([0, 1, 1, 2, 2, 3]); p = self.rng.choice([0, 1, 2, 2, 3])
        coeffs = self.array(float, shape[k:] + (self._ncoeffs(nv, p),), depth-1)
        points = self.array(float, shape[:k] + (nv,), depth-1)
        return ev.Polyval(coeffs, points)

    def mk_PolyGradVal(self, dtype, shape, depth):
        # Polyval(PolyGrad(c), x)[..., v] summed over v
        k = self.rng.randint(0, len(shape))
        nv = self.rng.choice([1, 2, 2, 3]); p = self.rng.choice([0, 1, 2, 3])
        coeffs = self.array(float, shape[k:] + (self._ncoeffs(nv, p),), depth-1)
        points = self.array(float, shape[:k] + (nv,), depth-1)
        return ev.Sum(ev.Polyval(ev.PolyGrad(coeffs, nv), points))

    def mk_PolyMulVal(self, dtype, shape, depth):
        from nutils_poly import MulVar
        nvars = self.rng.choice([1, 2, 2, 3])
        vars = tuple(self.rng.choice([MulVar.Left, MulVar.Right, MulVar.Both]) for _ in range(nvars))
        nl = sum(v != MulVar.Right for v in vars); nr = sum(v != MulVar.Left for v in vars)
        pl = self.rng.choice([0, 1, 2]); pr = self.rng.choice([0, 1, 2])
        k = self.rng.randint(0, len(shape))
        left = self.array(float, shape[k:] + (self._ncoeffs(nl, pl),), depth-1)
        right = self.array(float, shape[k:] + (self._ncoeffs(nr, pr),), depth-1)
        points = self.array(float, shape[:k] + (nvars,), depth-1)
        return ev.Polyval(ev.PolyMul(left, right, vars), points)

    def mk_Legendre(self, dtype, shape, depth):
        if not shape: return None
        return ev.Legendre(self.array(float, shape[:-1], depth-1), shape[-1]-1) if shape[-1] >= 1 else None

    def _loop(self):
        self.nloops += 1
        n = self.rng.choice([0, 1, 2, 2, 3])
        idx = ev.loop_index('i%d_%d' % (self.nloops, self.rng.getrandbits(16)), ev.constant(n))
        return idx, n

    def mk_LoopSum(self, dtype, shape, depth):
        idx, n = self._loop()
        self.loopstack.append((idx, n))
        try:
            body = self.array(dtype, shape, depth-1)
            if dtype != bool and self.rng.random() < .7:  # make the body depend on the index
                w = idx if dtype == int else ev.IntToFloat(idx)
                for k in shape:
                    w = ev.InsertAxis(w, ev.constant(k))
                body = ev.Multiply(types.frozenmultiset([body, w])) if self.rng.random() < .5 else ev.Add(types.frozenmultiset([body, w]))
        finally:
            self.loopstack.pop()
        return ev.loop_sum(body, idx)

    def mk_LoopConcatenate(self, dtype, shape, depth):
        # result length shape[-1] = sum of chunk lengths: use constant chunk c with n*c == shape[-1], or index-dependent chunks (Range(i)-like)
        total = shape[-1]
        opts = [(n, total // n) for n in (1, 2, 3) if total % n == 0] if total else [(0, 1), (2, 0)]
        n, c = self.rng.choice(opts)
        self.nloops += 1
        idx = ev.loop_index('c%d_%d' % (self.nloops, self.rng.getrandbits(16)), ev.constant(n))
        self.loopstack.append((idx, n))
        try:
            body = self.array(dtype, shape[:-1] + (c,), depth-1)
        finally:
            self.loopstack.pop()
        return ev.loop_concatenate(body, idx)


def random_case(rng, depth=3, dtype=None, ndim=None, **kw):
    g = Gen(rng, **kw)
    dtype = dtype or rng.choice([float, float, float, int, int, bool])
    nd = rng.choice([0, 1, 1, 2, 2, 3]) if ndim is None else ndim
    shape = tuple(rng.choice([1, 2, 2, 3, 3, 0]) for _ in range(nd))
    e = g.array(dtype, shape, depth)
    return e, g
