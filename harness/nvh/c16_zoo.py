"""C16 helper: the in-place protocol zoo.

`evaluable.compile` writes results of some evaluables directly into an output array that was allocated by a *dependent*
(`_compile_with_out(builder, out, out_block_id, mode)`).  Seven classes implement the protocol; five of them hand (a view of)
`out` on to their arguments, two are leaves that emit the actual in-place statement:

    pass-through   Transpose        numpy.transpose(out, invaxes)            (view)
                   Diagonalize      numpy.einsum('...ii->...i', out)         (view)
                   Add              the same `out` to every term, mode iadd
                   LoopSum          the same `out` into the loop body, mode iadd
                   LoopConcatenate  out[..., slice(start, stop)]             (view)
    leaves         Inflate          numpy.add.at(out, (…, dofmap), values)
                   Assemble         numpy.add.at(out, indices, values)
                   (any other)      numpy.copyto(out, value) / numpy.add(out, value, out=out)

When the array is allocated outside a parallel (outer-most) loop and the statement ends up inside it, the statement must be
guarded by the lock of the array *whatever chain of views lies in between*.  The zoo enumerates these chains:

    spec = (outside, par, inside, leaf)
      outside : tuple over {T, D, A}          wrappers applied outside the parallel loop (top of the expression)
      par     : S | C                         the parallel loop: LoopSum_i / LoopConcatenate_i
      inside  : tuple over {T, D, A, S, C}    wrappers inside the loop body (S / C: an inner loop over j)
      leaf    : gen | inflate | assemble | mat

All data are small integers (exact comparison), every node is used exactly once (otherwise the protocol is not used).
"""
import itertools

OUTSIDE = 'TDA'
INSIDE = 'TDASC'
LEAVES = ('gen', 'inflate', 'assemble', 'mat')
INPLACE_CLASSES = ('Add', 'Inflate', 'Assemble', 'Diagonalize', 'Transpose', 'LoopSum', 'LoopConcatenate')


def all_specs(max_out=2, max_in=2):
    """deterministic enumeration, shortest chains first"""
    specs = []
    for no in range(max_out + 1):
        for ni in range(max_in + 1):
            for out in itertools.product(OUTSIDE, repeat=no):
                for ins in itertools.product(INSIDE, repeat=ni):
                    if sum(1 for x in ins if x in 'SC') > 1: continue       # one inner loop index
                    for par in 'SC':
                        for leaf in LEAVES:
                            specs.append((out, par, ins, leaf))
    return specs


def spec_name(spec):
    out, par, ins, leaf = spec
    return '%s[%s_i[%s[%s]]]' % (''.join(out) or '-', par, ''.join(ins) or '-', leaf)


def build(spec, n, variant=0, probe=None):
    """the evaluable of a spec; `n` = length of the parallel loop; `variant` perturbs coefficients / sizes"""
    from nutils import evaluable as ev
    out, par, ins, leaf = spec
    i = ev.loop_index('i', n)
    ip = probe(i) if probe else i
    nj = 1 + (variant + len(ins)) % 3
    j = ev.loop_index('j', nj)
    serial = [0]
    def fresh():
        serial[0] += 1
        return serial[0]
    def c(k): return ev.constant(k)
    def mk_leaf(idx):
        """a fresh leaf depending on all indices in idx (each call gives a structurally different node)"""
        k = fresh()
        s = ip * (k + 1) + k
        if len(idx) > 1: s = s + j * (k + 2) + ip * j
        L = 2 + variant % 2
        r = ev.Range(c(L))
        vec = ev.insertaxis(s, 0, c(L)) * (r + 1) + r * k
        if leaf == 'gen':
            return vec
        if leaf == 'mat':
            return ev.insertaxis(vec, 1, c(2)) * (ev.insertaxis(ev.Range(c(2)), 0, c(L)) + k) + ev.insertaxis(ev.insertaxis(s, 0, c(L)), 1, c(2))
        m = L + 2
        dofs = (r * (1 + k % 2) + ip + (j if len(idx) > 1 else 0)) % m
        if leaf == 'inflate':
            return ev._inflate(vec, dofs, c(m), 0)
        if leaf == 'assemble':
            return ev.Assemble(vec, (dofs,), (c(m),))
        raise ValueError(leaf)
    def wrap(w, sub, inner):
        """apply wrapper w to the sub-expression builder `sub` (a thunk: every call builds a fresh copy)"""
        if w == 'T':
            def f():
                x = sub()
                if x.ndim < 2: x = ev.Diagonalize(x) if x.ndim == 1 and variant % 2 else ev.insertaxis(x, 0, c(2))
                axes = tuple(range(1, x.ndim)) + (0,)
                return ev.Transpose(x, axes)
            return f
        if w == 'D':
            def f():
                x = sub()
                if x.ndim < 1: x = ev.insertaxis(x, 0, c(2))
                return ev.Diagonalize(x)
            return f
        if w == 'A':
            def f():
                a = sub(); b = sub()
                return ev.add(a, b)
            return f
        raise ValueError(w)
    # innermost: the leaf, depending on (i) or (i, j)
    has_inner = any(x in 'SC' for x in ins)
    pos_inner = max([k for k, x in enumerate(ins) if x in 'SC'], default=-1)
    def body_builder():
        # wrappers listed outermost first; build from the inside out
        sub = (lambda: mk_leaf([i, j])) if has_inner else (lambda: mk_leaf([i]))
        for k in range(len(ins) - 1, -1, -1):
            w = ins[k]
            if w in 'SC':
                prev = sub
                if w == 'S':
                    sub = (lambda prev=prev: ev.loop_sum(prev(), j))
                else:
                    def sub(prev=prev):
                        x = prev()
                        if x.ndim < 1: x = ev.insertaxis(x, 0, c(1))
                        return ev.loop_concatenate(x, j)
            else:
                sub = wrap(w, sub, k > pos_inner)
        return sub
    body = body_builder()
    def parloop():
        x = body()
        if par == 'S':
            return ev.loop_sum(x, i)
        if x.ndim < 1: x = ev.insertaxis(x, 0, c(1))
        return ev.loop_concatenate(x, i)
    top = parloop
    for w in reversed(out):
        top = wrap(w, top, False)
    return top()


class CountInplace:
    """counts which `_compile_with_out` implementations are entered (evidence: which in-place protocols the zoo reaches)"""
    def __init__(self):
        self.hits = {}
    def __enter__(self):
        from nutils import evaluable as ev
        self.saved = []
        for name in INPLACE_CLASSES:
            cls = getattr(ev, name, None)
            if cls is None or '_compile_with_out' not in cls.__dict__: continue
            orig = cls.__dict__['_compile_with_out']
            def patched(self_, builder, out, out_block_id, mode, _orig=orig, _name=name):
                r = _orig(self_, builder, out, out_block_id, mode)
                if r is not NotImplemented:
                    k = '%s:%s' % (_name, 'outside-loop' if len(out_block_id) == 1 else 'in-loop')
                    self.hits[k] = self.hits.get(k, 0) + 1
                return r
            self.saved.append((cls, orig))
            cls._compile_with_out = patched
        return self
    def __exit__(self, *exc):
        for cls, orig in self.saved:
            cls._compile_with_out = orig


VIEWS = ('{T}', '{T}[...]', 'numpy.transpose({T})', '{T}.reshape(-1)', "numpy.einsum('...ii->...i', {T})", '{T}.T', 'numpy.asarray({T})', '{T}[::1]',
         'numpy.reshape({T}, -1)', 'numpy.swapaxes({T}, 0, -1)', 'numpy.diagonal({T})', '{T}.view()', '{T}.ravel()', 'numpy.moveaxis({T}, 0, -1)')


def hoist_alias(script, rng, keep_lock):
    """alias control: in a generated script pick a locked whole-array accumulation `with lock<k>: numpy.add(T, x, out=T)` /
    `numpy.add.at(T, i, x)` inside a parallel loop, bind a *view* of T to a fresh variable in front of the loop and let the
    statement update that variable instead — with the lock (positive control: must stay accepted, the view IS the shared array)
    or without it (negative control: must be rejected).  Purely textual; returns (new script, view form) or None."""
    import ast
    from .c16_extract import dotted
    lines = script.split('\n'); cand = []
    for node in ast.walk(ast.parse(script)):
        if isinstance(node, ast.With) and isinstance(node.items[0].context_expr, ast.Call) and dotted(node.items[0].context_expr.func) == 'parallel.ctxrange':
            for sub in ast.walk(node):
                if isinstance(sub, ast.With) and isinstance(sub.items[0].context_expr, ast.Name) and len(sub.body) == 1 \
                        and isinstance(sub.body[0], ast.Expr) and isinstance(sub.body[0].value, ast.Call):
                    call = sub.body[0].value; f = dotted(call.func); kw = {q.arg: q.value for q in call.keywords}
                    if f == 'numpy.add' and len(call.args) == 2 and 'out' in kw and ast.dump(kw['out']) == ast.dump(call.args[0]):
                        T = call.args[0]; new = 'numpy.add(z9, %s, out=z9)' % ast.unparse(call.args[1])
                    elif f == 'numpy.add.at' and len(call.args) == 3:
                        T = call.args[0]; new = 'numpy.add.at(z9, %s, %s)' % (ast.unparse(call.args[1]), ast.unparse(call.args[2]))
                    else:
                        continue
                    if any(isinstance(t, ast.Call) and dotted(t.func) == 'slice' for t in ast.walk(T)): continue      # target names loop-local offsets
                    if sub.body[0].lineno != sub.body[0].end_lineno: continue
                    cand.append((node.lineno - 1, sub.lineno - 1, sub.body[0].lineno - 1, ast.unparse(T), new))
    if not cand: return None
    iloop, iwith, istmt, T, new = rng.choice(sorted(set(cand)))
    view = rng.choice(VIEWS)
    ind = lambda l: ' ' * (len(l) - len(l.lstrip()))
    lines[istmt] = ind(lines[istmt]) + new
    if not keep_lock:
        lines[iwith] = ind(lines[iwith]) + 'if True:'
    lines.insert(iloop, ind(lines[iloop]) + 'z9 = ' + view.format(T=T))
    return '\n'.join(lines), view
