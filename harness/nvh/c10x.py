"""C10 — additional spec-oracle streams (pure functions of a seed; usable in worker processes).

trimnodal — trimming with level sets given by NODAL VALUES on the vertex grid of the deepest trimming level, with many exact
            zeros (iid zero-rich fields, smooth fields with zeroed stretches along grid lines, products of linear factors that
            vanish on grid lines).  Exact zeros at the sample points are what makes the two elements next to a shared face keep
            DIFFERENT parts of that face, i.e. they are the only inputs on which the reference algebra of
            `TransformChainsTopology.boundary/.interfaces` (edge & opposite edge, edge - opposite edge, the `refs_touched` shortcut)
            and `WithChildrenReference` exposed child faces do real work.  Trimming goes through the real `Topology.trim`
            (plain path or `leveltopo=` uniform / hierarchical refinement).
            Oracle (measured identities, exact up to rounding because all data are dyadic and the integrands are polynomials of
            degree <= 2 on affine simplices): pos + (whole - pos) = whole; per ELEMENT divergence theorem assembled from the boundary
            and both sides of the interfaces; sum of element perimeters = |boundary| + 2 |interfaces| (an independent computation of the
            interface measure from the element references alone); closed boundary; opposite normals; position jump; shared cut.

sbnd     — algebra of structured boundary topologies: for a box obtained from a (periodic) rectilinear mesh by random slices and
            uniform refinements, `refine(r).boundary`, `boundary.refine(r)`, mixed orders, named boundary groups, the boundary of the
            boundary, refined interfaces: every face chain is located in the refined volume topology by the real lookup and compared
            with the exact set of hull faces of the box (integer recomputation).
"""
import itertools, math, random
import numpy

FAIL = 1e-8


# ================================================================ nodal level sets

def hat_field(X, G):
    """multilinear interpolant of the nodal values G (nd-array, node spacing 1 in the coordinates X) as a nutils function; at the
    nodes it evaluates to G exactly (all other hat functions vanish exactly)"""
    f = G
    for k in reversed(range(G.ndim)):
        f = f @ numpy.maximum(0, 1 - abs(X[k] - numpy.arange(G.shape[k])))
    return f


def min_crossing(G):
    """smallest relative distance of a sign change from a node, over all pairs of corners of a cell of the nodal grid (edges and
    diagonals): min |a| / (|a| + |b|) over pairs with a*b < 0; 1 if there is no sign change"""
    nd = G.ndim
    best = 1.
    offs = list(itertools.product([0, 1], repeat=nd))
    for o1, o2 in itertools.combinations(offs, 2):
        A = G[tuple(slice(o, G.shape[k] - 1 + o) for k, o in enumerate(o1))]
        B = G[tuple(slice(o, G.shape[k] - 1 + o) for k, o in enumerate(o2))]
        m = A * B < 0
        if m.any():
            a = numpy.abs(A[m]); b = numpy.abs(B[m])
            best = min(best, float((numpy.minimum(a, b) / (a + b)).min()))
    return best


def nodal_field(rng, fshape, per, step):
    """random integer nodal values on a vertex grid of shape `fshape`; `step` = number of fine intervals per coarse element.
    returns (G, description)"""
    nd = len(fshape)
    kind = rng.choice(['iid', 'iid', 'zeroed', 'zeroed', 'zeroed', 'poly', 'poly'])
    idx = numpy.indices(fshape)
    if kind == 'iid':
        z = rng.choice([.15, .4, .7])
        G = numpy.array([0 if rng.random() < z else rng.choice([-2, -1, 1, 2]) for _ in range(math.prod(fshape))]).reshape(fshape)
        what = 'iid zero density %s' % z
    else:
        if kind == 'zeroed':     # a smooth field without zeros at the nodes ...
            if rng.random() < .5:
                a = [rng.choice([-2, -1, 0, 1, 1, 2]) for _ in range(nd)]
                if not any(a): a[rng.randrange(nd)] = 1
                lo = sum(min(0, ak * (n - 1)) for ak, n in zip(a, fshape)); hi = sum(max(0, ak * (n - 1)) for ak, n in zip(a, fshape))
                cst = 2 * rng.randint(lo, hi) + 1
                G = 2 * sum(ak * idx[k] for k, ak in enumerate(a)) - cst
                what = 'plane 2*%s.i - %d' % (a, cst)
            else:
                p = [rng.randrange(0, n) for n in fshape]
                r2 = 2 * rng.randrange(0, max(2, sum((n - 1)**2 for n in fshape) // 2)) + 1
                sg = rng.choice([1, -1])
                G = sg * (2 * sum((idx[k] - pk)**2 for k, pk in enumerate(p)) - r2)
                what = 'circle %d*(2|i-%s|^2 - %d)' % (sg, p, r2)
            nseg = rng.choice([1, 1, 2, 3])
        else:                    # a(i_k - c) + s * prod of linear factors in the other directions, all vanishing at nodes
            k = rng.randrange(nd)
            c = rng.randrange(0, (fshape[k] - 1) // step + 1) * step if rng.random() < .8 else rng.randrange(0, fshape[k])
            a = rng.choice([-2, -1, 1, 2])
            G = a * (idx[k] - c)
            g = numpy.ones(fshape, dtype=int) * rng.choice([1, -1])
            roots = []
            for j in range(nd):
                if j != k:
                    for _ in range(rng.choice([1, 2, 2])):
                        p = rng.randrange(0, fshape[j]); roots.append((j, p)); g = g * (idx[j] - p)
            G = G * rng.choice([1, 1, 2, 4]) + (g if nd > 1 else 0)
            what = 'poly %d*(i%d-%d)*w + prod%s' % (a, k, c, roots)
            nseg = rng.choice([0, 0, 1])
        # ... zeroed on stretches of grid lines (a run of nodes along axis j on a hyperplane i_k = c, c mostly a coarse grid line)
        segs = []
        for _ in range(nseg):
            k = rng.randrange(nd)
            c = rng.randrange(0, (fshape[k] - 1) // step + 1) * step if rng.random() < .75 else rng.randrange(0, fshape[k])
            sl = [slice(None)] * nd
            sl[k] = c
            for j in range(nd):
                if j != k:
                    a = rng.randrange(0, fshape[j] - 1); b = rng.randint(a + 1, min(fshape[j] - 1, a + rng.choice([1, 1, 2, step, 2 * step])))
                    sl[j] = slice(a, b + 1)
            G = numpy.array(G); G[tuple(sl)] = 0
            segs.append('i%d=%d:%s' % (k, c, [(s.start, s.stop - 1) for s in sl if isinstance(s, slice) and s != slice(None)]))
        if segs: what += ' zeroed on ' + ' '.join(segs)
    G = numpy.array(G, dtype=float)
    for k in per:      # periodic axes: last node layer = first
        a = [slice(None)] * nd; b = list(a); a[k] = -1; b[k] = 0
        G[tuple(a)] = G[tuple(b)]
    return G, what


# ================================================================ measured identities, per element

def face_identities(topo, x, periodic, deg=2):
    """[(name, value)] for one topology with connectivity: all values must vanish"""
    from nutils import function, topology
    J = function.J(x); n = function.normal(x); nd = topo.ndims
    ind = topo.basis('discont', degree=0)
    lhs = topo.integrate(ind * nd * J, degree=deg)
    b = topo.boundary
    rb = b.integrate([ind * (x @ n) * J, J, n * J], degree=deg)
    rhs = rb[0]; imeas = 0.; out = []
    i = topo.interfaces
    if len(i):
        ri = i.integrate([-(function.jump(ind[:, None] * x[None, :]) @ n) * J, J, (n + function.opposite(n)) * J, (function.jump(x) @ n) * J], degree=deg)
        rhs = rhs + ri[0]; imeas = float(ri[1])
        out.append(('normals-opposite', float(numpy.abs(ri[2]).max())))
        if not periodic: out.append(('interface-position-jump', float(ri[3])))
    # all non-empty edges of all elements, straight from the element references (no connectivity involved)
    erefs = topo.references.edges
    sel = numpy.array([k for k, r in enumerate(erefs) if r], dtype=int)
    et = topo.transforms.edges(topo.references)[sel]
    alle = topology.TransformChainsTopology(topo.space, erefs[sel], et, et)
    ra = alle.integrate([J, ind * (x @ n) * J], degree=deg)
    out += [('closed', float(numpy.abs(rb[2]).max())),
            ('element-divergence', float(numpy.abs(lhs - rhs).max())),
            ('perimeter', float(ra[0]) - float(rb[1]) - 2 * imeas)]
    if nd > 1:      # each element reference by itself is a closed cell (in 1-D the orientation of point edges is not available on this
        #             artificial all-edges topology: UniformDerivedTransforms treats the 1x0 linear parts as constant)
        out.append(('element-references-closed', float(numpy.abs(lhs - ra[1]).max())))
    return out, dict(n=len(topo), nb=len(b), ni=len(i), bmeas=float(rb[1]), imeas=imeas)


def trimnodal_case(job):
    """one case of the trimnodal stream; returns a record (no side effects)"""
    seed, quick = job
    import treelog
    with treelog.set(treelog.NullLog()):
        return _trimnodal_case(seed, quick)


def _trimnodal_case(seed, quick):
    from nutils import mesh, function
    from .c10 import classify_exc, short_tb
    rng = random.Random(seed)
    rec = dict(seed=seed, checks=[], counts=[], steps=[])
    steps = rec['steps']
    mkind = rng.choice(['rect'] * 7 + ['triangle', 'mixed'])
    if mkind == 'rect':
        nd = rng.choice([1, 2, 2, 2, 2, 3])
        shape = [rng.randint(1, [0, 5, 3, 2][nd]) for _ in range(nd)]
        per = [k for k in range(nd) if rng.random() < .3 and shape[k] >= 3]
        scale = 1
    else:
        nd = 2; n = rng.randint(1, 3) if mkind == 'triangle' else rng.randint(2, 3)
        shape = [n, n]; per = []; scale = n
    mr = (rng.choice([0, 1, 1, 1, 2, 2]) if nd < 3 else rng.choice([0, 1, 1])) if mkind == 'rect' else rng.choice([1, 1, 2])
    step = 2**mr
    fshape = [m * step + 1 for m in shape]
    nregen = 0
    while True:
        G, gdesc = nodal_field(rng, fshape, per, step)
        # the binning of cut positions (2^ndivisions bins per leaf edge) must not round a cut onto a vertex: that is the domain of the
        # separately probed finding `trim:coarse-ndivisions:boundary-not-closed`; exact zeros AT nodes are what this stream is about
        xi = min_crossing(G)
        ndivs = [nv for nv in (8, 8, 8, 6, 4, 3, 2, 1) if xi * 2**nv >= 1]
        if ndivs: break
        nregen += 1
    ndiv = rng.choice(ndivs)
    steered = ['trimnodal-steered-away-from-coarse-ndivisions:field-regenerated'] * nregen
    if min(ndivs) > 1: steered.append('trimnodal-steered-away-from-coarse-ndivisions:ndivisions<%d-excluded' % min(ndivs))
    desc = dict(stream='trimnodal', seed=seed, mesh=mkind, shape=shape, periodic=per, maxrefine=mr, ndivisions=ndiv, field=gdesc, nodal=G.astype(int).tolist())
    rec['desc'] = desc
    rec['key'] = (mkind, tuple(shape), tuple(per), mr, ndiv, G.astype(int).tobytes())
    rec['counts'] += steered + ['trimnodal:%s:%dd%s' % (mkind, nd, ':periodic' if per else ''), 'trimnodal-field:' + gdesc.split(' ')[0], 'trimnodal-maxrefine:%d' % mr]
    try:
        if mkind == 'rect':
            topo, x = mesh.rectilinear(shape, periodic=per)
        else:
            topo, x = mesh.unitsquare(shape[0], mkind)
        J = function.J(x)
        f = hat_field(x * (scale * step), G)
        vol = math.prod(shape) / scale**nd
        # ---- the trimming path
        path = rng.choice(['plain', 'plain', 'leveltopo', 'leveltopo', 'hier-leveltopo']) if mkind == 'rect' else rng.choice(['plain', 'plain', 'leveltopo'])
        if path == 'hier-leveltopo' and mr == 0: path = 'leveltopo'
        if path == 'plain':
            pos = topo.trim(f, maxrefine=mr, ndivisions=ndiv, name='trimmed')
        elif path == 'leveltopo':
            j = rng.randint(0, mr)
            steps.append('leveltopo=refine(%d)' % j)
            pos = topo.trim(f, maxrefine=mr, ndivisions=ndiv, name='trimmed', leveltopo=topo.refine(j))
        else:
            lt = topo
            for _ in range(rng.randint(1, mr)):       # a hierarchical refinement of the topology, nowhere deeper than maxrefine
                m = len(lt); sel = sorted(rng.sample(range(m), rng.randint(1, min(m, 3))))
                lt = lt.refined_by(sel); steps.append('leveltopo.refined_by(%s)' % sel)
            pos = topo.trim(f, maxrefine=mr, ndivisions=ndiv, name='trimmed', leveltopo=lt)
        steps.insert(0, 'trim[%s]' % path)
        rec['counts'].append('trimnodal-path:' + path)
        neg = topo - pos
        vp = float(pos.integrate(J, degree=2)) if len(pos) else 0.
        vn = float(neg.integrate(J, degree=2)) if len(neg) else 0.
        rec['checks'].append(('partition:trim-minus', vp + vn - vol, 'SubsetTopology'))
        rec['nontrivial'] = 0 < vp < vol
        # partial faces: interior faces whose two sides differ (what the stream is after), counted for the evidence
        npartial = 0
        if len(pos) and hasattr(pos, 'connectivity'):
            for ie, (row, ref) in enumerate(zip(pos.connectivity, pos.references)):
                for iedge, je in enumerate(row):
                    if je > ie:
                        a = ref.edge_refs[iedge]; bref = pos.references[je].edge_refs[list(pos.connectivity[je]).index(ie)]
                        if bool(a) != bool(bref) or (a and bref and a.volume != bref.volume): npartial += 1
        rec['counts'].append('trimnodal-partial-faces:%s' % ('0' if not npartial else '1' if npartial == 1 else '2+'))
        targets = [('pos', pos), ('neg', neg)]
        if mr >= 1 and rng.random() < .3 and len(pos) and len(pos) * 2**nd <= 160:
            targets.append(('pos.refined', pos.refined)); steps.append('refined')
        for label, t in targets:
            if not len(t): continue
            ids, info = face_identities(t, x, bool(per))
            where = type(t).__name__
            rec['checks'] += [(name, val, where) for name, val in ids]
            rec.setdefault('measured', {})[label] = info
        # ---- the cut is shared with opposite orientation
        if len(pos) and len(neg):
            n = function.normal(x)
            funcs = [n * J, J, (x[:, None] * n[None, :]) * J]
            try:
                bp, bn = pos.boundary['trimmed'], neg.boundary['trimmed']
            except KeyError:
                bp = bn = None; rec['counts'].append('trimnodal:cut-empty')
            if bp is not None:
                rp = bp.integrate(funcs, degree=2); rn = bn.integrate(funcs, degree=2)
                rec['checks'] += [('cut:normals', float(numpy.abs(rp[0] + rn[0]).max()), 'trimmed'), ('cut:measure', float(rp[1] - rn[1]), 'trimmed')]
                if not per: rec['checks'].append(('cut:moments', float(numpy.abs(rp[2] + rn[2]).max()), 'trimmed'))
    except Exception as e:
        rec['exc'] = short_tb(e); rec['cls'] = classify_exc(e)
    return rec


# ================================================================ structured boundary algebra (exact)

def _hull_faces(lo, hi, per, L):
    """exact boundary faces ((level, idx), axis, side) of the box lo..hi (level-0 units) at level L"""
    nd = len(lo)
    out = []
    rngs = [range(lo[k] << L, hi[k] << L) for k in range(nd)]
    for k in range(nd):
        if per[k]: continue
        for s, v in ((-1, lo[k] << L), (1, (hi[k] << L) - 1)):
            for idx in itertools.product(*[rngs[j] if j != k else [v] for j in range(nd)]):
                out.append(((L, tuple(idx)), k, s))
    return sorted(out)


def _hull_ridges(lo, hi, per, L):
    """exact codimension-2 cells of the hull as boxes (lo, hi) in level-0 coordinates"""
    nd = len(lo); h = 2.0**-L
    out = []
    for k1, k2 in itertools.combinations([k for k in range(nd) if not per[k]], 2):
        for v1 in (lo[k1], hi[k1]):
            for v2 in (lo[k2], hi[k2]):
                rest = [j for j in range(nd) if j not in (k1, k2)]
                for idx in itertools.product(*[range(lo[j] << L, hi[j] << L) for j in rest]):
                    a = [0.] * nd; b = [0.] * nd
                    a[k1] = b[k1] = float(v1); a[k2] = b[k2] = float(v2)
                    for j, i in zip(rest, idx):
                        a[j] = i * h; b[j] = (i + 1) * h
                    out.append((tuple(a), tuple(b)))
    return sorted(out)


def sbnd_case(rng, quick):
    """one case of the structured-boundary-algebra stream; returns a record"""
    from nutils import mesh
    from .c10 import classify_exc, short_tb, face_of, chain_box, GeomError
    rec = dict(problems=[], counts=[], steps=[])
    nd = rng.choice([1, 2, 2, 2, 3])
    while True:
        shape = [rng.randint(1, [0, 7, 4, 3][nd]) for _ in range(nd)]
        if math.prod(shape) <= 24: break
    per = [int(rng.random() < .5 and shape[k] >= 3) for k in range(nd)]
    lo, hi = [0] * nd, list(shape); L = 0; cper = list(per)
    steps = rec['steps']
    desc = dict(stream='sbnd', shape=shape, periodic=[k for k in range(nd) if per[k]], steps=steps)
    rec['desc'] = desc
    try:
        V, x = mesh.rectilinear(shape, periodic=[k for k in range(nd) if per[k]])
        # ---- the volume: random interleaving of slices and uniform refinements
        for _ in range(rng.choice([0, 1, 1, 2, 2, 3])):
            width = [(hi[k] - lo[k]) << L for k in range(nd)]
            if rng.random() < .3 and L < 2 and math.prod(width) * 2**nd <= 64:
                V = V.refined; L += 1; steps.append('refined')
            else:
                cand = [k for k in range(nd) if width[k] > 1]
                if not cand: continue
                pk = [k for k in cand if cper[k]]
                k = rng.choice(pk) if pk and rng.random() < .7 else rng.choice(cand)
                a = rng.randrange(0, width[k]); b = rng.randint(a + 1, width[k])
                if (a, b) == (0, width[k]): continue
                if (a % (1 << L) or b % (1 << L)):
                    # the box is no longer aligned with level 0: re-express it in level-L units by rebasing the oracle
                    lo = [v << L for v in lo]; hi = [v << L for v in hi]; rec['shift'] = rec.get('shift', 0) + L; L = 0
                    lo[k], hi[k] = lo[k] + a, lo[k] + b
                else:
                    lo[k], hi[k] = lo[k] + (a >> L), lo[k] + (b >> L)
                V = V[(slice(None),) * k + (slice(a, b),)]; cper[k] = 0
                steps.append('[%d:%d @%d]' % (a, b, k))
        shift = rec.get('shift', 0)      # chain levels of V's elements = shift + L
        r = rng.choice([0, 1, 1, 1, 2]) if math.prod((hi[k] - lo[k]) << L for k in range(nd)) * 4**nd <= 1024 else rng.choice([0, 1])
        while r and math.prod((hi[k] - lo[k]) << (L + r) for k in range(nd)) > 400: r -= 1
        rec['counts'] += ['sbnd:%dd%s%s' % (nd, ':periodic' if any(per) else '', ':sliced-periodic' if any(p and not c for p, c in zip(per, cper)) else ''), 'sbnd-refine:%d' % r]
        fine = V.refine(r)
        want = _hull_faces(lo, hi, cper, L + r)
        unit = 2.0**-shift     # chain coordinates are in level-0 Index units of the ORIGINAL mesh; the oracle box is in units of level `shift`

        class Orphan(Exception): pass

        def locate(ch, cache):
            # the face must be a face of an element of the refined volume topology (real lookup + exact geometry)
            try:
                return face_of(fine, ch, nd, cache)
            except (ValueError, GeomError) as e:
                try: box = tuple(tuple(float(v) / unit for v in p) for p in chain_box(ch, nd))
                except Exception: box = None
                raise Orphan('face with box %r is not a face of any element of the topology (%s)' % (box, short_tb(e)))

        def faces(t):
            cache = {}
            out = []
            for ch in t.transforms:
                ie, cell, k, s, box = locate(ch, cache)
                lvl, idx = cell
                out.append(((lvl - shift, idx), k, s))
            return sorted(out)

        variants = [('refine(%d).boundary' % r, lambda: fine.boundary)]
        if r:
            variants.append(('boundary.refine(%d)' % r, lambda: V.boundary.refine(r)))
            r1 = rng.randint(0, r)
            if 0 < r1 < r or rng.random() < .5:
                variants.append(('refine(%d).boundary.refine(%d)' % (r1, r - r1), lambda: V.refine(r1).boundary.refine(r - r1)))
        names = [nm for k in range(nd) if not cper[k] for nm in (('left', 'right'), ('bottom', 'top'), ('front', 'back'))[k]]
        for label, mk in variants:
            rec['counts'].append('sbnd-variant:' + label.split('(')[0])
            got = faces(mk())
            if got != want:
                missing = sorted(set(want) - set(got)); extra = sorted(set(got) - set(want))
                rec['problems'].append(('sbnd-boundary:' + ('lost' if missing else 'extra' if extra else 'duplicate') + ':' + ('refined-boundary' if label.startswith('boundary.refine') or ').boundary.refine' in label else 'boundary-of-refined'),
                                        '%s of the box %s..%s (periodic %s): missing faces %r, spurious faces %r (cell, axis, side)' % (label, lo, hi, cper, missing[:3], extra[:3]), dict(variant=label, got=got[:40], want=want[:40])))
                break
        else:
            if names and rng.random() < .6:
                bt = V.boundary
                got = sorted(f for nm in names for f in faces(bt[nm].refine(r) if rng.random() < .5 else fine.boundary[nm]))
                rec['counts'].append('sbnd-variant:groups')
                if got != want:
                    rec['problems'].append(('sbnd-boundary:groups', 'the named boundary groups %s (refined %d times) do not make up the boundary' % (names, r), dict(got=got[:40], want=want[:40])))
            # per group: the right side of the box
            if names and rng.random() < .5:
                nm = rng.choice(names)
                k = [i for i, pair in enumerate((('left', 'right'), ('bottom', 'top'), ('front', 'back'))) if nm in pair][0]
                s = 1 if nm in ('right', 'top', 'back') else -1
                got = faces(V.boundary[nm].refine(r))
                if got != [f for f in want if f[1] == k and f[2] == s]:
                    rec['problems'].append(('sbnd-boundary:group-misplaced', 'boundary group %r refined %d times is not the %s side of axis %d' % (nm, r, '+' if s > 0 else '-', k), dict(got=got[:40])))
            # boundary of the boundary: every codimension-2 cell of the hull exactly twice
            if nd >= 2 and names and rng.random() < .6:
                order = rng.choice(['bb.refine', 'refine.bb', 'b.refine.b']) if r else 'refine.bb'
                # (the union of the sides has no connectivity; each named side is a structured topology with a boundary of its own)
                bbs = [V.boundary[nm].boundary.refine(r) if order == 'bb.refine' else fine.boundary[nm].boundary if order == 'refine.bb' else V.boundary[nm].refine(r).boundary for nm in names]
                rec['counts'].append('sbnd-variant:' + order)
                boxes = sorted((tuple(float(v) / unit for v in blo), tuple(float(v) / unit for v in bhi)) for bb in bbs for blo, bhi in (chain_box(ch, nd) for ch in bb.transforms))
                wantr = _hull_ridges(lo, hi, cper, L + r)
                if boxes != sorted(wantr + wantr):
                    rec['problems'].append(('sbnd-boundary-of-boundary', 'the boundary of the boundary (%s) does not list every codimension-2 cell of the hull exactly twice: %d cells for %d expected' % (order, len(boxes), 2 * len(wantr)), dict(got=boxes[:20], want=wantr[:20])))
            # refined coarse interfaces are interfaces of the refined topology, with the same opposite element
            if r and nd >= 1 and rng.random() < .5 and len(V.interfaces):
                rec['counts'].append('sbnd-variant:interfaces.refine')
                def pairs(it):
                    cache = {}
                    out = []
                    for ch, och in zip(it.transforms, it.opposites):
                        ie, cell, k, s, box = locate(ch, cache)
                        je, ocell, ok_, os_, obox = locate(och, cache)
                        out.append(tuple(sorted([(cell, k, s), (ocell, ok_, os_)])))
                    return out
                coarse = pairs(V.interfaces.refine(r)); allf = pairs(fine.interfaces)
                if len(set(coarse)) != len(coarse) or not set(coarse) <= set(allf) or len(coarse) != len(V.interfaces) * 2**((nd - 1) * r):
                    rec['problems'].append(('sbnd-interfaces:refined', 'interfaces.refine(%d) is not a duplicate-free subset of refine(%d).interfaces with %d faces per coarse interface' % (r, r, 2**((nd - 1) * r)), dict(coarse=coarse[:20])))
    except Exception as e:
        if type(e).__name__ == 'Orphan':
            rec['problems'].append(('sbnd-boundary:orphan-face', 'box %s..%s (periodic %s) after %s: %s' % (lo, hi, cper, rec['counts'][-1:], e), {}))
        else:
            rec['exc'] = short_tb(e); rec['cls'] = classify_exc(e)
    rec['key'] = ('sbnd', tuple(shape), tuple(per), tuple(steps), rec.get('shift', 0))
    return rec
