"""C12 — bases are what their type promises.

Ties
* (M) mechanism correspondence, exact integer data: real `util.merge_index_map`, `StructuredTopology.basis_spline`
  (`StructuredBasis` start/stop/ndofs, `get_dofs`, `get_support`, coefficient shapes, `removedofs` -> `MaskedBasis`),
  `_basis_spline` (dof lists used by `MultipatchTopology.basis_spline`), `PlainBasis._computed_support`, `MaskedBasis`,
  `PrunedBasis`, `DiscontBasis`, `LegendreBasis` versus the Lean model (`lean/NutilsVerif/Model/C12.lean`) about which
  `Props/C12.lean` proves the unbounded statements.
* (V) values: real spline / Bernstein bases at dyadic points versus Cox-de Boor / Bernstein evaluation over Q in Lean
  (`bspline_pou`, `bernstein_pou` speak about exactly these functions).
* (X) Bernstein coefficient tables regenerated from /repo and re-proved to sum to the constant one (`bernstein_table_pou`).
* `c12x.py`: periodic structured bases (seam continuity, dof-count formula), multipatch splines with per-edge knot data on randomly
  oriented keys (versus Cox-de Boor), `Basis.__getitem__` for all slice forms (versus numpy slicing and the Lean model `basisGetSlice`).
* spec-oracle streams on the real code over the full list of basis types (obligation kind 'exploration' where no theorem
  covers the mechanism): evaluation = Inflate(Polyval(coefficients)), get_support/get_dofs mutual inverses, partition of
  unity, advertised continuity across all interfaces, polynomial reproduction.

Verdicts: a failing input is always decided by the specification side (exact recomputation in Python ints / Fractions of
what the property demands, or a numeric deviation >= 1e-8); "model != code" alone is reported as no-failing-input-found.
"""
import itertools, math, functools, contextlib, traceback
from fractions import Fraction
import numpy
from .common import Infra
from . import c12x

TOL = 1e-8          # a deviation >= TOL is a failing input
TIGHT = 1e-10       # what we expect on the unchanged tree (reported in the evidence when exceeded)
KNOWN_SINGLE = 'int_or_vec:single-element-array-not-unique'
KNOWN_SEAM = 'basis_spline:periodic-seam-multiplicity-knot-vector-too-short'


def ints(a):
    return ' '.join(str(int(x)) for x in a)


def rows(r):
    """';'-separated rows, an empty row is written '_' (so that '' is unambiguously 'no rows')"""
    return ';'.join(ints(x) if len(x) else '_' for x in r)


def canon_rows(r):
    return [[int(x) for x in row] for row in r]


def parse_rows(s, n=None):
    """inverse of rows(); the number of rows disambiguates '' (no rows / one empty row)"""
    if s.strip() == '':
        return []
    return [[int(w) for w in part.split() if w != '_'] for part in s.split(';')]


def sets_str(sets):
    return rows(sets)


def frac_str(q):
    q = Fraction(q)
    return '%d/%d' % (q.numerator, q.denominator)


def parse_fracs(s):
    return [Fraction(w) for w in s.split()]


# ================================================================================================ merge_index_map

def classes_of(n, sets):
    """specification oracle: connected components of 'occur in a common merge set' (plain BFS, python ints)"""
    adj = [set() for _ in range(n)]
    for s in sets:
        for a in s:
            for b in s:
                adj[a].add(b)
    comp = [-1]*n
    k = 0
    for i in range(n):
        if comp[i] >= 0: continue
        stack = [i]; comp[i] = k
        while stack:
            a = stack.pop()
            for b in adj[a]:
                if comp[b] < 0:
                    comp[b] = k; stack.append(b)
        k += 1
    return comp, k


def merge_spec_violation(n, sets, condense, out, nout):
    """None when (out, nout) satisfies the documented contract of merge_index_map, else a short reason"""
    if len(out) != n: return 'length'
    comp, k = classes_of(n, sets)
    for i in range(n):
        for j in range(i+1, n):
            if (out[i] == out[j]) != (comp[i] == comp[j]):
                return 'merged-iff-connected (%d,%d)' % (i, j)
    if nout != k: return 'nout != number of classes'
    if condense:
        first = []
        for v in out:
            if v not in first: first.append(v)
        if first != list(range(nout)): return 'first occurrences are not range(nout)'
    else:
        for i in range(n):
            if not (0 <= out[i] < n and out[out[i]] == out[i] and comp[out[i]] == comp[i]):
                return 'representative does not map onto itself'
    return None


def gen_merge_case(rng):
    n = rng.choice([0, 1, 2, 3, 4, 5, 6, 8, 10, 14])
    nsets = rng.choice([0, 1, 2, 3, 5, 8])
    sets = []
    for _ in range(nsets):
        k = rng.choice([1, 1, 2, 2, 2, 3, 4])
        sets.append([rng.randrange(n) for _ in range(k)] if n else [])
    kind = 'valid'
    r = rng.random()
    if n and sets and r < .12:
        s = rng.choice(sets); s[rng.randrange(len(s))] -= n; kind = 'negative'      # numpy wraps: same element
    elif sets and r < .2:
        s = rng.choice(sets); s.append(n + rng.randint(0, 2)) if rng.random() < .5 else s.append(-n - 1 - rng.randint(0, 1)); kind = 'out-of-range'
    elif r < .26:
        sets.insert(rng.randint(0, len(sets)), []); kind = 'empty-set'
    if n == 0 and any(sets): kind = 'out-of-range'
    if n == 0 and sets and not any(sets): kind = 'empty-set'
    return kind, n, sets, rng.random() < .7


def stream_merge(c, util, N, captured):
    cases = [('corpus', 5, [[3, 1], [4, 3], [0]], True), ('corpus', 5, [[3, 1], [4, -2], [0]], False), ('corpus', 4, [[3, 2]], True),
             ('corpus', 6, [[5, 0], [4, 1], [5, 4]], True), ('corpus', 3, [[0, 3]], True), ('corpus', 3, [[0], [], [1]], True), ('corpus', 0, [], True)]
    cases += [gen_merge_case(c.rng) for _ in range(N)]
    cases += [('captured', n, s, True) for n, s in captured]
    ans = yield ['merge|%d|%d|%s' % (n, 1 if cond else 0, sets_str(s)) for _, n, s, cond in cases]
    ndis = 0
    for (kind, n, sets, cond), a in zip(cases, ans):
        try:
            out, nout = util.merge_index_map(n, (list(s) for s in sets), cond)
            real = 'ok|%s|%d' % (ints(out), nout)
        except (IndexError, ValueError) as e:
            out = None; real = 'err|' + type(e).__name__
        except Exception as e:
            out = None; real = 'exc|' + type(e).__name__
        c.count('merge:' + kind); c.count('merge-real:' + real.split('|')[0])
        c.case(('merge', n, tuple(map(tuple, sets)), cond), nontrivial=any(len(s) > 1 for s in sets))
        c.sample(dict(op='merge_index_map', nin=n, merge_sets=sets, condense=cond, real=real), limit=3)
        replay = dict(op='merge_index_map', nin=n, merge_sets=sets, condense=cond, real=real, model=a)
        wellformed = all(len(s) > 0 and all(-n <= i < n for i in s) for s in sets)
        if wellformed:
            norm = [[i % n for i in s] for s in sets]
            if out is None:
                c.failing_input('merge_index_map-raises-on-valid-input', 'merge_index_map raises on well-formed merge sets', replay); ndis += 1; continue
            why = merge_spec_violation(n, norm, cond, [int(x) for x in out], int(nout))
            if why:
                c.failing_input('merge_index_map-contract:' + why.split(' (')[0], 'merge_index_map result violates its contract: ' + why, replay); ndis += 1; continue
            c.traces += 1
        if real != a:
            ndis += 1
            c.broken_no_input('corr:merge_index_map', 'model and implementation disagree (result or error kind)', replay)
    c.obligation('corr:merge_index_map', ndis == 0, 'correspondence', '%d cases (%d captured from real basis constructions)' % (len(cases), len(captured)))


# ================================================================================================ structured splines

def gen_dim(rng, maxn=4, maxp=4, allow_bad=True):
    """one dimension of a basis_spline call: (p, n, continuity, mults|None, periodic), plus a tag"""
    p = rng.choice([0, 1, 1, 2, 2, 3, 3, 4][:2*maxp])
    n = rng.randint(1, maxn)
    per = rng.random() < .4
    tag = 'default'
    cont = -1
    r = rng.random()
    if r < .45:
        cont = rng.randint(-p-1, p-1) if p else rng.choice([-1, -1, 0])
        tag = 'cont'
    m = None
    r = rng.random()
    if r < .5:
        full = [rng.randint(1, p+1) for _ in range(n+1)]
        if per and rng.random() < .8: full[-1] = full[0]
        if rng.random() < .25: full[0] = full[-1] = p+1
        m = full; tag += '+mults'
        if n % 2 == 0 and rng.random() < .5:     # coarse vector, refined by interleaving with p-c
            k = n
            while k % 2 == 0 and k > 1 and rng.random() < .7: k //= 2
            m = full[:k+1]
            if per: m[-1] = m[0]
            tag += '+coarse'
    if allow_bad:
        r = rng.random()
        if r < .04: cont = p; tag = 'bad-cont'
        elif r < .07 and m: m[rng.randrange(len(m))] = rng.choice([0, p+2]); tag = 'bad-mult'
        elif r < .10 and m and n >= 2: m = m[:-1] + [1, 1] if len(m) == n+1 else m; tag = 'bad-len'
        elif r < .12: m = [rng.randint(1, p+1)]; tag = 'hang'
        elif r < .15 and m and per and len(m) > 1: m[-1] = m[0] % (p+1) + 1; tag = 'bad-periodic'
    return tag, (p, n, cont, m, per)


def dim_str(d):
    p, n, cont, m, per = d
    return '%d,%d,%d,%s,%d' % (p, n, cont, '-' if m is None else ints(m), 1 if per else 0)


def py_resolve_mults(p, n, cont, m):
    """specification recomputation (python ints) of the multiplicity vector basis_spline documents:
    continuity c (negative counts from p) means interior knots of multiplicity p-c"""
    c_ = cont + p if cont < 0 else cont
    if not -1 <= c_ < p: return None
    fill = p - c_
    if m is None: return [fill]*(n+1)
    m = list(m)
    if not m or min(m) <= 0 or max(m) > p+1: return None
    while len(m) < n+1:
        if len(m) == 1: return None
        m = [x for pair in zip(m, [fill]*len(m)) for x in pair][:-1]
    return m if len(m) == n+1 else None


def py_dim_oracle(p, n, m, per):
    """(start, nd) a B-spline space with these knot multiplicities must have (standard B-spline theory):
    element e carries functions  m[1]+..+m[e] .. +p ; nd = sum of interior multiplicities + p + 1 (open ends),
    or the sum of one period's multiplicities (periodic, continuous at the seam)"""
    isper = per and not (m[0] == m[n] == p+1)
    start = [sum(m[1:e+1]) for e in range(n)]
    nd = sum(m[:n]) if isper else p + 1 + sum(m[1:n])
    return start, nd, isper


def knot_vector(p, n, m, kv, isper):
    """global knot vector T (Fractions) such that dof j (before the periodic wrap) is the B-spline N_{j,p} on T"""
    if not isper:
        mm = [p+1] + list(m[1:n]) + [p+1]
        return [kv[i] for i in range(n+1) for _ in range(mm[i])]
    # periodic: unroll enough periods to the left and right
    L = kv[n] - kv[0]
    base = [(kv[i], m[i]) for i in range(n)]
    seq = []
    for shift in range(-(p+2), p+3):
        seq += [(k + shift*L, mult) for k, mult in base]
    T = [k for k, mult in seq for _ in range(mult)]
    # index of the last copy of kv[0] must be p + start[0] = p  ->  drop from the left accordingly
    last0 = max(i for i, t in enumerate(T) if t == kv[0])
    drop = last0 - p
    assert drop >= 0
    return T[drop:]


def rand_local_points(rng, ndims, k):
    return [[Fraction(rng.randint(1, 15), 16) for _ in range(ndims)] for _ in range(k)]


def real_basis_tables(b):
    dofs = [canon(b.get_dofs(e)) for e in range(b.nelems)]
    supp = [canon(b.get_support(d)) for d in range(b.ndofs)]
    return dofs, supp


def canon(a):
    return [int(x) for x in numpy.asarray(a).ravel()]


def inverse_violation(dofs, supp, ndofs):
    """spec oracle: e in supp[d]  <->  d in dofs[e]; supports sorted and unique"""
    want = [[] for _ in range(ndofs)]
    for e, ds in enumerate(dofs):
        for d in sorted(set(ds)):
            if not 0 <= d < ndofs: return 'dof %d of element %d out of range' % (d, e)
            want[d].append(e)
    for d in range(ndofs):
        if supp[d] != want[d]:
            return 'dof %d: get_support %s but elements listing it %s' % (d, supp[d], want[d])
    return None


def seam_knots_too_short(p, n, m, isper):
    """root cause predicate of KNOWN_SEAM: the periodic unrolling loop `while m[n:].sum() < p - m[0] + 2` of basis_spline stops
    before p knots are available behind the last element"""
    if not isper: return False
    period = sum(m[:n]); tail = 0
    while tail < p - m[0] + 2:
        tail = 2*tail + period
    return tail < p


def first_event(ds, vs=False):
    """what the real code does first on this request, dimension by dimension: 'hang' (never terminates), 'raise', 'ok', or
    'skip' (a hang is preceded by a dimension whose outcome depends on the KNOWN_SEAM finding: do not run, do not compare)"""
    uncertain = False
    for d in ds:
        p, n, cont, m = d[:4]
        per = (not vs) and d[4]
        c_ = cont + p if cont < 0 else cont
        if not -1 <= c_ < p: return 'raise'
        if m is not None:
            if not m or min(m) <= 0 or max(m) > p+1: return 'raise'
            if len(m) == 1 and n+1 > 1: return 'skip' if uncertain else 'hang'
        mm = py_resolve_mults(p, n, cont, m)
        if mm is None: return 'raise'
        if vs:
            if m is None: mm = [p+1] + mm[1:-1] + [p+1]
            if sum(mm) - p - 1 <= 0: return 'raise'
        elif per and not (mm[0] == mm[n] == p+1):
            if mm[0] != mm[n]: return 'raise'
            if seam_knots_too_short(p, n, mm, True): uncertain = True
    return 'ok'


def spline_case_checks(c, poly, topo, basis, ds, shape, spec_m, oracle, kvs, removedofs):
    """spec-oracle checks (python ints + numeric) of one accepted basis_spline call"""
    mdofs = msupp = None
    parent = basis._parent if removedofs else basis
    indices = canon(basis._indices) if removedofs else None
    dofs, supp = real_basis_tables(parent)
    ndofs_want = functools.reduce(lambda x, y: x*y, [o[1] for o in oracle], 1)
    bad = None
    if parent.ndofs != ndofs_want: bad = ('ndofs', 'number of dofs %d differs from the B-spline space dimension %d' % (parent.ndofs, ndofs_want))
    if not bad:
        why = inverse_violation(dofs, supp, parent.ndofs)
        if why: bad = ('inverse', 'get_support is not the inverse of get_dofs: ' + why)
    if not bad:
        # dofs per element: tensor product of p+1 consecutive (mod nd) functions starting at the oracle offsets
        for e, mi in enumerate(itertools.product(*[range(n) for n in shape])):
            per_dim = [[(o[0][ei] + r) % o[1] for r in range(d[0]+1)] for ei, d, o in zip(mi, ds, oracle)]
            want = [functools.reduce(lambda acc, x: acc*x[1] + x[0], zip(t, [o[1] for o in oracle]), 0) for t in itertools.product(*per_dim)]
            if dofs[e] != want:
                bad = ('dofs', 'element %d lists dofs %s, the B-splines supported there are %s' % (e, dofs[e], want)); break
            co = parent.get_coefficients(e)
            if co.shape[0] != len(want):
                bad = ('coeff-shape', 'element %d: %d coefficient rows for %d dofs' % (e, co.shape[0], len(want))); break
    # numeric: evaluation = scatter(polyval(coefficients)), partition of unity, values versus Cox-de Boor (queued)
    if not bad:
        bad = numeric_basis_checks(c, poly, topo, basis, pou=removedofs is None, tag='spline')
    if not bad and removedofs is None:
        bad = spline_continuity_violation(ds, spec_m, oracle, kvs, parent, shape)
    if not bad and removedofs:
        mdofs, msupp = real_basis_tables(basis)
        why = inverse_violation(mdofs, msupp, basis.ndofs)
        want_idx = masked_indices_oracle(removedofs, [o[1] for o in oracle])
        if why: bad = ('removedofs-inverse', 'with removedofs: get_support is not the inverse of get_dofs: ' + why)
        elif indices != want_idx: bad = ('removedofs-indices', 'with removedofs %s the kept dofs are %s, expected %s' % (removedofs, indices, want_idx))
    return bad, parent, indices, dofs, supp, mdofs, msupp


def stream_spline(c, mesh, function, poly, N):
    cases = []
    corpus = [[(2, 3, -1, None, False)], [(2, 3, -1, None, True)], [(1, 2, -1, None, False), (2, 2, 0, None, True)],
              [(3, 2, -1, [3, 1, 3], True)], [(3, 3, -1, [3, 2, 1, 3], True)], [(2, 3, -1, [3, 1, 2, 3], True)], [(2, 1, -1, None, True)],
              [(0, 3, -1, None, False)], [(0, 2, -1, None, True)], [(2, 4, -1, [1, 3, 1], False)], [(4, 2, 1, None, False)], [(1, 1, 0, None, True)],
              [(3, 2, -1, None, True)], [(3, 4, 0, [4, 1, 4], False)], [(2, 4, -2, [1, 2, 1], True)], [(3, 4, 1, [2, 3], False)],
              [(3, 2, 0, None, False), (2, 2, -1, None, True)], [(2, 2, -1, None, True), (1, 3, -1, None, True)], [(4, 1, -1, [3, 3], True)]]
    cases += [('corpus', ds) for ds in corpus]
    for _ in range(N):
        nd = c.rng.choice([1, 1, 1, 2, 2, 3] if c.tier == 'thorough' else [1, 1, 1, 2, 2])
        dims = [gen_dim(c.rng, maxn=4 if nd < 3 else 2, maxp=4 if nd == 1 else 3 if nd == 2 else 2) for _ in range(nd)]
        cases.append(('+'.join(t for t, _ in dims) if any(t.startswith(('bad', 'hang')) for t, _ in dims) else 'ok%dd' % nd, [d for _, d in dims]))
    ndis = 0; pending_masked = []
    bs_requests = []   # queue for the Cox-de Boor value stream
    records = []       # (replay, expectation) per case, compared with the model at the end
    for tag, ds in cases:
        replay = dict(op='basis_spline', dims=[dict(degree=p, nelems=n, continuity=cont, knotmultiplicities=m, periodic=per) for p, n, cont, m, per in ds])
        c.count('spline:' + (tag if tag.startswith(('ok', 'corpus')) else 'rejected-kind'))
        ev = first_event(ds)
        if ev == 'skip':
            c.count('spline:skipped (hang after a dimension affected by a known finding)'); continue
        if ev == 'hang':
            c.count('spline:hang (real code not run: it would not terminate)'); c.case(('spline', repr(ds)), nontrivial=False)
            records.append((ds, replay, ('hang',))); continue
        shape = [n for p, n, cont, m, per in ds]
        periodic = [i for i, d in enumerate(ds) if d[4]]
        # ---------------- specification side (python ints)
        spec_m = [py_resolve_mults(p, n, cont, m) for p, n, cont, m, per in ds]
        spec_ok = all(m is not None for m in spec_m) and all(not (per and m[0] != m[n]) for (p, n, cont, _, per), m in zip(ds, spec_m) if m)
        oracle = [py_dim_oracle(p, n, m, per) for (p, n, cont, _, per), m in zip(ds, spec_m)] if spec_ok else None
        # knot values: random increasing dyadic values, or None (uniform)
        kvs = []
        for p, n, cont, m, per in ds:
            if c.rng.random() < .5:
                kvs.append([Fraction(i) for i in range(n+1)])
            else:
                acc = Fraction(c.rng.randint(-2, 2)); kv = [acc]
                for _ in range(n):
                    acc += Fraction(c.rng.choice([1, 2, 3, 4, 6]), 4); kv.append(acc)
                kvs.append(kv)
        removedofs = None
        if spec_ok and c.rng.random() < .3:
            removedofs = []
            for o in oracle:
                ndi = o[1]
                removedofs.append(sorted(set(c.rng.choice([0, -1, ndi-1, c.rng.randrange(ndi)]) for _ in range(c.rng.randint(0, 2)))) or None)
            if not any(removedofs): removedofs = None
        replay.update(knotvalues=[[str(k) for k in kv] for kv in kvs], removedofs=removedofs)
        try:
            topo, geom = mesh.rectilinear([[float(k) for k in kv] for kv in kvs], periodic=periodic)
            kw = dict(degree=[d[0] for d in ds], continuity=[d[2] for d in ds], knotmultiplicities=[d[3] for d in ds],
                      knotvalues=[[float(k) for k in kv] for kv in kvs])
            if removedofs: kw['removedofs'] = removedofs
            basis = topo.basis('spline', **kw)
            real_err = None
        except AssertionError as e:
            basis = None; real_err = 'AssertionError'
        except (ValueError, IndexError) as e:
            basis = None; real_err = type(e).__name__
        c.case(('spline', repr(ds), removedofs is not None), nontrivial=basis is not None)
        if basis is None:
            c.count('spline-real:rejected')
            if spec_ok:
                sig = KNOWN_SEAM if any(seam_knots_too_short(d[0], d[1], m, o[2]) for d, m, o in zip(ds, spec_m, oracle)) else 'basis_spline-rejects-valid'
                c.failing_input(sig, 'basis_spline raises %s for an admissible degree/continuity/multiplicity/periodic combination' % real_err, replay)
                ndis += not c.match_known(sig)
            else:
                records.append((ds, replay, ('rejected',)))
            continue
        c.count('spline-real:accepted')
        if not spec_ok:
            # the implementation accepted something the documented preconditions exclude: not a property violation by itself
            # (asserts are the only guard); the model must agree though
            records.append((ds, replay, ('accepted-unspecified',)))
            continue
        try:
            bad, parent, indices, dofs, supp, mdofs, msupp = spline_case_checks(c, poly, topo, basis, ds, shape, spec_m, oracle, kvs, removedofs)
        except Exception as exc:
            bad = ('exception', 'querying / evaluating the basis raises %s: %s' % (type(exc).__name__, str(exc)[:200])); replay['exception'] = traceback.format_exc()[-1500:]
        if bad:
            ndis += 1
            c.failing_input('basis_spline:' + bad[0], 'structured spline basis: ' + bad[1], replay); continue
        c.traces += 1
        # queue exact value comparison against the Lean Cox-de Boor evaluation (1-D factors; products in n-D)
        if removedofs is None and len(bs_requests) < (60 if c.tier == 'quick' else 600):
            e = c.rng.randrange(len(topo))
            mi = list(itertools.product(*[range(n) for n in shape]))[e]
            pts = rand_local_points(c.rng, len(ds), 2)
            Ts = [knot_vector(d[0], d[1], m, kv, o[2]) for d, m, kv, o in zip(ds, spec_m, kvs, oracle)]
            bs_requests.append((ds, oracle, kvs, topo, basis, e, mi, pts, Ts, replay))
        real_per = ';'.join('%s,%s,%d' % (ints(s_), ints(t_), nd_) for s_, t_, nd_ in zip(parent._start_dofs, parent._stop_dofs, parent._dofs_shape))
        records.append((ds, replay, ('ok', parent.ndofs, parent.nelems, real_per, dofs, supp)))
        if removedofs:
            pending_masked.append((basis, parent, dofs, indices, mdofs, msupp, replay))
            c.count('spline:removedofs')
    # ---------------- correspondence with the model (one batch)
    lines1 = ['sbasis|' + ';'.join(dim_str(d) for d in ds) for ds, replay, exp in records]
    lines2 = ['masked|%d|%s|%s' % (parent.ndofs, rows(dofs), ints(indices)) for basis, parent, dofs, indices, mdofs, msupp, replay in pending_masked]
    lines3, index3 = bspline_value_lines(bs_requests)
    ans = yield lines1 + lines2 + lines3
    for (ds, replay, exp), a in zip(records, ans[:len(lines1)]):
        f = a.split('|'); replay = dict(replay, model=a[:3000])
        if exp[0] == 'hang':
            ok = a == 'err|hang'
        elif exp[0] == 'rejected':
            ok = f[0] == 'err' and f[1] != 'hang'
        elif exp[0] == 'accepted-unspecified':
            ok = f[0] == 'ok'
        else:
            _, ndofs, nelems, real_per, dofs, supp = exp
            ok = f[0] == 'ok' and (int(f[1]), int(f[2])) == (ndofs, nelems) and f[3] == real_per and parse_rows(f[4]) == dofs and parse_rows(f[5]) == supp
            if not ok: replay.update(real=dict(per_dim=real_per, dofs=dofs, supp=supp))
        if not ok:
            ndis += 1; c.broken_no_input('corr:basis_spline', 'model and implementation disagree (%s): accept/reject, start/stop/ndofs, get_dofs or get_support' % exp[0], replay)
    for (basis, parent, dofs, indices, mdofs, msupp, replay), mans in zip(pending_masked, ans[len(lines1):len(lines1)+len(lines2)]):
        f = mans.split('|')
        ok = f[0] == 'ok' and int(f[1]) == basis.ndofs and parse_rows(f[2]) == mdofs and parse_rows(f[4]) == msupp
        for e, sel in enumerate(parse_rows(f[3]) if ok else []):
            if not numpy.array_equal(basis.get_coefficients(e), parent.get_coefficients(e)[sel]): ok = False
        if not ok:
            ndis += 1; c.broken_no_input('corr:MaskedBasis', 'model and implementation disagree on masked dofs / coefficient rows / support', dict(replay, model=mans[:3000], real=dict(dofs=mdofs, supp=msupp)))
    c.obligation('corr:basis_spline+StructuredBasis', ndis == 0, 'correspondence', '%d requests (%d with removedofs)' % (len(cases), len(pending_masked)))
    bspline_value_finish(c, bs_requests, index3, ans[len(lines1)+len(lines2):])


def masked_indices_oracle(removedofs, dofshape):
    keep = []
    for t in itertools.product(*[range(n) for n in dofshape]):
        if all(not r or (ti not in [x % n for x in r]) for ti, r, n in zip(t, removedofs, dofshape)):
            keep.append(functools.reduce(lambda acc, x: acc*x[1] + x[0], zip(t, dofshape), 0))
    return keep


def polyval_desc(coeffs, x):
    """Horner on descending coefficients (1-D nutils_poly layout), exact for Fractions"""
    acc = 0
    for a in coeffs:
        acc = acc*x + a
    return acc


def spline_continuity_violation(ds, spec_m, oracle, kvs, basis, shape):
    """advertised continuity of a B-spline space: C^(p-m_k) across knot k (in the direction of dimension idim), and NOT
    C^(p-m_k+1) (the basis is not forced smoother).  Checked on 1-D bases exactly from the per-element coefficient rows
    (derivatives of the local polynomials, chain rule factor 1/h^r)."""
    if len(ds) != 1: return None
    (p, n, cont, _, per), m, (start, nd, isper), kv = ds[0], spec_m[0], oracle[0], kvs[0]
    dofs = [canon(basis.get_dofs(e)) for e in range(n)]
    if any(len(set(d)) != len(d) for d in dofs): return None   # degenerate periodic wrap (several local functions on one dof)
    co = [numpy.asarray(basis.get_coefficients(e), dtype=float) for e in range(n)]
    pairs = [(e, e+1, m[e+1]) for e in range(n-1)] + ([(n-1, 0, m[0])] if isper else [])
    for el, er, mk in pairs:
        hl = float(kv[el+1]-kv[el]); hr = float(kv[er+1]-kv[er])
        for r in range(0, p+1):
            jump = numpy.zeros(nd)
            for e, x, h, sign in ((el, 1., hl, 1.), (er, 0., hr, -1.)):
                for row, d in zip(co[e], dofs[e]):
                    pd = numpy.polyder(numpy.poly1d(row), r) if r else numpy.poly1d(row)
                    jump[d] += sign * pd(x) / h**r
            size = abs(jump).max()
            if r <= p - mk and size >= TOL:
                return ('continuity', 'derivative %d jumps by %.3g at the knot between elements %d and %d (multiplicity %d, degree %d: C^%d advertised)' % (r, size, el, er, mk, p, p-mk))
            if r == p - mk + 1 and size < 1e-6:
                return ('forced-continuous', 'derivative %d is continuous at the knot between elements %d and %d although the multiplicity %d only gives C^%d' % (r, el, er, mk, p-mk))
    return None


def numeric_basis_checks(c, poly, topo, basis, pou, tag, npts=2):
    """spec oracle on the real code: at random dyadic points of every element sample.eval(basis) equals the scatter of
    the evaluated coefficient rows onto get_dofs (so non-zero functions are among get_dofs), optionally sums to one."""
    ndims = topo.ndims
    ielems = numpy.repeat(numpy.arange(len(topo)), npts)
    coords = numpy.array([[c.rng.randint(1, 15)/16 for _ in range(ndims)] for _ in ielems], dtype=float)
    for e in range(len(topo)):
        verts = numpy.asarray(topo.references[e].vertices, dtype=float)
        if len(verts) == ndims + 1 and ndims > 1 or tag == 'convex':    # simplex: random convex combination (dyadic weights)
            for k in range(npts):
                w = numpy.array([c.rng.randint(1, 8) for _ in verts], dtype=float)
                coords[e*npts+k] = (w/w.sum()) @ verts
    vals = topo._sample(ielems, coords).eval(basis)
    for e in range(len(topo)):
        dofs = canon(basis.get_dofs(e)); co = basis.get_coefficients(e)
        pts = coords[e*npts:(e+1)*npts]
        if co.shape[0] != len(dofs):
            return ('coeff-shape', 'element %d: %d coefficient rows for %d dofs' % (e, co.shape[0], len(dofs)))
        w = poly.eval_outer(numpy.asarray(co, dtype=float), pts)
        full = numpy.zeros((npts, basis.ndofs))
        numpy.add.at(full, (slice(None), dofs), w)
        got = vals[e*npts:(e+1)*npts]
        err = abs(full-got).max() if got.size else 0.
        c.extra['max_eval_dev'] = max(c.extra.get('max_eval_dev', 0.), float(err))
        if err >= TOL:
            outside = [d for d in range(basis.ndofs) if d not in dofs and abs(got[:, d]).max() >= TOL]
            return ('eval', 'element %d: sample.eval(basis) deviates %.3g from its coefficient table%s' % (e, err, '; non-zero dofs outside get_dofs: %s' % outside if outside else ''))
        if pou:
            s = abs(got.sum(1)-1).max()
            c.extra['max_pou_dev'] = max(c.extra.get('max_pou_dev', 0.), float(s))
            if s >= TOL:
                return ('pou', 'element %d: basis sums to 1%+.3g' % (e, got.sum(1)[numpy.argmax(abs(got.sum(1)-1))]-1))
    c.count('numeric:' + tag)
    return None


def bspline_value_lines(reqs):
    """(V) requests: Cox-de Boor over Q (Lean) for every 1-D factor at the chosen dyadic points"""
    lines = []; index = []
    for k, (ds, oracle, kvs, topo, basis, e, mi, pts, Ts, replay) in enumerate(reqs):
        for ip, pt in enumerate(pts):
            for idim, (d, T, kv) in enumerate(zip(ds, Ts, kvs)):
                x = kv[mi[idim]] + pt[idim]*(kv[mi[idim]+1]-kv[mi[idim]])
                lines.append('bspline|%d|%s|%s' % (d[0], ' '.join(frac_str(t) for t in T), frac_str(x)))
                index.append((k, ip, idim))
    # the knot vector the theorem `spline_element_pou` speaks about (Lean `knotVector (openMults p n m) k`) is the one used here
    for k, (ds, oracle, kvs, topo, basis, e, mi, pts, Ts, replay) in enumerate(reqs):
        for idim, (d, T, kv, o) in enumerate(zip(ds, Ts, kvs, oracle)):
            if not o[2]:
                mm = py_resolve_mults(d[0], d[1], d[2], d[3])
                lines.append('knots|%d|%d|%s|%s' % (d[0], d[1], ints(mm), ' '.join(frac_str(t) for t in kv)))
                index.append(('knots', k, idim))
    return lines, index


def bspline_value_finish(c, reqs, index, ans):
    """(V) real spline values at dyadic points versus Cox-de Boor over Q evaluated by the Lean model"""
    vals = {}; nknots = 0
    for key, a in zip(index, ans):
        if not a.startswith('ok|'): raise Infra('bspline request refused: ' + a)
        if key[0] == 'knots':
            if parse_fracs(a[3:]) != reqs[key[1]][8][key[2]]: raise Infra('harness knot vector differs from the model knotVector/openMults')
            nknots += 1; continue
        vals[key] = parse_fracs(a[3:])
    index = [key for key in index if key[0] != 'knots']
    ndis = 0
    for k, (ds, oracle, kvs, topo, basis, e, mi, pts, Ts, replay) in enumerate(reqs):
        got = topo._sample(numpy.array([e]*len(pts)), numpy.array([[float(x) for x in pt] for pt in pts])).eval(basis)
        for ip in range(len(pts)):
            # expected value per dof: product over dimensions of N_j(x), wrapped periodically (j mod nd accumulates)
            per_dim = []
            for idim, (d, o) in enumerate(zip(ds, oracle)):
                v = [Fraction(0)]*o[1]
                for j, q in enumerate(vals[k, ip, idim]):
                    if q != 0:
                        if not o[2] and j >= o[1]: raise Infra('knot vector construction is inconsistent')
                        v[j % o[1]] += q
                per_dim.append(v)
                if sum(v) != 1: raise Infra('Cox-de Boor values do not sum to one: harness knot vector is wrong')
            want = numpy.array([float(functools.reduce(lambda a, b: a*b, t, Fraction(1))) for t in itertools.product(*per_dim)])
            err = abs(want-got[ip]).max()
            c.extra['max_bspline_dev'] = max(c.extra.get('max_bspline_dev', 0.), float(err))
            if err >= TOL:
                ndis += 1
                c.failing_input('basis_spline:values', 'spline basis values deviate %.3g from the Cox-de Boor B-splines of the requested knot vector' % err, dict(replay, element=e, point=[str(x) for x in pts[ip]]))
                break
        c.case(('bspline-values', k), nontrivial=True)
    c.obligation('values:spline-vs-CoxDeBoor(Q)', ndis == 0, 'validation', '%d (basis, element) pairs, %d exact evaluations' % (len(reqs), len(index)))


# ================================================================================================ _basis_spline (explicit dof lists, used by multipatch)

def stream_vs(c, mesh, poly, N):
    """`StructuredTopology._basis_spline` on non-periodic topologies: dof lists per element and dof counts versus the model
    (`vsDim`), versus B-spline theory (python ints) and, in 1-D, coefficient rows versus Cox-de Boor over Q (Lean)."""
    cases = [[(2, 3, -1, None)], [(2, 3, -1, [1, 1, 2, 1])], [(3, 2, -1, [1, 1, 1])], [(1, 2, -1, None), (2, 2, 0, None)], [(0, 3, -1, None)], [(2, 2, -1, [3, 3, 3])]]
    for _ in range(N):
        nd = c.rng.choice([1, 1, 2])
        ds = []
        for _ in range(nd):
            tag, (p, n, cont, m, per) = gen_dim(c.rng, maxn=4, maxp=4 if nd == 1 else 3, allow_bad=c.rng.random() < .3)
            ds.append((p, n, cont, m))
        cases.append(ds)
    ndis = 0; vlines = []; vmeta = []; records = []
    for k, ds in enumerate(cases):
        replay = dict(op='_basis_spline', dims=[dict(degree=p, nelems=n, continuity=cont, knotmultiplicities=m) for p, n, cont, m in ds])
        if first_event(ds, vs=True) == 'hang':
            c.count('vs:hang-not-run'); records.append((ds, replay, ('hang',))); continue
        spec_m = [py_resolve_mults(p, n, cont, m) for p, n, cont, m in ds]
        spec_ok = all(m is not None for m in spec_m)
        if spec_ok:
            spec_m = [([p+1] + m[1:-1] + [p+1]) if mo is None else m for (p, n, cont, mo), m in zip(ds, spec_m)]
            spec_ok = all(sum(m) - p - 1 > 0 for (p, n, cont, mo), m in zip(ds, spec_m))
        topo, geom = mesh.rectilinear([n for p, n, cont, m in ds])
        try:
            coeffs, dofmap, dofshape = topo._basis_spline([p for p, n, cont, m in ds], knotmultiplicities=[m for p, n, cont, m in ds], continuity=[cont for p, n, cont, m in ds])
            real_err = None
        except (AssertionError, ValueError, IndexError) as e:
            real_err = type(e).__name__
        except Exception as e:
            real_err = 'unexpected ' + type(e).__name__
        c.case(('vs', repr(ds)), nontrivial=real_err is None); c.count('vs:' + ('accepted' if real_err is None else 'rejected'))
        if real_err:
            if spec_ok:
                ndis += 1; c.failing_input('_basis_spline-rejects-valid', '_basis_spline raises %s for admissible parameters' % real_err, replay)
            else:
                records.append((ds, replay, ('rejected',)))
            continue
        if not spec_ok:
            records.append((ds, replay, ('accepted-unspecified',)))
            continue
        # ---- B-spline theory: functions N_j on the knot vector with multiplicities m; element e sees j in [mu_e - p, mu_e] clipped
        nds = [sum(m) - p - 1 for (p, n, cont, mo), m in zip(ds, spec_m)]
        per_dim = []
        for (p, n, cont, mo), m, nd_ in zip(ds, spec_m, nds):
            sl = []
            for e in range(n):
                mu = sum(m[:e+1]) - 1
                sl.append(list(range(max(0, mu-p), min(nd_-1, mu)+1)))
            per_dim.append(sl)
        want = [[functools.reduce(lambda acc, x: acc*x[1] + x[0], zip(t, nds), 0) for t in itertools.product(*[per_dim[i][ei] for i, ei in enumerate(mi)])]
                for mi in itertools.product(*[range(n) for p, n, cont, m in ds])]
        got = [canon(d) for d in dofmap]
        bad = None
        if [int(x) for x in dofshape] != nds: bad = ('dofshape', 'dof counts %s, B-spline space dimensions %s' % ([int(x) for x in dofshape], nds))
        elif got != want: bad = ('dofmap', 'dof lists %s, B-splines supported per element %s' % (got, want))
        elif any(len(cf) != len(d) for cf, d in zip(coeffs, got)): bad = ('coeff-shape', 'coefficient rows do not match the dof lists')
        if bad:
            ndis += 1; c.failing_input('_basis_spline:' + bad[0], '_basis_spline: ' + bad[1], replay); continue
        c.traces += 1
        records.append((ds, replay, ('ok', nds, got)))
        if len(ds) == 1 and len(vmeta) < (40 if c.tier == 'quick' else 400):
            p, n = ds[0][0], ds[0][1]; m = spec_m[0]
            T = [Fraction(i) for i in range(n+1) for _ in range(m[i])]
            e = c.rng.randrange(n); x = Fraction(c.rng.randint(1, 15), 16)
            vlines.append('bspline|%d|%s|%s' % (p, ' '.join(frac_str(t) for t in T), frac_str(e + x))); vmeta.append((coeffs[e], got[e], nds[0], x, replay))
    lines = []; index = []
    for k, (ds, replay, exp) in enumerate(records):
        for p, n, cont, m in ds:
            lines.append('vs|%d|%d|%d|%s' % (p, n, cont, '-' if m is None else ints(m))); index.append(k)
    ans = yield lines + vlines
    per_case = {}
    for k, a in zip(index, ans[:len(lines)]): per_case.setdefault(k, []).append(a)
    for k, (ds, replay, exp) in enumerate(records):
        model = per_case[k]; replay = dict(replay, model=model)
        firsterr = next((a for a in model if not a.startswith('ok')), None)    # the real code works dimension by dimension
        if exp[0] == 'hang':
            ok = firsterr == 'err|hang'
        elif exp[0] == 'rejected':
            ok = firsterr is not None and firsterr.startswith('err') and firsterr != 'err|hang' 
        elif exp[0] == 'accepted-unspecified':
            ok = all(a.startswith('ok') for a in model)
        else:
            _, nds, got = exp
            ok = all(a.startswith('ok') for a in model)
            if ok:
                mnds = [int(a.split('|')[1]) for a in model]
                msl = [[list(range(ab[0], ab[1])) for ab in parse_rows(a.split('|')[2])] for a in model]
                mwant = [[functools.reduce(lambda acc, x: acc*x[1] + x[0], zip(t, mnds), 0) for t in itertools.product(*[msl[i][ei] for i, ei in enumerate(mi)])]
                         for mi in itertools.product(*[range(n) for p, n, cont, m in ds])]
                ok = mnds == nds and mwant == got
            if not ok: replay.update(real=dict(dofshape=nds, dofmap=got))
        if not ok:
            ndis += 1; c.broken_no_input('corr:_basis_spline', 'model and implementation disagree (%s): accept/reject, dof slices or counts' % exp[0], replay)
    nv = 0
    for (co, dofs, nd_, x, replay), a in zip(vmeta, ans[len(lines):]):
        if not a.startswith('ok|'):
            if a == 'bad-request': continue     # knot vector shorter than p+2: no function at all
            raise Infra('bspline request refused: ' + a)
        q = parse_fracs(a[3:])
        want = numpy.array([float(q[d]) if d < len(q) else 0. for d in dofs])
        gotv = numpy.array([polyval_desc([float(t) for t in row], float(x)) for row in numpy.asarray(co)])
        nz = [j for j, v in enumerate(q) if v != 0 and j not in dofs]
        err = float(abs(want-gotv).max()) if len(dofs) else 0.
        nv += 1
        if err >= TOL or nz:
            ndis += 1; c.failing_input('_basis_spline:values', '_basis_spline coefficient rows deviate %.3g from the Cox-de Boor B-splines (non-zero functions not listed: %s)' % (err, nz), dict(replay, x=str(x)))
    c.obligation('corr:_basis_spline (dof slices, counts, coefficient rows)', ndis == 0, 'correspondence', '%d requests, %d value comparisons' % (len(cases), nv))


# ================================================================================================ the basis zoo

def kuhn_tets(nx, ny, nz):
    idx = lambda i, j, k: (i*(ny+1)+j)*(nz+1)+k
    coords = numpy.array([[i, j, k] for i in range(nx+1) for j in range(ny+1) for k in range(nz+1)], dtype=float)
    simplices = []
    for i in range(nx):
        for j in range(ny):
            for k in range(nz):
                for perm in itertools.permutations(range(3)):
                    q = [i, j, k]; verts = [idx(*q)]
                    for ax in perm:
                        q[ax] += 1; verts.append(idx(*q))
                    simplices.append(sorted(verts))
    return numpy.array(sorted(simplices)), coords


def random_refine(rng, topo, rounds):
    for _ in range(rounds):
        k = rng.randint(1, max(1, len(topo)//2))
        topo = topo.refined_by(sorted(rng.sample(range(len(topo)), k)))
    return topo


class Entry:
    def __init__(self, name, topo, geom, basis, pou, cont, polydeg, args, ndofs=None):
        self.name, self.topo, self.geom, self.basis, self.pou, self.cont, self.polydeg, self.args = name, topo, geom, basis, pou, cont, polydeg, args
        self.ndofs = ndofs      # dimension of the advertised space where a closed formula exists


def zoo(c, mods):
    """generator of (name, constructor thunk) pairs; the thunk returns an Entry.  cont: advertised continuity across *all*
    interfaces (C^cont), -1 = must be discontinuous at interfaces, None = no claim."""
    mesh, function, topology, element, transformseq = mods
    rng = c.rng
    out = []

    def add(name, thunk):
        out.append((name, thunk))

    def structured(nd, per):
        shape = [rng.randint(1, 3 if nd < 3 else 2) for _ in range(nd)]
        periodic = [i for i in range(nd) if per and rng.random() < .6]
        topo, geom = mesh.rectilinear([numpy.linspace(0, rng.randint(1, 3), n+1) for n in shape], periodic=periodic)
        return topo, geom, shape, periodic

    # ---- structured: std / spline / discont / legendre / bernstein / lagrange
    for nd in (1, 2, 3):
        for btype in ('std', 'spline', 'discont', 'bernstein', 'lagrange') + (('legendre',) if nd == 1 else ()):
            def thunk(nd=nd, btype=btype):
                per = btype in ('std', 'spline', 'discont', 'legendre') and rng.random() < .4
                topo, geom, shape, periodic = structured(nd, per)
                p = rng.randint(0 if btype in ('spline', 'discont', 'legendre') else 1, 4 if nd == 1 else 3 if nd == 2 else 2)
                basis = topo.basis(btype, degree=p)
                single_per = any(shape[i] == 1 for i in periodic)
                cont = {'std': 0, 'bernstein': 0, 'lagrange': 0, 'spline': p-1, 'discont': -1, 'legendre': -1}[btype]
                if single_per and cont > 0: cont = 0            # a single periodic element only closes C^0 (as the repo's tests note)
                per1 = lambda i: i in periodic
                ndofs = {'std': lambda: math.prod(n*p + (0 if per1(i) else 1) for i, n in enumerate(shape)) if p else None,
                         'bernstein': lambda: math.prod(n*p + 1 for n in shape), 'lagrange': lambda: math.prod(n*p + 1 for n in shape),
                         'spline': lambda: math.prod((n if per1(i) else n + p) for i, n in enumerate(shape)),
                         'discont': lambda: math.prod(shape) * (p+1)**nd, 'legendre': lambda: shape[0]*(p+1)}[btype]()
                e = Entry('%s%dd' % (btype, nd), topo, geom, basis, btype != 'legendre', cont, None if periodic else p,
                          dict(shape=shape, periodic=periodic, btype=btype, degree=p), ndofs=ndofs)
                e.single_per = single_per
                return e
            add('structured-%s-%dd' % (btype, nd), thunk)

    # ---- unstructured 2-D: triangles / mixed, 3-D: tets
    for variant in ('triangle', 'mixed', 'square'):
        for btype in ('std', 'bernstein', 'lagrange', 'discont') + (('bubble',) if variant == 'triangle' else ()):
            def thunk(variant=variant, btype=btype):
                n = rng.randint(1, 3)
                topo, geom = mesh.unitsquare(n, variant)
                p = rng.randint(0 if btype == 'discont' else 1, 4)
                basis = topo.basis('bubble') if btype == 'bubble' else topo.basis(btype, degree=p)
                return Entry('%s-%s' % (variant, btype), topo, geom, basis, True, -1 if btype == 'discont' else 0, 1 if btype == 'bubble' else p,
                             dict(nelems=n, variant=variant, btype=btype, degree=p))
            add('unitsquare-%s-%s' % (variant, btype), thunk)
    for btype in ('std', 'lagrange', 'discont', 'bubble'):
        def thunk(btype=btype):
            shape = rng.choice([(1, 1, 1), (2, 1, 1), (1, 2, 1)])
            simplices, coords = kuhn_tets(*shape)
            transforms = transformseq.IndexTransforms(3, len(simplices))
            topo = topology.SimplexTopology('X', simplices, transforms, transforms)
            geom = (topo.basis('std', degree=1) * coords.T).sum(-1)
            p = rng.randint(0 if btype == 'discont' else 1, 3)
            basis = topo.basis('bubble') if btype == 'bubble' else topo.basis(btype, degree=p)
            return Entry('tet-' + btype, topo, geom, basis, True, -1 if btype == 'discont' else 0, 1 if btype == 'bubble' else p, dict(shape=shape, btype=btype, degree=p))
        add('tets-' + btype, thunk)
    def thunk():
        n = rng.randint(3, 6)
        simplices = numpy.array([[i, i+1] for i in range(n)])
        transforms = transformseq.IndexTransforms(1, n)
        topo = topology.SimplexTopology('X', simplices, transforms, transforms)
        geom = (topo.basis('std', degree=1) * numpy.arange(n+1.)[numpy.newaxis]).sum(-1)
        p = rng.randint(1, 4)
        return Entry('simplexline-std', topo, geom, topo.basis('std', degree=p), True, 0, p, dict(nelems=n, degree=p))
    add('simplex-line-std', thunk)

    # ---- hierarchical (classical and truncated), random refinement patterns
    for btype in ('h-std', 'th-std', 'h-spline', 'th-spline'):
        for nd in (1, 2):
            def thunk(btype=btype, nd=nd):
                topo, geom, shape, periodic = structured(nd, rng.random() < .3)
                if nd == 1 and shape[0] == 1 and not periodic: pass
                h = random_refine(rng, topo, rng.randint(1, 3 if nd == 1 else 2))
                p = rng.randint(1, 3)
                basis = h.basis(btype, degree=p)
                single_per = bool(periodic)          # coarse levels of a periodic direction may consist of few elements
                cont = 0 if btype.endswith('std') or single_per else p-1
                return Entry(btype + '%dd' % nd, h, geom, basis, btype.startswith('th-'), cont, None if periodic else p,
                             dict(shape=shape, periodic=periodic, btype=btype, degree=p, nelems=len(h)))
            add('hierarchical-%s-%dd' % (btype, nd), thunk)
    for kind in ('h-', 'th-'):
        def thunk(kind=kind):
            # nested refinement (three levels below the base in one place), as in the repo's own hierarchical test set-up
            nd = rng.choice([1, 1, 2])
            topo, geom, shape, periodic = structured(nd, False)
            h = topo
            for _ in range(3):
                h = h.refined_by([len(h)-1] if rng.random() < .5 else [0])
            btype = kind + rng.choice(['std', 'spline']); p = rng.randint(1, 3 if nd == 1 else 2)
            return Entry(btype + '-deep%dd' % nd, h, geom, h.basis(btype, degree=p), btype.startswith('th-'), 0 if btype.endswith('std') else p-1, p,
                         dict(shape=shape, btype=btype, degree=p, nelems=len(h)))
        add('hierarchical-deep-' + kind.strip('-'), thunk)
    for p in range(0, 6):
        def thunk(p=p):
            n = rng.randint(1, 3)
            topo, geom = mesh.rectilinear([n])
            return Entry('legendre-deg%d' % p, topo, geom, topo.basis('legendre', degree=p), False, -1 if n > 1 else None, p, dict(nelems=n, degree=p), ndofs=n*(p+1))
        add('legendre-degree-%d' % p, thunk)
    def thunk():
        topo, geom = mesh.unitsquare(rng.randint(1, 2), rng.choice(['triangle', 'mixed']))
        h = random_refine(rng, topo, rng.randint(1, 2))
        btype = rng.choice(['h-std', 'th-std']); p = rng.randint(1, 3)
        return Entry(btype + '-tri', h, geom, h.basis(btype, degree=p), btype.startswith('th-'), 0, p, dict(btype=btype, degree=p, nelems=len(h)))
    add('hierarchical-triangles', thunk)

    # ---- pruned: trimmed and subset topologies
    def thunk():
        nd = rng.choice([1, 2])
        topo, geom, shape, periodic = structured(nd, False)
        x0 = rng.choice([.3, .6, 1.2, 1.7]) if False else None
        lo = float(topo.sample('uniform', 1).eval(geom[0]).min()); hi = float(topo.sample('uniform', 1).eval(geom[0]).max())
        cut = lo + (hi-lo)*rng.choice([.3, .45, .7])
        tr = topo.trim(geom[0]-cut, maxrefine=rng.randint(0, 2))
        btype = rng.choice(['std', 'spline', 'discont']); p = rng.randint(1, 3)
        basis = tr.basis(btype, degree=p)
        return Entry('trimmed-' + btype, tr, geom, basis, True, None, p, dict(shape=shape, cut=cut, btype=btype, degree=p))
    add('pruned-trimmed', thunk)
    def thunk():
        topo, geom, shape, periodic = structured(rng.choice([1, 2]), rng.random() < .3)
        if len(topo) < 2: topo, geom = mesh.rectilinear([2, 2]); periodic = []; shape = [2, 2]
        keep = [rng.random() < .5 for _ in range(len(topo))]
        if not any(keep): keep[rng.randrange(len(keep))] = True
        sub = topology.SubsetTopology(topo, [r if k else r.empty for r, k in zip(topo.references, keep)])
        btype = rng.choice(['std', 'spline', 'discont']); p = rng.randint(1, 3)
        return Entry('subset-' + btype, sub, geom, sub.basis(btype, degree=p), True, -1 if btype == 'discont' else 0 if btype == 'std' or periodic else p-1,
                     None if periodic else p, dict(shape=shape, periodic=periodic, btype=btype, degree=p, keep=keep))
    add('pruned-subset', thunk)
    def thunk():
        topo, geom = mesh.unitsquare(2, rng.choice(['triangle', 'mixed']))
        keep = [rng.random() < .6 for _ in range(len(topo))]
        if not any(keep): keep[0] = True
        sub = topology.SubsetTopology(topo, [r if k else r.empty for r, k in zip(topo.references, keep)])
        p = rng.randint(1, 3)
        return Entry('subset-tri-std', sub, geom, sub.basis('std', degree=p), True, 0, p, dict(degree=p, keep=keep))
    add('pruned-subset-triangles', thunk)
    def thunk():
        topo, geom = mesh.rectilinear([3, 2])
        h = random_refine(rng, topo, 1)
        lo = 0.; cut = rng.choice([1.3, 1.6, 2.2])
        tr = h.trim(geom[0]-cut, maxrefine=1)
        btype = rng.choice(['h-std', 'th-std', 'th-spline']); p = rng.randint(1, 2)
        return Entry('trimmed-hier-' + btype, tr, geom, tr.basis(btype, degree=p), btype.startswith('th-'), None, p, dict(cut=cut, btype=btype, degree=p))
    add('pruned-trimmed-hierarchical', thunk)

    # ---- multipatch
    def thunk():
        layout = rng.choice(['two', 'L', 'ring1d'])
        if layout == 'two':
            patches = [[0, 1, 2, 3], [1, 4, 3, 5]]; verts = [[0, 0], [1, 0], [0, 1], [1, 1], [2, 0], [2, 1]]
            nel = {None: rng.randint(1, 2), (1, 4): rng.randint(1, 3), (3, 5): None}
            nel[(3, 5)] = nel[(1, 4)]
        elif layout == 'L':
            patches = [[0, 1, 3, 4], [1, 2, 4, 5], [3, 4, 6, 7]]; verts = [[0, 0], [0, 1], [0, 2], [1, 0], [1, 1], [1, 2], [2, 0], [2, 1]]
            nel = rng.randint(1, 2)
        else:
            patches = [[0, 1], [1, 2], [2, 3]]; verts = [[0], [1], [3], [4]]
            nel = {None: rng.randint(1, 3)}
        mp, geom = mesh.multipatch(patches=patches, patchverts=verts, nelems=nel)
        btype = rng.choice(['std', 'spline']); p = rng.randint(1, 3); pc = rng.random() < .7
        kw = {}
        if btype == 'spline' and rng.random() < .4:
            kw['continuity'] = rng.randint(0, p-1)
        basis = mp.basis(btype, degree=p, patchcontinuous=pc, **kw)
        return Entry('multipatch-%s-%s' % (layout, btype), mp, geom, basis, True, 0 if pc else None, p, dict(layout=layout, nelems=repr(nel), btype=btype, degree=p, patchcontinuous=pc, **kw))
    add('multipatch', thunk); add('multipatch-b', thunk); add('multipatch-c', thunk)

    # ---- masked
    def thunk():
        name, inner = rng.choice([o for o in out if not o[0].startswith(('masked', 'product', 'partition'))])
        e = inner()
        if not isinstance(e.basis, function.Basis) or e.basis.ndofs == 0: return None
        n = e.basis.ndofs
        how = rng.choice(['bool', 'ints', 'slice'])
        if how == 'bool':
            mask = numpy.array([rng.random() < .6 for _ in range(n)]); idx = mask
        elif how == 'ints':
            idx = numpy.array(sorted(rng.sample(range(n), rng.randint(0, n))), dtype=int)
        else:
            idx = slice(rng.randint(0, n-1), rng.randint(1, n), rng.choice([1, 2]))
        basis = e.basis[idx]
        if not isinstance(basis, function.Basis): return None
        return Entry('masked(%s)' % e.name, e.topo, e.geom, basis, False, None, None, dict(parent=e.name, parent_args=e.args, index=repr(idx)))
    add('masked', thunk); add('masked-b', thunk); add('masked-c', thunk)

    # ---- discontinuous_at_partition_interfaces
    def thunk():
        name, inner = rng.choice([o for o in out if o[0].startswith(('structured-std', 'structured-spline', 'unitsquare-triangle-std', 'hierarchical-th-spline', 'hierarchical-h-std'))])
        e = inner()
        if not isinstance(e.basis, function.Basis) or e.basis.nelems == 0: return None
        nparts = rng.randint(1, 3)
        parts = [rng.randrange(nparts) for _ in range(e.basis.nelems)]
        basis = e.basis.discontinuous_at_partition_interfaces(parts)
        ent = Entry('partition(%s)' % e.name, e.topo, e.geom, basis, e.pou, None, None, dict(parent=e.name, parent_args=e.args, parts=parts))
        parent = e.basis
        def extra():
            pairs = sorted(set((parts[el], d) for el in range(parent.nelems) for d in canon(parent.get_dofs(el))))
            if basis.ndofs != len(pairs): return ('partition-ndofs', '%d functions for %d distinct (part, parent dof) pairs' % (basis.ndofs, len(pairs)))
            for el in range(parent.nelems):
                want = [pairs.index((parts[el], d)) for d in canon(parent.get_dofs(el))]
                if canon(basis.get_dofs(el)) != want: return ('partition-dofs', 'element %d: dofs %s, expected %s (numbered by part, then parent dof)' % (el, canon(basis.get_dofs(el)), want))
                if not numpy.array_equal(basis.get_coefficients(el), parent.get_coefficients(el)): return ('partition-coeffs', 'element %d: coefficients differ from the parent basis' % el)
            return None
        ent.extra_check = extra
        return ent
    add('partition', thunk)

    # ---- tensor products of bases on product topologies
    def thunk():
        na, nb = rng.randint(1, 3), rng.randint(1, 3)
        pa = rng.random() < .3
        A, ga = mesh.line(na, space='X', periodic=pa); B, gb = mesh.line(nb, space='Y')
        if rng.random() < .4:
            A = random_refine(rng, A, 1); na = None
        topo = A*B
        btype = rng.choice(['std', 'spline', 'discont']); p = [rng.randint(0 if btype != 'std' else 1, 3) for _ in range(2)]
        if na is None and btype != 'discont': btype = rng.choice(['h-std', 'th-std', 'th-spline']); p = [max(1, q) for q in p]
        if btype == 'discont': p = [p[0], p[0]]       # basis_discont only takes an int degree
        basis = topo.basis(btype, degree=p[0] if btype == 'discont' else p)
        fa = A.basis(btype, degree=p[0]); fb = B.basis(btype, degree=p[1])
        cont = -1 if btype == 'discont' else None
        e = Entry('product-' + btype, topo, numpy.stack([ga, gb]), basis, not btype.startswith('h-'), cont, None, dict(na=na, nb=nb, periodicA=pa, btype=btype, degree=p))
        e.factors = (A, B, fa, fb)
        e.single_per = pa and len(A) == 1
        return e
    add('product', thunk)
    return out


def union_violation(c, basis, dofs, supp):
    """the array / mask forms of get_dofs and get_support return the sorted union"""
    rng = c.rng
    if basis.nelems:
        sel = sorted(set(rng.randrange(basis.nelems) for _ in range(rng.randint(1, 3))))
        want = sorted(set(d for e in sel for d in dofs[e]))
        got = canon(basis.get_dofs(numpy.array(sel, dtype=int)))
        mask = numpy.zeros(basis.nelems, dtype=bool); mask[sel] = True
        got2 = canon(basis.get_dofs(mask))
        if got != want or got2 != want:
            known = len(sel) == 1 and sorted(set(got)) == want and sorted(set(got2)) == want
            return (KNOWN_SINGLE if known else 'union', 'get_dofs(%s) = %s / %s, the sorted union of the per-element lists is %s' % (sel, got, got2, want))
    if basis.ndofs:
        sel = sorted(set(rng.randrange(basis.ndofs) for _ in range(rng.randint(1, 3))))
        want = sorted(set(e for d in sel for e in supp[d]))
        got = canon(basis.get_support(numpy.array(sel, dtype=int)))
        mask = numpy.zeros(basis.ndofs, dtype=bool); mask[sel] = True
        got2 = canon(basis.get_support(mask))
        if got != want or got2 != want:
            known = len(sel) == 1 and sorted(set(got)) == want and sorted(set(got2)) == want
            return (KNOWN_SINGLE if known else 'union', 'get_support(%s) = %s / %s, the sorted union of the per-dof lists is %s' % (sel, got, got2, want))
    return None


def continuity_violation(c, function, e):
    if e.cont is None: return None
    try:
        ifaces = e.topo.interfaces
        if len(ifaces) == 0: return None
        smpl = ifaces.sample('gauss', 2)
    except Exception as exc:     # building interfaces is another property's business (C10); continuity is then not checked here
        c.count('continuity:interfaces-unavailable:' + type(exc).__name__); return None
    f = e.basis
    if e.cont < 0:
        J = smpl.eval(function.jump(f))
        # every interface point sees some function jump
        # (a single periodic element is its own neighbour: its functions may legitimately close up)
        if J.size and not getattr(e, 'single_per', False) and abs(J).max(axis=tuple(range(1, J.ndim))).min() < 1e-6:
            return ('forced-continuous', 'a discontinuous basis has no jump at some interface point')
        return None
    for order in range(e.cont+1):
        J = smpl.eval(function.jump(f))
        size = float(abs(J).max()) if J.size else 0.
        c.extra['max_jump'] = max(c.extra.get('max_jump', 0.), size)
        if size >= TOL:
            return ('continuity', 'derivative of order %d jumps by %.3g across an interface (C^%d advertised)' % (order, size, e.cont))
        if order < e.cont:
            f = function.grad(f, e.geom)
    return None


def polyrepro_violation(c, e):
    if e.polydeg is None: return None
    deg = max(2, e.polydeg + 1)
    try:
        smpl = e.topo.sample('bezier', deg + 1)
    except Exception:
        smpl = e.topo.sample('gauss', 2*deg)
    V, x = smpl.eval([e.basis, e.geom])
    target = (x**e.polydeg).sum(-1)
    if V.shape[1] == 0: return None
    if not numpy.isfinite(V).all(): return ('non-finite', 'the basis evaluates to non-finite values')
    sol, res, rank, sv = numpy.linalg.lstsq(V, target, rcond=None)
    err = float(abs(V @ sol - target).max())
    c.extra['max_polyrepro_dev'] = max(c.extra.get('max_polyrepro_dev', 0.), err)
    if err >= 1e-7 * max(1., float(abs(target).max())):
        return ('polynomial', 'x^%d is not in the span of the basis (residual %.3g)' % (e.polydeg, err))
    return None


def zoo_entry_checks(c, function, poly, name, e, replay, pending):
    """all spec-oracle checks of one zoo entry; returns (bad, skip)"""
    bad = None
    if isinstance(e.basis, function.Basis):
        b = e.basis
        c.count('zoo-class:' + type(b).__name__)
        if b.nelems != len(e.topo): bad = ('nelems', 'basis.nelems %d != len(topo) %d' % (b.nelems, len(e.topo)))
        if not bad and e.ndofs is not None and b.ndofs != e.ndofs:
            bad = ('ndofs', 'the basis has %d functions, the space it advertises has dimension %d' % (b.ndofs, e.ndofs))
        if not bad and isinstance(b, function.PrunedBasis) and canon(b._dofmap) != sorted(set(canon(b._dofmap))):
            # root cause: parent.get_dofs(array of one element) is returned unsorted / with duplicates
            c.failing_input(KNOWN_SINGLE, 'PrunedBasis._dofmap %s is not unique and increasing (parent.get_dofs of a single-element array)' % canon(b._dofmap), replay)
            c.count('zoo:skipped-after-known-finding')
            return None, ('known' if c.match_known(KNOWN_SINGLE) else 'violation')
        if not bad:
            dofs, supp = real_basis_tables(b)
            why = inverse_violation(dofs, supp, b.ndofs)
            if why: bad = ('inverse', 'get_support is not the inverse of get_dofs: ' + why)
        if not bad:
            why = union_violation(c, b, dofs, supp)
            if why and why[0] == KNOWN_SINGLE:
                c.failing_input(KNOWN_SINGLE, '%s: %s' % (name, why[1]), replay)
            elif why: bad = why
        if not bad:
            bad = numeric_basis_checks(c, poly, e.topo, b, pou=e.pou, tag='convex')
        if not bad:
            pending.append((e, b, dofs, supp, replay))
    else:
        bad = product_violation(c, e)
    if not bad and getattr(e, 'extra_check', None): bad = e.extra_check()
    if not bad: bad = continuity_violation(c, function, e)
    if not bad: bad = polyrepro_violation(c, e)
    return bad, False


def stream_zoo(c, mods, poly, rounds):
    mesh, function, topology, element, transformseq = mods
    entries = zoo(c, mods)
    ndis = 0; nexp = 0
    pending = []   # model requests for the generic bookkeeping classes
    for rnd in range(rounds):
        for name, thunk in entries:
            state = c.rng.getstate()
            try:
                e = thunk()
            except Exception as exc:
                c.count('zoo-construction-raised:%s:%s' % (name, type(exc).__name__))
                c.extra.setdefault('construction_errors', {}).setdefault(name, '%s: %s' % (type(exc).__name__, str(exc)[:200]))
                ndis += 1; nexp += 1
                c.failing_input('%s:construction-raises' % name.split('-')[0], '%s: constructing the topology / basis raises %s: %s' % (name, type(exc).__name__, str(exc)[:200]),
                                dict(op='zoo', entry=name, rng_state=repr(state)[:200], exception=traceback.format_exc()[-1500:]))
                continue
            if e is None: continue
            c.count('zoo:' + name)
            replay = dict(op='zoo', entry=name, detail=e.name, args=e.args)
            c.case(('zoo', name, repr(e.args)), nontrivial=True)
            c.sample(dict(entry=name, args=e.args, ndofs=int(e.basis.shape[0]), nelems=len(e.topo)), limit=6)
            try:
                bad, skip = zoo_entry_checks(c, function, poly, name, e, replay, pending)
            except Exception as exc:
                bad, skip = ('exception', 'checking the basis raises %s: %s' % (type(exc).__name__, str(exc)[:200])), False
                replay['exception'] = traceback.format_exc()[-1500:]
            if skip:
                ndis += skip == 'violation'; continue
            nexp += 1
            if bad:
                ndis += 1
                c.failing_input('%s:%s' % (name.split('-')[0], bad[0]), '%s (%s): %s' % (name, e.name, bad[1]), replay)
            else:
                c.traces += 1
    c.obligation('oracle:basis-zoo (eval=coefficients, inverse maps, union forms, partition of unity, continuity, polynomial reproduction)', ndis == 0, 'exploration', '%d bases' % nexp)
    yield from stream_generic_models(c, function, pending)


def product_violation(c, e):
    """tensor product of bases on a product topology: values are the outer product of the factor bases; partition of unity"""
    A, B, fa, fb = e.factors
    npts = 2
    ielems = numpy.repeat(numpy.arange(len(e.topo)), npts)
    coords = numpy.array([[c.rng.randint(1, 15)/16, c.rng.randint(1, 15)/16] for _ in ielems])
    vals = e.topo._sample(ielems, coords).eval(e.basis)
    ia, ib = numpy.divmod(ielems, len(B))
    va = A._sample(ia, coords[:, :1]).eval(fa); vb = B._sample(ib, coords[:, 1:]).eval(fb)
    want = (va[:, :, None]*vb[:, None, :]).reshape(len(ielems), -1)
    if want.shape != vals.shape: return ('shape', 'product basis has %d functions, the factors %d x %d' % (vals.shape[1], va.shape[1], vb.shape[1]))
    err = float(abs(want-vals).max()) if vals.size else 0.
    if err >= TOL: return ('values', 'product basis deviates %.3g from the outer product of its factors' % err)
    if e.pou and vals.size and abs(vals.sum(1)-1).max() >= TOL: return ('pou', 'product basis sums to 1%+.3g' % (vals.sum(1)-1)[numpy.argmax(abs(vals.sum(1)-1))])
    c.count('numeric:product')
    return None


def stream_generic_models(c, function, pending):
    """(M) Plain (_computed_support) / Masked / Pruned / Discont / Legendre bookkeeping of real bases versus the model"""
    lines = []; meta = []
    for e, b, dofs, supp, replay in pending:
        if isinstance(b, function.PlainBasis):
            lines.append('plain|%d|%s' % (b.ndofs, rows(dofs))); meta.append(('plain', e, b, dofs, supp, replay, None))
        elif isinstance(b, function.DiscontBasis):
            sizes = [len(d) for d in dofs]
            lines.append('discont|' + ints(sizes)); meta.append(('discont', e, b, dofs, supp, replay, None))
        elif isinstance(b, function.LegendreBasis):
            lines.append('legendre|%d|%d' % (b._degree, b.nelems)); meta.append(('legendre', e, b, dofs, supp, replay, None))
        elif isinstance(b, function.MaskedBasis):
            pd, ps = real_basis_tables(b._parent)
            lines.append('masked|%d|%s|%s' % (b._parent.ndofs, rows(pd), ints(b._indices))); meta.append(('masked', e, b, dofs, supp, replay, pd))
        elif isinstance(b, function.PrunedBasis):
            pd, ps = real_basis_tables(b._parent)
            lines.append('pruned|%d|%s|%s' % (b._parent.ndofs, rows(pd), ints(b._transmap))); meta.append(('pruned', e, b, dofs, supp, replay, pd))
    ans = yield lines
    ndis = {}
    for (kind, e, b, dofs, supp, replay, pd), a in zip(meta, ans):
        f = a.split('|'); ok = f[0] == 'ok'
        c.count('model:' + kind); c.case(('generic', kind, replay['entry'], repr(replay['args'])), nontrivial=True)
        if ok and kind == 'plain':
            ok = parse_rows(f[1]) == supp
        elif ok and kind == 'discont':
            ok = int(f[1]) == b.ndofs and parse_rows(f[2]) == dofs and parse_rows(f[3]) == supp
        elif ok and kind == 'legendre':
            co = b.get_coefficients(0) if b.nelems else None
            ok = int(f[1]) == b.ndofs and parse_rows(f[2]) == dofs and parse_rows(f[3]) == supp and \
                (co is None or [[int(x) for x in r] for r in co] == [[int(w) for w in r.split()] for r in f[4].split(';')])
        elif ok and kind == 'masked':
            ok = int(f[1]) == b.ndofs and parse_rows(f[2]) == dofs and parse_rows(f[4]) == supp
            for el, sel in enumerate(parse_rows(f[3])):
                if ok and not numpy.array_equal(b.get_coefficients(el), b._parent.get_coefficients(el)[sel]): ok = False
        elif ok and kind == 'pruned':
            ok = int(f[1]) == b.ndofs and [int(w) for w in f[2].split()] == canon(b._dofmap) and parse_rows(f[3]) == dofs and parse_rows(f[4]) == supp
            for el in range(b.nelems):
                if ok and not numpy.array_equal(b.get_coefficients(el), b._parent.get_coefficients(int(b._transmap[el]))): ok = False
        if not ok:
            ndis[kind] = ndis.get(kind, 0) + 1
            # the zoo oracle already established that the real tables satisfy the property: so this is a model/code divergence
            c.broken_no_input('corr:' + kind, 'model and implementation disagree on the %s bookkeeping' % kind, dict(replay, model=a[:2000], dofs=dofs, supp=supp))
    for kind, clsname in (('plain', 'PlainBasis._computed_support'), ('discont', 'DiscontBasis'), ('legendre', 'LegendreBasis'), ('masked', 'MaskedBasis'), ('pruned', 'PrunedBasis')):
        n = sum(1 for m in meta if m[0] == kind)
        c.obligation('corr:' + clsname, ndis.get(kind, 0) == 0 and n > 0, 'correspondence', '%d real bases' % n)


# ================================================================================================ (X) generated tables, Bernstein values

def bernstein_tables(element):
    """coefficient tables of the real `get_poly_coeffs('bernstein')` for simplices (dims 1-3) and tensor cells"""
    tabs = []
    line = element.getsimplex(1)
    refs = [('simplex%d' % d, element.getsimplex(d), range(0, 5 if d < 3 else 4)) for d in (1, 2, 3)] + [('square', line**2, range(0, 4)), ('cube', line**3, range(0, 3))]
    for name, ref, degs in refs:
        for deg in degs:
            tabs.append((name, deg, numpy.asarray(ref.get_poly_coeffs('bernstein', degree=deg), dtype=float)))
    return tabs


def generated_text(tabs):
    out = ['/-! GENERATED by harness/nvh/c12.py from /repo (`Reference.get_poly_coeffs("bernstein", degree)`): do not edit. -/',
           'namespace NutilsVerif.C12.Generated', '',
           '/-- (reference, degree, coefficient rows in nutils_poly layout) -/',
           'def bernsteinTables : List (String × Nat × List (List Int)) := [']
    items = []
    for name, deg, co in tabs:
        rows_ = ', '.join('[' + ', '.join(str(int(x)) for x in r) + ']' for r in co)
        items.append('  ("%s", %d, [%s])' % (name, deg, rows_))
    out.append(',\n'.join(items))
    out += [']', '', 'end NutilsVerif.C12.Generated', '']
    return '\n'.join(out)


def write_generated(c, element):
    tabs = bernstein_tables(element)
    ok_int = all(float(x).is_integer() for _, _, co in tabs for x in co.ravel())
    bad = []
    for name, deg, co in tabs:
        sums = co.sum(0)
        if abs(sums[-1]-1) >= TOL or (len(sums) > 1 and abs(sums[:-1]).max() >= TOL):
            bad.append((name, deg))
    for name, deg in bad:
        c.failing_input('bernstein-table:pou', 'the Bernstein coefficient table of %s degree %d does not sum to the constant 1' % (name, deg), dict(op='get_poly_coeffs', reference=name, degree=deg))
    if ok_int:
        c.write_generated('C12.lean', generated_text(tabs))
    else:
        c.count('generated:non-integer-table')
    c.extra['generated_tables'] = len(tabs)
    return ok_int and not bad


def stream_bernstein(c, element):
    """(V) exact: rows of the real 1-D Bernstein coefficient table evaluated at dyadic points in Q equal C(n,i) x^i (1-x)^(n-i)
    computed by the Lean model (about which `bernstein_pou` is proved)"""
    line = element.getsimplex(1)
    lines = []; meta = []
    for n in range(0, 9):
        try:
            co = numpy.asarray(line.get_poly_coeffs('bernstein', degree=n))
        except Exception as exc:
            c.failing_input('bernstein-table:exception', 'get_poly_coeffs("bernstein", degree=%d) raises %s' % (n, type(exc).__name__), dict(op='get_poly_coeffs', degree=n)); continue
        for x in sorted(set(Fraction(c.rng.randint(0, 16), 16) for _ in range(3))):
            lines.append('bernstein|%d|%s' % (n, frac_str(x))); meta.append((n, x, co))
    ans = yield lines
    ndis = 0
    for (n, x, co), a in zip(meta, ans):
        want = parse_fracs(a[3:])
        got = [polyval_desc([Fraction(float(t)) for t in row], x) for row in co]
        c.case(('bernstein', n, x), nontrivial=n > 0)
        if got != want:
            ndis += 1
            c.failing_input('bernstein-table:values', 'Bernstein coefficient table of degree %d does not describe C(n,i) x^i (1-x)^(n-i) at x=%s' % (n, x), dict(op='get_poly_coeffs', degree=n, x=str(x), got=[str(g) for g in got], want=[str(w) for w in want]))
    c.obligation('values:bernstein-table-vs-model(Q)', ndis == 0, 'validation', '%d exact evaluations' % len(lines))


def known_defect_regressions(c, mesh):
    """corpus: the two inputs of the finding `int_or_vec:single-element-array-not-unique` (fixed by a fix: commit)"""
    topo, geom = mesh.rectilinear([2], periodic=[0])
    b = topo.basis('spline', degree=3)
    got = canon(b.get_dofs(numpy.array([1])))
    if got != [0, 1]:
        c.failing_input(KNOWN_SINGLE, 'get_dofs(array([1])) = %s, documented: the unique increasing array [0, 1]' % got, dict(op='get_dofs-array', mesh='rectilinear([2], periodic=[0])', degree=3, ielem=[1]))
    sub = topo - topo[:1]
    pb = sub.basis('spline', degree=3)
    dofs, supp = real_basis_tables(pb)
    why = inverse_violation(dofs, supp, pb.ndofs)
    if why:
        c.failing_input(KNOWN_SINGLE, 'PrunedBasis on a one-element subset of a periodic topology: ' + why, dict(op='pruned-single-element', mesh='rectilinear([2], periodic=[0]) - [:1]', degree=3))
    c.case(('corpus', 'single-element-array'), nontrivial=True)
    c.obligation('corpus:single-element-array-forms', got == [0, 1] and not why, 'exploration')


# ================================================================================================ entry point

def run_streams(c, gens):
    """streams are generators that yield lists of model request lines and receive the answers; all streams are advanced in
    lockstep so that one Lean driver process serves one round of every stream"""
    live = []
    for name, g in gens:
        try:
            live.append((name, g, next(g)))
            c.log('stream %s: real-code phase done' % name)
        except StopIteration:
            pass
    while live:
        lines = [l for _, _, ls in live for l in ls]
        ans = c.model(lines)
        c.log('model answered %d requests' % len(lines))
        nxt = []; pos = 0
        for name, g, ls in live:
            mine = ans[pos:pos+len(ls)]; pos += len(ls)
            try:
                nxt.append((name, g, g.send(mine)))
            except StopIteration:
                pass
        live = nxt


@contextlib.contextmanager
def capture_merge(util, captured):
    orig = util.merge_index_map
    def wrapper(nin, merge_sets, condense=True):
        sets = [[int(i) for i in s] for s in merge_sets]
        if condense and len(captured) < 400 and int(nin) <= 400:
            captured.append((int(nin), sets))
        return orig(nin, sets, condense)
    util.merge_index_map = wrapper
    try:
        yield
    finally:
        util.merge_index_map = orig


def run(c):
    from nutils import mesh, function, topology, element, transformseq
    from nutils import _util as util
    import nutils_poly as poly
    c.rule = ('merge sets: random index lists over n<=14 incl. negative (wrapping), out-of-range and empty sets, plus every merge request issued by '
              'real basis constructions; spline requests: 1-3 dimensions x degree 0..4 x continuity x explicit/coarse/default knot multiplicities x '
              'periodic x knot values x removedofs, incl. inadmissible ones; basis zoo: every basis type on small random meshes (see distribution); '
              'periodic structured bases: every basis type x shapes with 1-3 elements per axis x all subsets of periodic axes (1-D complete); '
              'multipatch splines: random layouts x per-edge-family nelems / knot multiplicities / knot values on randomly oriented edge keys; '
              'basis[index]: all start/stop/step combinations around 0, +-1, +-n, out of range, steps 1,2,3,n,n+1,negative,0, masks, index arrays on 14 basis kinds; '
              'a case is non-trivial when a basis was actually built / a merge set has >= 2 members; distinct by full parameters')
    c.assumptions += ['numeric streams compare floats with tolerance: deviation >= 1e-8 is a failing input (expected level 1e-12)',
                      'nutils_poly (third-party, not anchored) is trusted to evaluate coefficient tables',
                      'the while-loop of basis_spline that never terminates for a length-1 multiplicity vector is not executed (model answers "hang")']
    import warnings as _w
    _w.filterwarnings('ignore')
    try:
        gen_ok = write_generated(c, element)
    except Exception as exc:
        gen_ok = True
        c.failing_input('bernstein-table:exception', 'get_poly_coeffs("bernstein") raises %s: %s' % (type(exc).__name__, str(exc)[:200]), dict(op='get_poly_coeffs', exception=traceback.format_exc()[-1500:]))
    broken = c.build_and_audit()
    c.log('proofs built and audited')
    if not gen_ok and not c.violations:
        broken.append('generated Bernstein tables are not integer valued: bernstein_table_pou no longer speaks about the real tables')
    try:
        known_defect_regressions(c, mesh)
    except Exception as exc:
        c.failing_input('corpus:exception', 'the regression corpus (periodic cubic spline on 2 elements, one-element subset) raises %s: %s' % (type(exc).__name__, str(exc)[:200]), dict(op='corpus', exception=traceback.format_exc()[-1500:]))
    quick = c.tier == 'quick'
    mods = (mesh, function, topology, element, transformseq)
    captured = []

    def zoo_stream():
        with capture_merge(util, captured):
            g = stream_zoo(c, mods, poly, 2 if quick else 40)
            first = next(g)
        ans = yield first
        try:
            g.send(ans)
        except StopIteration:
            pass

    import sys
    H = sys.modules[__name__]

    def plain(fn, *args):
        # a stream without model requests (runs in its turn so that the random sequences of the other streams do not depend on it)
        fn(*args)
        return
        yield

    c12x.known_c0_edge_regression(c, mesh)
    run_streams(c, [('zoo', zoo_stream()),
                    ('spline', stream_spline(c, mesh, function, poly, 80 if quick else 3000)),
                    ('_basis_spline', stream_vs(c, mesh, poly, 60 if quick else 2000)),
                    ('bernstein', stream_bernstein(c, element)),
                    ('merge', stream_merge(c, util, 300 if quick else 10000, captured)),
                    ('periodic', plain(c12x.stream_periodic, c, H, mods, poly)),
                    ('multipatch-spline', c12x.stream_multipatch_spline(c, H, mods, poly, 50 if quick else 1500)),
                    ('slices', c12x.stream_slices(c, H, mods, 1 if quick else 12))])
    for b in broken:
        c.broken_no_input('proof', b, dict(detail=b))
