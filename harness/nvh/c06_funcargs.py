"""C06, stream `funcargs`: the announced-arguments table of user-level function arrays under the operations that rewrite it.

`function.Array.arguments` is bookkeeping done by hand in every constructor (`_Replace`, `_Derivative`, `_Wrapper`, `_Integral`, ...), next to
the lowering that decides what evaluation really needs.  This stream generates random *programs* over a pool of argument-dependent arrays

    Argument / field  ->  + * sin sum [] ...  ->  replace_arguments | Array.replace | derivative | linearize | integral | bind

in which

* the argument names of one round are drawn from ALL strings of length 1..3 over a two- or three-letter alphabet, so names are
  substrings / prefixes / suffixes of each other and of the textual specifications,
* every operation that takes an argument specification is called with every documented spelling of it (string 'u:v,p:q', dict, tuple of
  'u:v' strings, list of pairs of names, pairs of Argument objects / arrays, mixed; names absent from the array; simultaneous swaps;
  replacement by expressions in other arguments),

and tracks, independently of nutils, the argument table each array must announce (set algebra on names:
replace = (args(f) - replaced) U args(replacements of the names present), derivative / linearize = union, ...).

Verdicts.  The specification oracle is the property itself: an array is evaluated with EXACTLY the announced arguments (must succeed whenever
evaluation with the whole universe of arguments succeeds, KeyError = an unannounced dependency), the delivered shape / dtype is compared
with the announced one, and all unannounced arguments are perturbed (value must not change).  A failure is a failing input
`function-metadata-wrong:<Class>` attributed to the first array of the program that fails (arrays built on a failing one are skipped).
An announced table that differs from the tracked one without any such failure (e.g. a stale superset) is a broken correspondence
`corr:func:arguments:<Class>`.
"""
import itertools, collections
import numpy


def _join(*tables):
    out = {}
    for t in tables:
        for n, sd in t.items():
            assert out.setdefault(n, sd) == sd, 'generator produced an inconsistent argument table'
    return out


class Entry:
    __slots__ = 'arr', 'exp', 'text', 'deps', 'op'

    def __init__(self, arr, exp, text, deps=(), op='leaf'):
        self.arr, self.exp, self.text, self.deps, self.op = arr, exp, text, tuple(deps), op


class Round:
    """one random program; everything random comes from `rng`"""

    def __init__(self, c, rng, function, mesh, with_topo):
        self.c, self.rng, self.function = c, rng, function
        nletters = rng.choice([2, 2, 2, 3])
        self.alpha = rng.sample('abuvtpdx', nletters) + (['0'] if rng.random() < .3 else [])
        allnames = [''.join(t) for k in (1, 2, 3) for t in itertools.product(self.alpha, repeat=k) if not t[0].isdigit()]
        self.topo = self.geom = self.basis = self.smp = None
        shapes = rng.sample([(), (2,), (3,), (2, 2)], 2)
        if with_topo:
            self.topo, self.geom = mesh.line(rng.randint(1, 2), space='X')
            self.basis = self.topo.basis('std', degree=rng.choice([1, 2]))
            self.smp = self.topo.sample('gauss', 2)
            shapes = [(len(self.basis),), rng.choice([(), (2,)])]
        self.table = {}
        for n in rng.sample(allnames, min(len(allnames), rng.randint(4, 7))):
            self.table[n] = (shapes[0] if rng.random() < .7 else shapes[1], int if rng.random() < .12 else float)
        self.fresh = [n for n in allnames if n not in self.table]
        rng.shuffle(self.fresh)
        self.pool = []
        self.lines = []
        self.model_reqs = []

    # ------------------------------------------------------------------ helpers
    def add(self, arr, exp, text, deps=(), op='leaf'):
        if not isinstance(arr, self.function.Array) or arr.ndim > 4 or int(numpy.prod(arr.shape or (1,))) > 300:
            return None
        e = Entry(arr, exp, 'v%d = %s' % (len(self.pool), text), deps, op)
        self.pool.append(e)
        self.c.count('funcargs-op:' + op)
        return e

    def ref(self, e):
        return 'v%d' % self.pool.index(e)

    def pick(self, pred=lambda e: True):
        cands = [e for e in self.pool if pred(e)]
        return self.rng.choice(cands) if cands else None

    def argobj(self, n, sd=None):
        s, d = sd or self.table[n]
        return self.function.Argument(n, s, d)

    def target_name(self, sd, avoid=(), near=()):
        """a name that may be given the shape/dtype `sd`: an existing name with the same table entry, or a fresh one (entered in the table).
        Names that contain / are contained in one of the names `near` (the arguments of the array being rewritten) are preferred."""
        rng = self.rng
        related = lambda n: any(m != n and (m in n or n in m) for m in near)
        same = [n for n, v in self.table.items() if v == sd and n not in avoid]
        fresh = self.fresh
        if rng.random() < .6:
            same = [n for n in same if related(n)] or same
            fresh = [n for n in fresh if related(n)] or fresh
        if same and (rng.random() < .5 or not fresh):
            return rng.choice(same)
        if not fresh:
            return None
        n = rng.choice(fresh)
        self.fresh.remove(n)
        self.table[n] = sd
        return n

    # ------------------------------------------------------------------ leaves and plain operations
    def leaf(self):
        rng, F = self.rng, self.function
        n = rng.choice(list(self.table))
        s, d = self.table[n]
        if self.basis is not None and s == (len(self.basis),) and d == float and rng.random() < .6:
            extra = rng.choice([(), (), (2,)])
            if extra:   # a vector field: the argument is (nbasis, 2); only possible for a name that is not in the table yet
                m = self.fresh.pop() if self.fresh else None
                if m is not None:
                    self.table[m] = (s + extra, float)
                    return self.add(F.field(m, self.basis, shape=extra), {m: self.table[m]}, 'field(%r, basis, shape=%r)' % (m, extra), op='field')
            return self.add(F.field(n, self.basis), {n: (s, d)}, 'field(%r, basis)' % n, op='field')
        if s and d == float and rng.random() < .35:
            k = rng.randint(1, 2)
            mat = numpy.array([[rng.randint(-2, 2) for _ in range(k)] for _ in range(s[0])], dtype=float)
            return self.add(F.field(n, mat, shape=s[1:]), {n: (s, d)}, 'field(%r, const%r, shape=%r)' % (n, mat.shape, s[1:]), op='field')
        if rng.random() < .3:
            return self.add(F.field(n, shape=s, dtype=d), {n: (s, d)}, 'field(%r, shape=%r, dtype=%s)' % (n, s, d.__name__), op='field')
        return self.add(self.argobj(n), {n: (s, d)}, 'Argument(%r, %r, %s)' % (n, s, d.__name__), op='argument')

    def plain(self, k=None):
        rng = self.rng
        a = self.pick()
        k = k or rng.choice(['add', 'mul', 'mul', 'sin', 'sum', 'index', 'scale', 'geom', 'combine', 'combine'])
        if k == 'combine':      # an array that depends on many arguments: sum / product of everything compatible with a
            others = [e for e in self.pool if e is not a and (e.arr.shape == a.arr.shape or e.arr.ndim == 0) and set(e.exp) - set(a.exp)]
            others = rng.sample(others, min(len(others), rng.randint(1, 3)))
            if not others: return
            r, txt = a.arr, self.ref(a)
            for o in others:
                op = rng.choice('+*')
                r = r + o.arr if op == '+' else r * o.arr
                txt = '(%s %s %s)' % (txt, op, self.ref(o))
            return self.add(r, _join(a.exp, *[o.exp for o in others]), txt, [a] + others, k)
        if k in ('add', 'mul'):
            b = self.pick(lambda e: (e.arr.shape == a.arr.shape or e.arr.ndim == 0 or a.arr.ndim == 0) and set(e.exp) != set(a.exp)) \
                or self.pick(lambda e: e.arr.shape == a.arr.shape or e.arr.ndim == 0 or a.arr.ndim == 0)
            if b is None: return
            r = a.arr + b.arr if k == 'add' else a.arr * b.arr
            return self.add(r, _join(a.exp, b.exp), '%s %s %s' % (self.ref(a), '+' if k == 'add' else '*', self.ref(b)), (a, b), k)
        if k == 'sin':
            if a.arr.dtype != float: return
            return self.add(numpy.sin(a.arr), a.exp, 'sin(%s)' % self.ref(a), (a,), k)
        if k == 'sum':
            if not a.arr.ndim: return
            ax = rng.randrange(a.arr.ndim)
            return self.add(numpy.sum(a.arr, axis=ax), a.exp, 'sum(%s, %d)' % (self.ref(a), ax), (a,), k)
        if k == 'index':
            if not a.arr.ndim or not a.arr.shape[0]: return
            i = rng.randrange(a.arr.shape[0])
            return self.add(a.arr[i], a.exp, '%s[%d]' % (self.ref(a), i), (a,), k)
        if k == 'scale':
            return self.add(a.arr * 2 + 1, a.exp, '%s * 2 + 1' % self.ref(a), (a,), k)
        if k == 'geom' and self.geom is not None:
            return self.add(a.arr * self.geom, a.exp, '%s * x' % self.ref(a), (a,), k)

    # ------------------------------------------------------------------ argument specifications in every spelling
    def spell(self, items):
        """items: [(key name, key (shape,dtype) or None if absent from the array, target)], target = ('name', n) | ('entry', e).
        Returns (specification object, text)."""
        rng, F = self.rng, self.function
        allnames = all(t[0] == 'name' for _, _, t in items)
        def val(key, sd, t, allow_str=True):
            if t[0] == 'name':
                if allow_str and rng.random() < .6: return t[1], repr(t[1])
                sd = sd or self.table[t[1]]
                return self.argobj(t[1], sd), 'Argument(%r, %r, %s)' % (t[1], sd[0], sd[1].__name__)
            return t[1].arr, self.ref(t[1])
        def keyobj(key, sd):
            if sd is not None and rng.random() < .5:
                return self.argobj(key, sd), 'Argument(%r, %r, %s)' % (key, sd[0], sd[1].__name__)
            return key, repr(key)
        forms = ['dict', 'pairs', 'objpairs', 'mixed'] + (['string', 'string', 'strtuple', 'strlist'] if allnames else [])
        form = rng.choice(forms)
        self.c.count('funcargs-spelling:' + form)
        if form == 'string':
            s = ','.join('%s:%s' % (k, t[1]) for k, _, t in items)
            return s, repr(s)
        if form in ('strtuple', 'strlist'):
            seq = ['%s:%s' % (k, t[1]) for k, _, t in items]
            seq = tuple(seq) if form == 'strtuple' else seq
            return seq, repr(seq)
        if form == 'dict':
            vs = [val(k, sd, t) for k, sd, t in items]
            return {k: v[0] for (k, _, _), v in zip(items, vs)}, '{%s}' % ', '.join('%r: %s' % (k, v[1]) for (k, _, _), v in zip(items, vs))
        spec, txt = [], []
        for k, sd, t in items:
            if form == 'mixed' and t[0] == 'name' and rng.random() < .5:
                spec.append('%s:%s' % (k, t[1])); txt.append(repr(spec[-1])); continue
            ko, kt = keyobj(k, sd) if form != 'pairs' else (k, repr(k))
            vo, vt = val(k, sd, t, allow_str=form != 'objpairs')
            spec.append((ko, vo)); txt.append('(%s, %s)' % (kt, vt))
        if rng.random() < .5:
            return tuple(spec), '(%s,)' % ', '.join(txt)
        return spec, '[%s]' % ', '.join(txt)

    def mapping(self, f, float_keys_only=False, expr_targets=True):
        """a random logical mapping for array f: keys mostly present in f, targets names (existing / fresh) or pool expressions"""
        rng = self.rng
        present = [n for n, (s, d) in f.exp.items() if d == float or not float_keys_only]
        if not present: return None
        nkeys = min(len(present), rng.choice([1, 1, 2, 3]))
        if nkeys == len(f.exp) > 1 and rng.random() < .8: nkeys -= 1        # mostly leave something unreplaced
        keys = rng.sample(present, nkeys)
        absent = [n for n in self.table if n not in f.exp]
        if absent and rng.random() < .3:
            keys.insert(rng.randrange(len(keys) + 1), rng.choice(absent))
        items = []
        for k in keys:
            sd = f.exp.get(k)
            tsd = sd or self.table[k]
            g = self.pick(lambda e: not e.arr.spaces and (e.arr.shape, e.arr.dtype) == tsd) if expr_targets and rng.random() < .35 else None
            if g is not None:
                items.append((k, sd, ('entry', g)))
            else:
                m = self.target_name(tsd, avoid=() if rng.random() < .5 else (k,), near=list(f.exp))
                if m is None: return None
                items.append((k, sd, ('name', m)))
        return items

    def after_replace(self, f, items):
        exp = {n: sd for n, sd in f.exp.items() if not any(k == n for k, _, _ in items)}
        news = [({t[1]: sd} if t[0] == 'name' else t[1].exp) for k, sd, t in items if sd is not None]
        # a name target takes the shape of the key; it may collide with a different table entry of an unreplaced argument only if the
        # generator made a mistake (target_name enforces equal entries)
        return _join(exp, *news)

    def relations(self, f, items, spec):
        """distribution counters: how the names that stay are related to the names (and the text) of the specification"""
        keys = [k for k, _, _ in items]
        stay = [n for n in f.exp if n not in keys]
        words = keys + [t[1] for _, _, t in items if t[0] == 'name']
        self.c.count('funcargs-replace-unreplaced-args:%d' % min(len(stay), 3))
        if any(n != w and n in w for n in stay for w in words): self.c.count('funcargs-replace-unreplaced-name-inside-spec-name')
        if any(n != w and w in n for n in stay for w in words): self.c.count('funcargs-replace-spec-name-inside-unreplaced-name')
        if isinstance(spec, str) and any(n in spec for n in stay): self.c.count('funcargs-replace-unreplaced-name-inside-spec-string')

    def pick_rich(self, pred):
        """like pick, weighted by the number of arguments the array depends on"""
        cands = [e for e in self.pool if pred(e)]
        return self.rng.choices(cands, weights=[len(e.exp) ** 2 for e in cands])[0] if cands else None

    def replace(self):
        f = self.pick_rich(lambda e: e.exp)
        if f is None: return
        items = self.mapping(f)
        if not items: return
        spec, txt = self.spell(items)
        self.relations(f, items, spec)
        if self.rng.random() < .5:
            r = self.function.replace_arguments(f.arr, spec); text = 'replace_arguments(%s, %s)' % (self.ref(f), txt)
        else:
            r = f.arr.replace(spec); text = '%s.replace(%s)' % (self.ref(f), txt)
        deps = [f] + [t[1] for k, sd, t in items if t[0] == 'entry']
        e = self.add(r, self.after_replace(f, items), text, deps, 'replace')
        if e is not None:   # the same step for the Lean model of `_Replace.__init__` (Model/C06Func.lean: announceReplace)
            self.model_reqs.append((e, 'fargs|%s|%s|%s' % (' '.join(f.exp), ' '.join(k for k, _, _ in items),
                                                          ';'.join(t[1] if t[0] == 'name' else ' '.join(t[1].exp) for _, _, t in items))))
        return e

    def derivative(self):
        rng = self.rng
        f = self.pick(lambda e: e.arr.dtype == float)
        if f is None: return
        present = [n for n, (s, d) in f.exp.items() if d == float]
        if present and rng.random() < .85:
            n = rng.choice(present); sd = f.exp[n]
            if rng.random() < .5:
                var, txt = n, repr(n)
            else:
                var, txt = self.argobj(n, sd), 'Argument(%r, %r, %s)' % (n, sd[0], sd[1].__name__)
        else:   # derivative to an argument the array does not depend on: zeros, the target is announced all the same
            cands = [n for n, (s, d) in self.table.items() if n not in f.exp and d == float]
            if not cands: return
            n = rng.choice(cands); sd = self.table[n]
            var, txt = self.argobj(n, sd), 'Argument(%r, %r, %s)' % (n, sd[0], sd[1].__name__)
        return self.add(self.function.derivative(f.arr, var), _join(f.exp, {n: sd}), 'derivative(%s, %s)' % (self.ref(f), txt), (f,), 'derivative')

    def linearize(self):
        f = self.pick_rich(lambda e: e.arr.dtype == float and any(d == float for s, d in e.exp.values()))
        if f is None: return
        items = self.mapping(f, float_keys_only=True)
        if not items or not any(sd is not None for k, sd, t in items): return
        if any(sd is None and self.table[k][1] != float for k, sd, t in items): return
        spec, txt = self.spell(items)
        exp = _join(f.exp, *[({t[1]: sd} if t[0] == 'name' else t[1].exp) for k, sd, t in items if sd is not None])
        deps = [f] + [t[1] for k, sd, t in items if t[0] == 'entry']
        return self.add(self.function.linearize(f.arr, spec), exp, 'linearize(%s, %s)' % (self.ref(f), txt), deps, 'linearize')

    def close(self):
        """integral / bound evaluation over the sample of a space-dependent array: a space-free array with the same arguments"""
        f = self.pick(lambda e: e.arr.spaces)
        if f is None or self.smp is None: return
        if f.arr.dtype == float and self.rng.random() < .6:
            J = self.function.J(self.geom)
            return self.add(self.smp.integral(f.arr * J), f.exp, 'smp.integral(%s * J(x))' % self.ref(f), (f,), 'integral')
        return self.add(self.smp.bind(f.arr), f.exp, 'smp.bind(%s)' % self.ref(f), (f,), 'bind')

    def build(self, nsteps):
        rng = self.rng
        for _ in range(rng.randint(3, 5)):
            self.leaf()
        for _ in range(rng.randint(1, 3)):
            try: self.plain('combine')
            except Exception as e: self.c.count('funcargs-build-exc:combine:' + type(e).__name__)
        for _ in range(nsteps):
            k = rng.choice(['leaf', 'plain', 'plain', 'plain', 'replace', 'replace', 'replace', 'derivative', 'linearize', 'close'])
            try:
                {'leaf': self.leaf, 'plain': self.plain, 'replace': self.replace, 'derivative': self.derivative, 'linearize': self.linearize, 'close': self.close}[k]()
            except Exception as e:
                # every operation is generated inside its documented domain: an exception here is recorded and judged by the caller
                self.c.count('funcargs-build-exc:%s:%s' % (k, type(e).__name__))
                self.lines.append('# %s raised %s: %s' % (k, type(e).__name__, str(e)[:120]))
                self.build_exc = getattr(self, 'build_exc', []) + [(k, type(e).__name__, str(e)[:200])]

    def values(self):
        rng = self.rng
        def arr(s, d):
            n = int(numpy.prod(s or (1,)))
            if d == int: return numpy.array([rng.randint(-3, 3) for _ in range(n)], dtype=int).reshape(s)
            return numpy.array([rng.randint(-8, 8) / 4 for _ in range(n)], dtype=float).reshape(s)
        return {n: arr(s, d) for n, (s, d) in self.table.items()}


def _same(a, b):
    return a.shape == b.shape and bool(((a == b) | ((a != a) & (b != b))).all())


def stream_funcargs(c, time_limit, EvalTimeout):
    from nutils import mesh, function
    rng = c.rng
    quick = c.tier == 'quick'
    nrounds = 60 if quick else 1500
    kinds = {bool: 'b', int: 'i', float: 'f', complex: 'c'}
    nbad = collections.Counter(); nchecked = 0; nmodel = collections.Counter(); nbuildexc = 0; mismatches = {}
    model_cases = []
    for iround in range(nrounds):
        R = Round(c, rng, function, mesh, with_topo=rng.random() < .3)
        R.build(rng.randint(5, 12))
        model_cases += [(line, sorted(e.arr.arguments), sorted(e.exp), e.text) for e, line in R.model_reqs]
        nbuildexc += len(getattr(R, 'build_exc', ()))
        for k, tname, msg in getattr(R, 'build_exc', ()):
            c.broken_no_input('corr:func:construct:' + k, 'a %s generated inside its documented domain raised %s: %s' % (k, tname, msg),
                              dict(stream='funcargs', program=[e.text for e in R.pool], note=R.lines))
        args_all = R.values()
        bad = set()
        for idx, e in enumerate(R.pool):
            f = e.arr
            if any(R.pool.index(d) in bad for d in e.deps):
                bad.add(idx); c.count('funcargs-skipped-built-on-failing'); continue
            announced = {n: (tuple(s), d) for n, (s, d) in f.arguments.items()}
            cls = type(f).__name__
            program = [x.text for x in R.pool[:idx + 1]]
            what = None
            g = f
            if f.spaces:    # evaluated through its bound form (announces the same table)
                g = R.smp.bind(f)
                if dict(g.arguments) != dict(f.arguments):
                    what = 'binding to a sample changes the announced arguments from %r to %r' % (sorted(f.arguments), sorted(g.arguments))
            if what is None and not (isinstance(f.shape, tuple) and all(isinstance(n, int) for n in f.shape) and f.ndim == len(f.shape) and f.dtype in kinds):
                what = 'malformed tables shape=%r dtype=%r ndim=%r' % (f.shape, f.dtype, f.ndim)
            if what is None:
                try:
                    af = function.arguments_for(f)
                    if {n: (a.shape, a.dtype) for n, a in af.items()} != announced:
                        what = 'arguments_for disagrees with .arguments: %r vs %r' % (sorted(af), sorted(announced))
                except Exception as ex:
                    what = 'arguments_for raises %s' % type(ex).__name__
            val = None
            if what is None:
                known = all(n in args_all and args_all[n].shape == s and kinds[d] == args_all[n].dtype.kind for n, (s, d) in announced.items())
                try:
                    with numpy.errstate(all='ignore'), time_limit(30):
                        full, = function.eval((g,), arguments=args_all)
                    full = numpy.asarray(full)
                except EvalTimeout:
                    c.count('funcargs-eval-timeout'); continue
                except Exception as ex:
                    # not evaluable even with every argument of the round: not attributable to the tables
                    c.count('funcargs-invalid:' + type(ex).__name__); bad.add(idx); continue
                if not known:
                    what = 'announces arguments outside of what it was built from: %r' % ({n: v for n, v in announced.items() if n not in args_all or args_all[n].shape != v[0]},)
                else:
                    try:
                        with numpy.errstate(all='ignore'), time_limit(30):
                            val, = function.eval((g,), arguments={n: args_all[n] for n in announced})     # ONLY the announced arguments
                        val = numpy.asarray(val)
                    except EvalTimeout:
                        c.count('funcargs-eval-timeout'); continue
                    except Exception as ex:
                        what = 'evaluation with exactly the announced arguments %r raises %s: %s (evaluation with all arguments of the program succeeds)' % (sorted(announced), type(ex).__name__, str(ex)[:80])
            if val is not None:
                nchecked += 1; c.traces += 1
                c.case(('funcargs', tuple(program[-1:]), tuple(sorted(announced)), f.shape), nontrivial=e.op not in ('leaf', 'argument'))
                lead = val.ndim - f.ndim
                if lead != (1 if f.spaces else 0) or val.shape[lead:] != f.shape: what = 'shape %r announced, %r delivered' % (f.shape, val.shape)
                elif val.dtype.kind != kinds[f.dtype]: what = 'dtype %s announced, %s delivered' % (f.dtype.__name__, val.dtype)
                elif not _same(val, full): what = 'value with exactly the announced arguments differs from the value with all arguments'
                else:
                    try:
                        with numpy.errstate(all='ignore'), time_limit(30):
                            val2, = function.eval((g,), arguments={n: (v if n in announced else v + 1) for n, v in args_all.items()})
                        if not _same(numpy.asarray(val2), val):
                            what = 'value changes with arguments that are not announced (%r)' % sorted(set(args_all) - set(announced))
                    except EvalTimeout:
                        c.count('funcargs-eval-timeout')
            if what:
                bad.add(idx); nbad[cls] += 1
                c.failing_input('function-metadata-wrong:' + cls, 'function.Array %s: %s' % (cls, what),
                                dict(stream='funcargs', cls=cls, what=what, program=program, shape=list(f.shape), dtype=f.dtype.__name__,
                                     announced={k: [list(s), d.__name__] for k, (s, d) in announced.items()},
                                     arguments={n: v.tolist() for n, v in args_all.items()}))
            elif announced != e.exp:
                bad.add(idx); nmodel[cls] += 1
                mismatches.setdefault(cls, (sorted(announced), sorted(e.exp), program))
    for cls, (announced, expected, program) in sorted(mismatches.items()):
        if not nbad[cls]:   # the whole stream was the search for a failing input of this class
            c.broken_no_input('corr:func:arguments:' + cls, 'function.Array %s announces %r, the argument algebra of the operations gives %r; no evaluation failed' % (
                cls, announced, expected), dict(stream='funcargs', cls=cls, program=program, announced=announced, expected=expected))
    # (M) the Lean function `announceReplace` (about which `Func.eval_depends_only_on_announced_arguments` is proved) against the real table
    answers = c.model([line for line, _, _, _ in model_cases])
    nmis = 0
    for (line, real, tracked, text), a in zip(model_cases, answers):
        ok = a.startswith('names') and sorted(a.split()[1:]) == real
        if not ok:
            nmis += 1
            if not nbad['_Replace'] and nmis == 1:
                c.broken_no_input('corr:func:announceReplace', '_Replace announces %r, the Lean model of _Replace.__init__ gives %r (%s)' % (real, a, text),
                                  dict(stream='funcargs', request=line, model=a, real=real, tracked=tracked, step=text))
    c.obligation('corr:func:announceReplace', nmis == 0, 'correspondence', '%d replace steps: announced names of the real _Replace == Lean announceReplace' % len(model_cases))
    c.count('funcargs-model-replace-steps', len(model_cases))
    c.count('funcargs-arrays-checked', nchecked)
    c.obligation('funcargs:announced-arguments-suffice', not nbad, 'exploration', '%d arrays of %d random argument-rewriting programs evaluated with exactly the announced arguments' % (nchecked, nrounds))
    c.obligation('corr:func:arguments', not nmodel, 'correspondence', 'announced table == argument algebra (replace / derivative / linearize / field / integral / bind) on %d arrays' % nchecked)
    c.obligation('corr:func:construct', not nbuildexc, 'correspondence', 'every generated operation is accepted')
