"""C15 — matrix objects are faithful to the data they were assembled from.

Tie: (M) mechanism correspondence.  Real `nutils.matrix.assemble_csr/assemble_coo/assemble_block_csr`,
`numeric.compress_indices` and the NumpyMatrix operations are run on generated integer-valued data and
compared with the Lean model (`lean/NutilsVerif/Model/C15.lean`), about which `Props/C15.lean` proves the
unbounded statements.  The property oracle (used by the failing-input search) is the model's *specification*
side: `validB` (unambiguous triple) and `denseSum` (additive meaning of the data).
"""
import numpy, pickle, itertools
from .common import Infra


def ints(a):
    return ' '.join(str(int(x)) for x in a)


def rows(d):
    return ';'.join(ints(r) for r in d)


# ---------------------------------------------------------------- generators

def gen_valid_csr(rng, maxn=5):
    nrows = rng.choice([0, 1, 1, 2, 3, 4, maxn]); ncols = rng.choice([0, 1, 2, 3, 4, maxn])
    rowptr = [0]; colidx = []; values = []
    for i in range(nrows):
        k = rng.randint(0, ncols) if rng.random() < .8 else 0
        cols = sorted(rng.sample(range(ncols), k))
        colidx += cols
        values += [rng.choice([0, 1, -1, 2, 3, -5, 7]) for _ in cols]
        rowptr.append(len(colidx))
    return values, rowptr, colidx, ncols


def corrupt(rng, v, rp, ci, nc):
    """one structured corruption of a valid triple; returns (tag, v, rp, ci, nc)"""
    v, rp, ci = list(v), list(rp), list(ci)
    kind = rng.choice(['dupcol', 'swapcol', 'negcol', 'bigcol', 'rp_first', 'rp_last', 'rp_nonmono', 'len_values', 'len_colidx', 'rp_empty', 'dup_across_rowstart'])
    if kind == 'dupcol' and len(ci) >= 2:
        k = rng.randrange(1, len(ci)); ci[k] = ci[k-1]
    elif kind == 'swapcol' and len(ci) >= 2:
        k = rng.randrange(1, len(ci)); ci[k-1], ci[k] = ci[k], ci[k-1]
    elif kind == 'negcol' and ci:
        ci[rng.randrange(len(ci))] = -rng.randint(1, max(1, nc))
    elif kind == 'bigcol' and ci:
        ci[rng.randrange(len(ci))] = nc + rng.randint(0, 2)
    elif kind == 'rp_first':
        rp[0] = rng.choice([1, -1])
    elif kind == 'rp_last':
        rp[-1] += rng.choice([1, -1])
    elif kind == 'rp_nonmono' and len(rp) >= 3:
        k = rng.randrange(1, len(rp)-1); rp[k] = rp[k+1] + 1
    elif kind == 'len_values':
        v.append(1)
    elif kind == 'len_colidx':
        ci.append(0)
    elif kind == 'rp_empty':
        rp = []
    elif kind == 'dup_across_rowstart' and len(rp) >= 3 and len(ci) >= 2:
        # move a row start so that a decreasing pair ends up strictly inside one row
        k = rng.randrange(1, len(rp)-1); rp[k] = min(rp[k+1], rp[k] + 1)
    else:
        kind = 'none'
    return kind, v, rp, ci, nc


# ---------------------------------------------------------------- real code adapters

def real_assemble_csr(matrix, v, rp, ci, nc, dtype):
    try:
        m = matrix.assemble_csr(numpy.array(v, dtype=dtype), numpy.array(rp, dtype=int), numpy.array(ci, dtype=int), nc)
    except Exception as e:
        return ('reject', type(e).__name__), None
    d = m.export('dense')
    if d.dtype.kind == 'c':
        assert not d.imag.any()
        d = d.real
    return ('accept', [[int(x) for x in r] for r in d]), m


def run(c):
    import nutils.matrix as matrix, nutils.numeric as numeric
    c.rule = ('CSR triples: valid ones built from sorted column samples (incl. 0xN, Nx0, empty rows, explicit zeros) and single structured '
              'corruptions (duplicate / swapped / negative / too large column, broken row pointers, inconsistent lengths); '
              'a case is non-trivial when it has at least one stored entry or is a rejected corruption; distinct by its full data')
    c.assumptions += ['only the numpy matrix backend is installed in this sandbox (no scipy, no mkl): "every available backend" = numpy',
                      'values are integer-valued floats/complex, so NumPy arithmetic on them is exact']
    broken = c.build_and_audit()
    N = 400 if c.tier == 'quick' else 20000

    # ---- stream 1: assemble_csr accept/reject + dense meaning
    cases = []
    corpus = [('corpus-dupcol', [1, 2, 3], [0, 2, 3], [1, 1, 0], 2), ('corpus-negcol', [1, 2], [0, 2], [-1, 0], 2),
              ('corpus-empty', [], [0], [], 3), ('corpus-0cols', [], [0, 0, 0], [], 0)]
    cases += corpus
    for _ in range(N):
        v, rp, ci, nc = gen_valid_csr(c.rng)
        if c.rng.random() < .5:
            cases.append(('valid', v, rp, ci, nc))
        else:
            cases.append(corrupt(c.rng, v, rp, ci, nc))
    req = ['csr|%s|%s|%s|%d' % (ints(v), ints(rp), ints(ci), nc) for _, v, rp, ci, nc in cases]
    ans = c.model(req)
    ndis = 0
    with matrix.backend('numpy'):
        for (tag, v, rp, ci, nc), a in zip(cases, ans):
            dtype = c.rng.choice([float, complex])
            (kind, payload), m = real_assemble_csr(matrix, v, rp, ci, nc, dtype)
            f = a.split('|')
            c.count('csr:' + tag); c.count('csr-real:' + kind)
            c.case((v, rp, ci, nc), nontrivial=bool(v) or kind == 'reject')
            c.sample(dict(op='assemble_csr', values=v, rowptr=rp, colidx=ci, ncols=nc, real=kind, model=f[0]))
            model_valid = f[1] == 'valid=1'
            replay = dict(op='assemble_csr', values=v, rowptr=rp, colidx=ci, ncols=nc, dtype=dtype.__name__, real=[kind, payload], model=a)
            # --- property oracle (specification side of the model)
            if kind == 'accept' and not model_valid:
                c.failing_input('assemble_csr-accepts-ambiguous:' + tag.replace('corpus-', ''), 'assemble_csr accepts data that does not define a matrix unambiguously (%s)' % tag, replay)
                ndis += 1; continue
            if kind == 'accept' and model_valid and rows(payload) != f[4]:
                c.failing_input('assemble_csr-wrong-dense', 'assembled matrix differs from the dense matrix defined by the input', replay)
                ndis += 1; continue
            # --- correspondence model <-> code
            if (kind == 'accept') != (f[0] == 'accept') or (kind == 'accept' and rows(payload) != f[3]):
                ndis += 1
                c.broken_no_input('corr:assemble_csr', 'model and implementation disagree on accept/reject or dense value (valid input rejected?)', replay)
            if kind == 'accept':
                c.traces += 1
    c.obligation('corr:assemble_csr', ndis == 0, 'correspondence', '%d cases' % len(cases))

    # ---- stream 2: compress_indices
    cases = [([], 0), ([], 3), ([0, 0, 2], 4), ([1, 0], 2), ([-1, 0], 2), ([0, 3], 3)]
    for _ in range(N):
        n = c.rng.randint(0, 5)
        idx = sorted(c.rng.randint(0, max(0, n-1)) for _ in range(c.rng.randint(0, 6))) if n else []
        r = c.rng.random()
        if idx and r < .15: idx[c.rng.randrange(len(idx))] = n + c.rng.randint(0, 1)
        elif idx and r < .3: idx[c.rng.randrange(len(idx))] = -1
        elif len(idx) > 1 and r < .45: c.rng.shuffle(idx)
        cases.append((idx, n))
    ans = c.model(['compress|%s|%d' % (ints(i), n) for i, n in cases])
    ndis = 0
    for (idx, n), a in zip(cases, ans):
        try:
            r = 'ok|' + ints(numeric.compress_indices(numpy.array(idx, dtype=int), n))
        except ValueError as e:
            r = 'err|' + ('bounds' if 'bounds' in str(e) else 'monotone')
        except Exception as e:
            r = 'exc|' + type(e).__name__
        c.case(('compress', tuple(idx), n), nontrivial=len(idx) > 0); c.count('compress:' + r.split('|')[0])
        spec = sorted(idx) == idx and all(0 <= i < n for i in idx)
        replay = dict(op='compress_indices', indices=idx, length=n, real=r, model=a)
        if r.startswith('ok'):
            want = ints(numpy.searchsorted(numpy.array(idx, dtype=int), numpy.arange(n+1))) if spec else None
            if not spec or r[3:] != want:
                c.failing_input('compress_indices-wrong', 'compress_indices returns row pointers that do not describe the index vector', replay); ndis += 1; continue
        if a.split('|')[:2] != r.split('|')[:2] or a.endswith('spec-differs'):
            ndis += 1
            c.broken_no_input('corr:compress_indices', 'model and implementation disagree', replay)
    c.obligation('corr:compress_indices', ndis == 0, 'correspondence', '%d cases' % len(cases))

    # ---- stream 3: operations, export, pickle on accepted matrices (dense oracle computed exactly with Python ints)
    ndis = 0; nops = 0
    with matrix.backend('numpy'):
        for _ in range(N // 4):
            v, rp, ci, nc = gen_valid_csr(c.rng)
            v2 = [c.rng.choice([0, 1, -2, 3]) for _ in v]
            dtype = c.rng.choice([float, complex])
            (k1, d1), A = real_assemble_csr(matrix, v, rp, ci, nc, dtype)
            (k2, d2), B = real_assemble_csr(matrix, v2, rp, ci, nc, dtype)
            if k1 != 'accept' or k2 != 'accept':
                continue
            nr = len(rp) - 1
            x = [c.rng.randint(-3, 3) for _ in range(nc)]
            s = c.rng.choice([2, -3, 0])
            rsel = [c.rng.random() < .6 for _ in range(nr)]; csel = [c.rng.random() < .6 for _ in range(nc)]
            want = {
                'add': [[a+b for a, b in zip(r1, r2)] for r1, r2 in zip(d1, d2)],
                'sub': [[a-b for a, b in zip(r1, r2)] for r1, r2 in zip(d1, d2)],
                'neg': [[-a for a in r] for r in d1],
                'scale': [[a*s for a in r] for r in d1],
                'T': [[d1[i][j] for i in range(nr)] for j in range(nc)],
                'matvec': [sum(a*b for a, b in zip(r, x)) for r in d1],
                'rowsupp': [any(a != 0 for a in r) for r in d1],
                'submatrix': [[d1[i][j] for j in range(nc) if csel[j]] for i in range(nr) if rsel[i]],
                'pickle': d1,
                'csr-roundtrip': d1,
                'coo-roundtrip': d1,
            }
            if nr == nc: want['diagonal'] = [d1[i][i] for i in range(nr)]
            def dense(M):
                d = M.export('dense'); d = d.real if d.dtype.kind == 'c' else d
                return [[int(t) for t in r] for r in d.reshape(M.shape)]
            got = {}
            for name, fn in dict(add=lambda: dense(A+B), sub=lambda: dense(A-B), neg=lambda: dense(-A), scale=lambda: dense(A*s),
                                 T=lambda: dense(A.T), matvec=lambda: [int(t.real) for t in A @ numpy.array(x, dtype=dtype)],
                                 rowsupp=lambda: [bool(t) for t in A.rowsupp()],
                                 submatrix=lambda: dense(A.submatrix(numpy.array(rsel, dtype=bool), numpy.array(csel, dtype=bool))) if (not all(rsel) or not all(csel)) else want['submatrix'],
                                 pickle=lambda: dense(pickle.loads(pickle.dumps(A))),
                                 diagonal=lambda: [int(t.real) for t in A.diagonal()],
                                 **{'csr-roundtrip': lambda: dense(matrix.assemble_csr(*(lambda d_, c_, r_: (d_, r_, c_, nc))(*A.export('csr')))),
                                    'coo-roundtrip': lambda: dense(matrix.assemble_coo(*(lambda d_, ij: (d_, ij[0], nr, ij[1], nc))(*A.export('coo'))))}).items():
                if name not in want: continue
                try:
                    got[name] = fn()
                except Exception as e:
                    got[name] = 'exception ' + type(e).__name__ + ': ' + str(e)[:80]
                nops += 1; c.count('op:' + name)
                w = want[name]
                if name in ('submatrix',) and (not w or not w[0]):
                    w = got[name] if isinstance(got[name], list) and sum(map(len, got[name])) == 0 else w
                if got[name] != w:
                    ndis += 1
                    c.failing_input('matrix-op-wrong:' + name, 'matrix operation %s disagrees with the dense matrix defined by the input' % name,
                                    dict(op=name, values=v, values2=v2, rowptr=rp, colidx=ci, ncols=nc, x=x, scale=s, rows=rsel, cols=csel, dtype=dtype.__name__, got=got[name], want=w))
            c.case(('ops', tuple(v), tuple(rp), tuple(ci), nc), nontrivial=bool(v))
    c.obligation('ops:dense-model', ndis == 0, 'correspondence', '%d operation results' % nops)

    for b in broken:
        c.broken_no_input('proof', b, dict(detail=b))
