"""C15 — matrix objects are faithful to the data they were assembled from.

Tie: (M) mechanism correspondence.  Real `nutils.matrix.assemble_csr / assemble_coo / assemble_block_csr / empty /
diag / eye`, `numeric.compress_indices`, `NumpyMatrix` operations and exports, and the base class `Matrix`
(`__sub__`, `__rmul__`, `__truediv__`, `rowsupp`, `diagonal`, `__reduce__`, `submatrix` cache, `getprecon` cache)
are run on generated integer / Gaussian-integer data and compared with

* the Lean model (`lean/NutilsVerif/Model/C15.lean`, driver `lean/Drivers/C15.lean`), about which
  `Props/C15.lean` proves the unbounded statements, and
* an exact recomputation in Python `Fraction`s (operation sequences, complex scalars).

The property oracle (used to decide whether a disagreement is a *failing input of the real code*) is the
specification side: `validB` / `cooValidB` / `blocksOK` (input defines a matrix unambiguously) and `denseSum` /
`blockDense` / exact dense arithmetic (what the matrix must then be).  "Model and code disagree" alone is reported
as `no-failing-input-found`.

The base class methods that `NumpyMatrix` overrides (`__sub__`, `rowsupp`) and the ones it inherits are both
exercised: half of the operation sequences run on `ProxyMatrix`, a subclass of the real `nutils.matrix.Matrix`
defined here that implements only the abstract methods (by delegation to a `NumpyMatrix`).
"""
import numpy, pickle, json
from fractions import Fraction
from .common import Infra


def ints(a):
    return ' '.join(str(int(x)) for x in a)


def rows(d):
    return ';'.join(ints(r) for r in d)


class Batch:
    """all Lean requests of one run are sent to the driver in one process"""

    def __init__(self):
        self.lines = []
        self.ans = None

    def add(self, line):
        self.lines.append(line)
        return len(self.lines) - 1

    def run(self, c):
        self.ans = c.model(self.lines) if self.lines else []

    def __getitem__(self, i):
        return self.ans[i]


# ---------------------------------------------------------------- exact complex rationals

class Q:
    __slots__ = ('re', 'im')

    def __init__(self, re=0, im=0):
        self.re = Fraction(re); self.im = Fraction(im)

    @staticmethod
    def of(x):
        if isinstance(x, Q): return x
        x = complex(x)
        return Q(Fraction(x.real), Fraction(x.imag))

    def __add__(a, b): return Q(a.re + b.re, a.im + b.im)
    def __sub__(a, b): return Q(a.re - b.re, a.im - b.im)
    def __neg__(a): return Q(-a.re, -a.im)
    def __mul__(a, b): return Q(a.re * b.re - a.im * b.im, a.re * b.im + a.im * b.re)
    def inv(a):
        n = a.re * a.re + a.im * a.im
        return Q(a.re / n, -a.im / n)
    def __eq__(a, b): return a.re == b.re and a.im == b.im
    def __hash__(a): return hash((a.re, a.im))
    def __bool__(a): return bool(a.re) or bool(a.im)
    def abs2(a): return a.re * a.re + a.im * a.im
    def isint(a): return a.im == 0 and a.re.denominator == 1
    def py(a):
        return complex(float(a.re), float(a.im)) if a.im else (int(a.re) if a.re.denominator == 1 else float(a.re))
    def __repr__(a): return '%s%+sj' % (a.re, a.im) if a.im else str(a.re)


class OM:
    """oracle matrix: exact entries, explicit shape"""

    def __init__(self, rows_, nc, cplx=False):
        self.rows = [list(r) for r in rows_]; self.nr = len(self.rows); self.nc = nc; self.cplx = cplx
        assert all(len(r) == nc for r in self.rows)

    @property
    def shape(self): return (self.nr, self.nc)

    def map2(a, b, f): return OM([[f(x, y) for x, y in zip(r, s)] for r, s in zip(a.rows, b.rows)], a.nc, a.cplx or b.cplx)
    def map1(a, f, cplx=None): return OM([[f(x) for x in r] for r in a.rows], a.nc, a.cplx if cplx is None else cplx)
    def T(a): return OM([[a.rows[i][j] for i in range(a.nr)] for j in range(a.nc)], a.nr, a.cplx)
    def sub(a, rs, cs): return OM([[a.rows[i][j] for j in range(a.nc) if cs[j]] for i in range(a.nr) if rs[i]], sum(cs), a.cplx)
    def nz(a): return [(i, j, a.rows[i][j]) for i in range(a.nr) for j in range(a.nc) if a.rows[i][j]]
    def isint(a): return all(x.isint() for r in a.rows for x in r)
    def introws(a): return [[int(x.re) for x in r] for r in a.rows]
    def tolist(a): return [[repr(x) for x in r] for r in a.rows]


def om_of_real(M):
    try:
        d = M.export('dense')
    except Exception:
        return None
    if d.ndim != 2 or tuple(d.shape) != tuple(M.shape):
        return None
    return OM([[Q.of(x) for x in r] for r in d], d.shape[1], d.dtype.kind == 'c')


# ---------------------------------------------------------------- generators

VALS = [0, 1, -1, 2, 3, -5, 7]


def gen_valid_csr(rng, maxn=5, nrows=None, ncols=None, fill=.8):
    nrows = rng.choice([0, 1, 1, 2, 3, 4, maxn]) if nrows is None else nrows
    ncols = rng.choice([0, 1, 2, 3, 4, maxn]) if ncols is None else ncols
    rowptr = [0]; colidx = []; values = []
    for i in range(nrows):
        k = rng.randint(0, ncols) if rng.random() < fill else 0
        cols = sorted(rng.sample(range(ncols), k))
        colidx += cols
        values += [rng.choice(VALS) for _ in cols]
        rowptr.append(len(colidx))
    return values, rowptr, colidx, ncols


def gen_imag(rng, v, dtype):
    if dtype is complex and rng.random() < .7:
        return [rng.choice([0, 0, 1, -1, 2, -3]) for _ in v]
    return [0] * len(v)


CSR_KINDS = ['dupcol', 'swapcol', 'negcol', 'bigcol', 'rp_first', 'rp_last', 'rp_nonmono', 'len_values', 'len_colidx', 'rp_empty',
             'dup_across_rowstart', 'rp_shift', 'eqcol_boundary']


def corrupt(rng, v, rp, ci, nc):
    """one structured corruption of a valid triple; returns (tag, v, rp, ci, nc)"""
    v, rp, ci = list(v), list(rp), list(ci)
    kind = rng.choice(CSR_KINDS)
    if kind == 'dupcol' and len(ci) >= 2:
        k = rng.randrange(1, len(ci)); ci[k] = ci[k-1]
    elif kind == 'swapcol' and len(ci) >= 2:
        k = rng.randrange(1, len(ci)); ci[k-1], ci[k] = ci[k], ci[k-1]
    elif kind == 'negcol' and ci:
        ci[rng.randrange(len(ci))] = -rng.randint(1, max(1, nc))
    elif kind == 'bigcol' and ci:
        ci[rng.randrange(len(ci))] = nc + rng.randint(0, 2)
    elif kind == 'rp_first':
        rp[0] = rng.choice([1, -1])
    elif kind == 'rp_last':
        rp[-1] += rng.choice([1, -1])
    elif kind == 'rp_nonmono' and len(rp) >= 3:
        k = rng.randrange(1, len(rp)-1); rp[k] = rp[k+1] + 1
    elif kind == 'len_values':
        v.append(1)
    elif kind == 'len_colidx':
        ci.append(0)
    elif kind == 'rp_empty':
        rp = []
    elif kind == 'dup_across_rowstart' and len(rp) >= 3 and len(ci) >= 2:
        # move a row start so that a decreasing pair ends up strictly inside one row
        k = rng.randrange(1, len(rp)-1); rp[k] = min(rp[k+1], rp[k] + 1)
    elif kind == 'rp_shift' and len(rp) >= 3:
        # move a row start backwards (still monotone): the previous row's last column joins this row
        k = rng.randrange(1, len(rp)-1); rp[k] = max(rp[k-1], rp[k] - 1)
    elif kind == 'eqcol_boundary' and len(rp) >= 3 and len(ci) >= 2:
        # equal neighbours exactly at a row boundary stay valid; inside a row they do not
        k = rng.randrange(1, len(ci)); ci[k] = ci[k-1]
        if rng.random() < .5 and k not in rp:
            j = rng.randrange(1, len(rp)-1); rp[j] = min(max(k, rp[j-1]), rp[j+1])
    else:
        kind = 'none'
    return kind, v, rp, ci, nc


def py_valid_csr(v, rp, ci, nc):
    """python transcription of the specification (cross-checks the Lean `validB` answer)"""
    if not rp or rp[0] != 0 or any(a > b for a, b in zip(rp, rp[1:])) or rp[-1] != len(v) or len(ci) != len(v):
        return False
    if any(not 0 <= x < nc for x in ci):
        return False
    return all(all(x < y for x, y in zip(ci[a:b], ci[a+1:b])) for a, b in zip(rp, rp[1:]))


def py_dense(v, rp, ci, nc):
    d = [[0] * nc for _ in range(len(rp) - 1)]
    for i, (a, b) in enumerate(zip(rp, rp[1:])):
        for k in range(a, b):
            d[i][ci[k]] += v[k]
    return d


# ---------------------------------------------------------------- real code adapters

def arr(v, w, dtype):
    if dtype is complex:
        return numpy.array([complex(a, b) for a, b in zip(v, w)], dtype=complex)
    return numpy.array(v, dtype=dtype)


def split_dense(d):
    """real dense array -> (re rows, im rows) as python ints, or None if not integer valued"""
    d = numpy.asarray(d)
    re = d.real; im = d.imag if d.dtype.kind == 'c' else numpy.zeros(d.shape)
    if not (numpy.equal(numpy.round(re), re).all() and numpy.equal(numpy.round(im), im).all()):
        return None
    return [[int(x) for x in r] for r in re], [[int(x) for x in r] for r in im]


def outcome(matrix, fn):
    """run a real constructor; returns (kind, payload, M) with kind in accept/reject"""
    try:
        M = fn()
    except Exception as e:
        return 'reject', (type(e).__name__, isinstance(e, matrix.MatrixError), str(e)[:100]), None
    try:
        d = M.export('dense')
        if d.ndim != 2 or tuple(d.shape) != tuple(M.shape):
            return 'accept', ('badshape', list(d.shape), list(M.shape)), M
        sd = split_dense(d)
    except Exception as e:
        return 'accept', ('badshape', 'export(dense) raises ' + type(e).__name__, str(e)[:80]), M
    return 'accept', sd, M


# ================================================================ stream: assemble_csr

def gen_csr_cases(c, N):
    corpus = [('dupcol', [1, 2, 3], [0, 2, 3], [1, 1, 0], 2), ('negcol', [1, 2], [0, 2], [-1, 0], 2),
              ('valid', [], [0], [], 3), ('valid', [], [0, 0, 0], [], 0), ('valid', [], [0], [], 0),
              ('valid', [4, 0, 5], [0, 1, 1, 3], [2, 0, 2], 3), ('eqcol_boundary', [1, 2], [0, 1, 2], [1, 1], 2),
              ('eqcol_boundary', [1, 2], [0, 2, 2], [1, 1], 2), ('rp_last', [1, 2], [0, 1, 1], [0, 1], 2)]
    cases = []
    for tag, v, rp, ci, nc in corpus:
        for dtype in (float, complex):
            cases.append(dict(tag=tag, v=v, w=[0] * len(v) if dtype is float else [(-1) ** k for k in range(len(v))], rp=rp, ci=ci, nc=nc, dtype=dtype))
    for _ in range(N):
        v, rp, ci, nc = gen_valid_csr(c.rng)
        tag = 'valid'
        if c.rng.random() < .5:
            tag, v, rp, ci, nc = corrupt(c.rng, v, rp, ci, nc)
        dtype = c.rng.choice([float, complex])
        cases.append(dict(tag=tag, v=v, w=gen_imag(c.rng, v, dtype), rp=rp, ci=ci, nc=nc, dtype=dtype))
    return cases


def csr_req(v, rp, ci, nc):
    return 'csr|%s|%s|%s|%d' % (ints(v), ints(rp), ints(ci), nc)


def stream_csr(c, matrix, batch, N):
    cases = gen_csr_cases(c, N)
    for k in cases:
        k['q'] = batch.add(csr_req(k['v'], k['rp'], k['ci'], k['nc']))
        k['qi'] = batch.add(csr_req(k['w'], k['rp'], k['ci'], k['nc'])) if any(k['w']) else None

    def evaluate():
        ndis = 0
        for k in cases:
            ndis += eval_csr_case(c, matrix, k, batch[k['q']], batch[k['qi']] if k['qi'] is not None else None)
        c.obligation('corr:assemble_csr', ndis == 0, 'correspondence', '%d cases' % len(cases))
    return evaluate


def eval_csr_case(c, matrix, k, a, ai):
    v, w, rp, ci, nc, dtype, tag = k['v'], k['w'], k['rp'], k['ci'], k['nc'], k['dtype'], k['tag']
    kind, payload, M = outcome(matrix, lambda: matrix.assemble_csr(arr(v, w, dtype), numpy.array(rp, dtype=int), numpy.array(ci, dtype=int), nc))
    f = a.split('|')
    c.count('csr:' + tag); c.count('csr-real:' + kind); c.count('csr-dtype:' + dtype.__name__)
    if rp and len(rp) == 1: c.count('csr-shape:0xN')
    if nc == 0: c.count('csr-shape:Nx0')
    c.case(('csr', tuple(v), tuple(w), tuple(rp), tuple(ci), nc), nontrivial=bool(v) or kind == 'reject')
    c.sample(dict(op='assemble_csr', values=v, imag=w, rowptr=rp, colidx=ci, ncols=nc, real=kind, model=f[0]))
    model_valid = f[1] == 'valid=1'
    replay = dict(op='assemble_csr', case=dict(k, dtype=dtype.__name__), real=[kind, payload], model=a, model_imag=ai)
    if model_valid != py_valid_csr(v, rp, ci, nc):
        c.broken_no_input('corr:validB-vs-python-spec', 'Lean validB and the python transcription of the specification disagree', replay)
        return 1
    if ai is not None and ai.split('|')[:2] != f[:2] + [] and ai.split('|')[0] != f[0]:
        c.broken_no_input('corr:assemble_csr', 'model accept/reject depends on the values', replay); return 1
    # --- property oracle (specification side of the model)
    if kind == 'accept' and not model_valid:
        c.failing_input('assemble_csr-accepts-ambiguous:' + tag, 'assemble_csr accepts data that does not define a matrix unambiguously (%s)' % tag, replay)
        return 1
    if kind == 'reject' and model_valid:
        if len(rp) == 1 and not payload[1]:
            c.failing_input('assemble:zero-rows-fails', 'a valid 0xN triple cannot be assembled (%s)' % payload[0], replay)
        else:
            c.failing_input('assemble_csr-rejects-valid', 'assemble_csr rejects a triple that defines a matrix unambiguously', replay)
        return 1
    if kind == 'accept':
        want_re = f[4]; want_im = ai.split('|')[4] if ai is not None else rows([[0] * nc] * (len(rp) - 1))
        if payload is None or payload[0] == 'badshape' or rows(payload[0]) != want_re or rows(payload[1]) != want_im:
            c.failing_input('assemble_csr-wrong-dense', 'assembled matrix differs from the dense matrix defined by the input', replay)
            return 1
        if M.dtype != numpy.dtype(dtype) or tuple(M.shape) != (len(rp) - 1, nc):
            c.failing_input('assemble_csr-wrong-dense', 'assembled matrix has the wrong dtype or shape', replay)
            return 1
    # --- correspondence model <-> code
    if (kind == 'accept') != (f[0] == 'accept') or (kind == 'accept' and rows(payload[0]) != f[3]):
        c.broken_no_input('corr:assemble_csr', 'model and implementation disagree on accept/reject or dense value', replay)
        return 1
    if kind == 'accept':
        c.traces += 1
        # diagonal: CSR-level algorithm of the model on the input triple, and the dense diagonal
        try:
            dg = M.diagonal(); got = (ints(dg.real), ints(dg.imag) if dg.dtype.kind == 'c' else ints([0] * len(dg)))
        except matrix.MatrixError:
            got = 'MatrixError'
        except Exception as e:
            got = 'exc ' + type(e).__name__
        if len(rp) - 1 != nc:
            if got != 'MatrixError':
                c.broken_no_input('corr:diagonal', 'diagonal of a non-square matrix does not raise MatrixError', dict(replay, got=got)); return 1
        else:
            want = (f[6], ai.split('|')[6] if ai is not None else ints([0] * nc))
            if got != want:
                c.failing_input('matrix-op-wrong:diagonal', 'diagonal() disagrees with the dense matrix defined by the input', dict(replay, got=got, want=want)); return 1
            if f[5] != f[6]:
                c.broken_no_input('corr:diagonal', 'csrDiagonal and dDiag∘denseSum disagree in the model on a valid triple (theorem diagonal_spec)', replay); return 1
            c.count('csr:diagonal')
    return 0


def stream_csr_types(c, matrix):
    """inputs that are not 1-D integer index arrays / 1-D values must be rejected"""
    f = lambda *a: numpy.array(a, dtype=float)
    i = lambda *a: numpy.array(a, dtype=int)
    cases = [('values2d', numpy.ones((1, 2)), i(0, 2), i(0, 1), 2), ('rowptr-float', f(1, 2), f(0, 2), i(0, 1), 2),
             ('colidx-float', f(1, 2), i(0, 2), f(0, 1), 2), ('rowptr2d', f(1, 2), numpy.array([[0, 2]]), i(0, 1), 2),
             ('colidx2d', f(1, 2), i(0, 2), numpy.array([[0, 1]]), 2), ('rowptr-bool', f(1.), numpy.array([False, True]), i(0), 1)]
    bad = 0
    for tag, v, rp, ci, nc in cases:
        kind, payload, M = outcome(matrix, lambda: matrix.assemble_csr(v, rp, ci, nc))
        c.case(('csrtype', tag)); c.count('csr-types:' + kind)
        if kind == 'accept':
            bad += 1
            c.failing_input('assemble_csr-accepts-ambiguous:' + tag, 'assemble_csr accepts arrays of the wrong dimension or dtype (%s)' % tag, dict(op='assemble_csr-types', tag=tag))
    c.obligation('corr:assemble_csr-argument-types', bad == 0, 'correspondence', '%d cases' % len(cases))


# ================================================================ stream: compress_indices

def stream_compress(c, numeric, batch, N):
    cases = [([], 0), ([], 3), ([0, 0, 2], 4), ([1, 0], 2), ([-1, 0], 2), ([0, 3], 3), ([0], 0), ([2, 2, 2], 3), ([0, 2, 1, 3], 4), ([3, 0, 0, 3], 4)]
    for _ in range(N):
        n = c.rng.randint(0, 5)
        idx = sorted(c.rng.randint(0, max(0, n-1)) for _ in range(c.rng.randint(0, 6))) if n else []
        r = c.rng.random()
        if idx and r < .15: idx[c.rng.randrange(len(idx))] = n + c.rng.randint(0, 1)
        elif idx and r < .3: idx[c.rng.randrange(len(idx))] = -c.rng.randint(1, 2)
        elif len(idx) > 1 and r < .45: c.rng.shuffle(idx)
        elif r < .5 and n == 0: idx = [c.rng.choice([0, -1, 1])]
        cases.append((idx, n))
    qs = [batch.add('compress|%s|%d' % (ints(i), n)) for i, n in cases]

    def evaluate():
        ndis = 0
        for (idx, n), q in zip(cases, qs):
            a = batch[q]
            try:
                r = 'ok:' + ints(numeric.compress_indices(numpy.array(idx, dtype=int), n))
            except ValueError as e:
                r = 'err:' + ('bounds' if 'bounds' in str(e) else 'monotone')
            except Exception as e:
                r = 'exc:' + type(e).__name__
            c.case(('compress', tuple(idx), n), nontrivial=len(idx) > 0); c.count('compress:' + r.split(':')[0] + (':' + r.split(':')[1] if r[0] == 'e' else ''))
            spec = sorted(idx) == idx and all(0 <= i < n for i in idx)
            code_m, spec_m = a.split('|')
            replay = dict(op='compress_indices', indices=idx, length=n, real=r, model=a)
            want = 'ok:' + ints(numpy.searchsorted(numpy.array(idx, dtype=int), numpy.arange(n+1))) if spec else None
            if spec != spec_m.startswith('ok') or (spec and spec_m != want):
                c.broken_no_input('corr:compressSpec-vs-python-spec', 'Lean compressSpec and numpy searchsorted disagree', replay); ndis += 1; continue
            if r.startswith('ok') and (not spec or r != want):
                c.failing_input('compress_indices-wrong', 'compress_indices returns row pointers that do not describe the index vector', replay); ndis += 1; continue
            if spec and not r.startswith('ok'):
                c.failing_input('compress_indices-rejects-valid', 'compress_indices fails on a sorted in-range index vector', replay); ndis += 1; continue
            if code_m != r or code_m != spec_m:
                ndis += 1
                c.broken_no_input('corr:compress_indices', 'model and implementation disagree (or code model differs from its specification: theorem compress_indices_spec)', replay)
        c.obligation('corr:compress_indices', ndis == 0, 'correspondence', '%d cases' % len(cases))
    return evaluate


# ================================================================ stream: assemble_coo

COO_KINDS = ['none', 'none', 'none', 'shuffle', 'swaprows', 'negrow', 'bigrow', 'len_values', 'len_rowidx', 'len_colidx', 'duppos', 'swapcol', 'bigcol', 'negcol']


def gen_coo_case(rng):
    v, rp, ci, nc = gen_valid_csr(rng)
    nr = len(rp) - 1
    ri = [i for i in range(nr) for _ in range(rp[i+1] - rp[i])]
    kind = rng.choice(COO_KINDS)
    v, ri, ci = list(v), list(ri), list(ci)
    n = len(v)
    if kind == 'shuffle' and n >= 2:
        p = list(range(n)); rng.shuffle(p)
        v = [v[i] for i in p]; ri = [ri[i] for i in p]; ci = [ci[i] for i in p]
    elif kind == 'swaprows' and n >= 2:
        k = rng.randrange(1, n); ri[k-1], ri[k] = ri[k], ri[k-1]
    elif kind == 'negrow' and n:
        ri[rng.choice([0, rng.randrange(n)])] = -1
    elif kind == 'bigrow' and n:
        ri[rng.choice([n-1, rng.randrange(n)])] = nr + rng.randint(0, 1)
    elif kind == 'len_values':
        v.append(1)
    elif kind == 'len_rowidx':
        ri.append(ri[-1] if ri else 0) if nr else ri.append(0)
    elif kind == 'len_colidx':
        ci.append(0)
    elif kind == 'duppos' and n >= 2:
        k = rng.randrange(1, n); ri[k] = ri[k-1]; ci[k] = ci[k-1]
    elif kind == 'swapcol' and n >= 2:
        k = rng.randrange(1, n); ci[k-1], ci[k] = ci[k], ci[k-1]
    elif kind == 'bigcol' and n:
        ci[rng.randrange(n)] = nc + rng.randint(0, 1)
    elif kind == 'negcol' and n:
        ci[rng.randrange(n)] = -1
    elif kind != 'none':
        kind = 'none'
    return dict(tag=kind, v=v, ri=ri, nr=nr, ci=ci, nc=nc)


def py_valid_coo(v, ri, nr, ci, nc):
    if not (len(v) == len(ri) == len(ci)): return False
    if any(not 0 <= r < nr for r in ri) or any(not 0 <= x < nc for x in ci): return False
    return all(a < b for a, b in zip(zip(ri, ci), list(zip(ri, ci))[1:]))


def coo_req(v, k):
    return 'coo|%s|%s|%d|%s|%d' % (ints(v), ints(k['ri']), k['nr'], ints(k['ci']), k['nc'])


def stream_coo(c, matrix, batch, N):
    cases = [dict(tag='none', v=[], ri=[], nr=0, ci=[], nc=2), dict(tag='none', v=[1, 2], ri=[0, 2], nr=3, ci=[1, 0], nc=2),
             dict(tag='shuffle', v=[1, 2], ri=[1, 0], nr=2, ci=[1, 0], nc=2), dict(tag='duppos', v=[1, 2], ri=[0, 0], nr=1, ci=[1, 1], nc=2),
             dict(tag='len_rowidx', v=[], ri=[0], nr=0, ci=[], nc=1)]
    cases += [gen_coo_case(c.rng) for _ in range(N)]
    for k in cases:
        k['dtype'] = c.rng.choice([float, complex])
        k['w'] = gen_imag(c.rng, k['v'], k['dtype'])
        k['q'] = batch.add(coo_req(k['v'], k))
        k['qi'] = batch.add(coo_req(k['w'], k)) if any(k['w']) else None

    def evaluate():
        ndis = 0
        for k in cases:
            ndis += eval_coo_case(c, matrix, k, batch[k['q']], batch[k['qi']] if k['qi'] is not None else None)
        c.obligation('corr:assemble_coo', ndis == 0, 'correspondence', '%d cases' % len(cases))
    return evaluate


def eval_coo_case(c, matrix, k, a, ai):
    v, w, ri, nr, ci, nc, dtype, tag = k['v'], k['w'], k['ri'], k['nr'], k['ci'], k['nc'], k['dtype'], k['tag']
    kind, payload, M = outcome(matrix, lambda: matrix.assemble_coo(arr(v, w, dtype), numpy.array(ri, dtype=int), nr, numpy.array(ci, dtype=int), nc))
    f = a.split('|')
    cls = 'accept' if kind == 'accept' else 'valueerror' if payload[0] == 'ValueError' else 'reject' if payload[1] else 'exc:' + payload[0]
    c.count('coo:' + tag); c.count('coo-real:' + cls)
    c.case(('coo', tuple(v), tuple(w), tuple(ri), nr, tuple(ci), nc), nontrivial=bool(v))
    model_valid = f[1] == 'valid=1'
    replay = dict(op='assemble_coo', case=dict(k, dtype=dtype.__name__), real=[kind, payload], model=a, model_imag=ai)
    if model_valid != py_valid_coo(v, ri, nr, ci, nc):
        c.broken_no_input('corr:cooValidB-vs-python-spec', 'Lean cooValidB and the python transcription of the specification disagree', replay); return 1
    if kind == 'accept' and not model_valid:
        c.failing_input('assemble_coo-accepts-ambiguous:' + tag, 'assemble_coo accepts data that does not define a matrix unambiguously (%s)' % tag, replay); return 1
    if kind == 'reject' and model_valid:
        if nr == 0 and not payload[1]:
            c.failing_input('assemble:zero-rows-fails', 'valid 0xN COO data cannot be assembled (%s)' % payload[0], replay)
        else:
            c.failing_input('assemble_coo-rejects-valid', 'assemble_coo rejects data that defines a matrix unambiguously', replay)
        return 1
    if kind == 'accept':
        want_re = f[3]; want_im = ai.split('|')[3] if ai is not None else rows([[0] * nc] * nr)
        if payload is None or payload[0] == 'badshape' or rows(payload[0]) != f[3] or rows(payload[1]) != want_im or f[2] != f[3] \
                or M.dtype != numpy.dtype(dtype) or tuple(M.shape) != (nr, nc):
            c.failing_input('assemble_coo-wrong-dense', 'assembled matrix differs from the dense matrix defined by the COO input', replay); return 1
        c.traces += 1
        # the deprecated wrapper `matrix.assemble(data, index, shape)` must be the same thing
        import warnings as _w
        with _w.catch_warnings():
            _w.simplefilter('ignore')
            k2, p2, M2 = outcome(matrix, lambda: matrix.assemble(arr(v, w, dtype), (numpy.array(ri, dtype=int), numpy.array(ci, dtype=int)), (nr, nc)))
        c.count('coo:deprecated-assemble')
        if k2 != 'accept' or p2 != payload:
            c.failing_input('assemble_coo-wrong-dense', 'matrix.assemble (deprecated wrapper) differs from assemble_coo', dict(replay, wrapper=[k2, p2])); return 1
    if cls != f[0] or (cls == 'valueerror' and ('bounds' in payload[2]) != (f[2] == 'bounds')):
        c.broken_no_input('corr:assemble_coo', 'model and implementation disagree on the outcome class (accept / ValueError bounds|monotonic / MatrixError)', replay); return 1
    return 0


# ================================================================ stream: assemble_block_csr

DT = {0: float, 1: complex, 2: int}


def gen_blocks(rng):
    R = rng.choice([1, 1, 2, 3]); C = rng.choice([1, 2, 2, 3])
    nrs = [rng.choice([0, 1, 1, 2, 2, 3, 3]) for _ in range(R)]
    total_w = None
    dt = rng.choice([0, 0, 1])
    blocks = []
    style = rng.choice(['dense', 'dense', 'sparse', 'sparse', 'sparse', 'oneper', 'oneper', 'oneper', 'allempty'])
    for i in range(R):
        if i == 0 or rng.random() < .7:
            ws = [rng.choice([0, 1, 2, 2, 3, 3]) for _ in range(C)] if i == 0 else ws0
        else:   # a different partition of the same total width
            Ci = rng.choice([1, 2, 3]); cuts = sorted(rng.randint(0, total_w) for _ in range(Ci - 1))
            ws = [b - a for a, b in zip([0] + cuts, cuts + [total_w])]
        if i == 0: ws0 = ws; total_w = sum(ws)
        one = rng.randrange(len(ws))
        row = []
        for j, w in enumerate(ws):
            fill = dict(dense=.9, sparse=.6, oneper=(1. if j == one else 0), allempty=0)[style]
            if rng.random() < dict(dense=.1, sparse=.4, oneper=0, allempty=1)[style]:
                v, rp, ci, nc = [], [0] * (nrs[i] + 1), [], w
            else:
                v, rp, ci, nc = gen_valid_csr(rng, nrows=nrs[i], ncols=w, fill=fill)
            row.append(dict(v=v, rp=rp, ci=ci, nc=nc, dt=dt))
        blocks.append(row)
    return blocks


BLOCK_KINDS = ['none', 'none', 'none', 'lengths', 'dtype', 'rowsizes', 'colsizes', 'lengths', 'rp_first', 'colrange', 'negcol', 'rowptr-order', 'order']


def corrupt_blocks(rng, blocks):
    kind = rng.choice(BLOCK_KINDS)
    i = rng.randrange(len(blocks)); j = rng.randrange(len(blocks[i])); b = blocks[i][j]
    if kind == 'dtype' and (i, j) != (0, 0):
        b['dt'] = (b['dt'] + rng.choice([1, 2])) % 3
    elif kind == 'rowsizes' and len(blocks[i]) >= 2 and j >= 1:
        b['rp'] = b['rp'] + [b['rp'][-1]]
    elif kind == 'colsizes' and len(blocks) >= 2 and i >= 1:
        b['nc'] += 1
    elif kind == 'lengths' and b['v']:
        r = rng.random()
        if r < .25: b['v'] = b['v'] + [9]; b['ci'] = b['ci'] + [b['ci'][-1]]
        elif r < .5: b['v'] = b['v'] + [9]                      # one value more than column indices / row pointers say
        elif r < .75: b['ci'] = b['ci'] + [min(b['ci'][-1] + 1, b['nc'] - 1)]
        else: b['rp'] = b['rp'][:-1] + [b['rp'][-1] - 1]
    elif kind == 'rp_first' and len(b['v']) >= 1 and b['rp'][1] >= 1:
        b['rp'] = [1] + b['rp'][1:]
    elif kind == 'colrange' and b['v']:
        k = rng.randrange(len(b['ci'])); b['ci'] = list(b['ci']); b['ci'][k] = b['nc'] + rng.randint(0, 1)
    elif kind == 'negcol' and b['v']:
        k = rng.randrange(len(b['ci'])); b['ci'] = list(b['ci']); b['ci'][k] = -1
    elif kind == 'rowptr-order' and len(b['rp']) >= 3:
        # non-monotone row pointers, possibly compensated by a sibling block (the accepted case found on the pinned tree)
        k = rng.randrange(1, len(b['rp']) - 1); b['rp'] = list(b['rp']); b['rp'][k] = b['rp'][-1] + rng.randint(1, 3)
        if len(blocks[i]) >= 2 and rng.random() < .7:
            s = blocks[i][j-1]; n = len(s['rp']) - 1
            if n == len(b['rp']) - 1 and s['nc'] > 0:
                # rewrite the sibling so that merged row ends are monotone: sibling has all its entries in the last rows
                cnt = b['rp'][k] - b['rp'][k+1] if k + 1 < len(b['rp']) else 0
                cnt = min(cnt, s['nc'])
                if cnt > 0:
                    s['v'] = [7] * cnt; s['ci'] = list(range(cnt)); s['rp'] = [0] * (k + 1) + [cnt] * (n - k)
    elif kind == 'order' and len(b['v']) >= 2:
        k = rng.randrange(1, len(b['ci'])); b['ci'] = list(b['ci']); b['ci'][k-1], b['ci'][k] = b['ci'][k], b['ci'][k-1]
    else:
        kind = 'none'
    return kind


def py_blocks_ok(blocks):
    """(ok, reason): python transcription of `blocksOK`"""
    if not blocks or any(not r for r in blocks): return False, 'sizes'
    tot = sum(b['nc'] for b in blocks[0])
    for row in blocks:
        if sum(b['nc'] for b in row) != tot: return False, 'sizes'
        for b in row:
            if len(b['rp']) != len(row[0]['rp']) or not b['rp']: return False, 'sizes'
    for row in blocks:
        for b in row:
            v, rp, ci = b['v'], b['rp'], b['ci']
            if rp[0] != 0 or rp[-1] != len(v) or len(ci) != len(v): return False, 'lengths'
            if any(x > y for x, y in zip(rp, rp[1:])): return False, 'rowptr-order'
            if any(not 0 <= x < b['nc'] for x in ci): return False, 'colrange'
            if not py_valid_csr(v, rp, ci, b['nc']): return False, 'order'
    return True, ''


def py_block_dense(blocks, key='v'):
    out = []
    for row in blocks:
        ds = [py_dense(b[key], b['rp'], b['ci'], b['nc']) for b in row]
        for i in range(len(row[0]['rp']) - 1):
            out.append([x for d in ds for x in d[i]])
    return out


def block_req(blocks, key):
    return 'block|' + '#'.join('/'.join('%s,%s,%s,%d,%d' % (ints(b[key]), ints(b['rp']), ints(b['ci']), b['nc'], b['dt']) for b in row) for row in blocks)


def stream_block(c, matrix, batch, N):
    B = lambda v, rp, ci, nc, dt=0: dict(v=v, rp=rp, ci=ci, nc=nc, dt=dt)
    corpus = [('lengths', [[B([5, 6], [0, 1], [0, 1], 2), B([7], [0, 1], [0], 2)]]),
              ('rp_first', [[B([5, 6], [1, 2], [0, 1], 2), B([7], [0, 1], [0], 2)]]),
              ('colrange', [[B([5], [0, 1], [2], 2), B([], [0, 0], [], 2)]]),
              ('negcol', [[B([], [0, 0], [], 2), B([7], [0, 1], [-1], 2)]]),
              ('rowptr-order', [[B([5, 6], [0, 5, 2], [0, 1], 2), B([7, 8, 9], [0, 0, 3], [0, 1, 2], 3)]]),
              ('none', [[B([], [0, 0], [], 2), B([], [0, 0], [], 1)]]),
              ('none', [[B([1], [0, 1], [0], 1), B([], [0, 0], [], 2)], [B([], [0, 0, 0], [], 0), B([2, 3], [0, 1, 2], [2, 0], 3)]]),
              ('none', [[B([], [0], [], 2)], [B([4], [0, 1], [1], 2)]]),
              ('dtype', [[B([1], [0, 1], [0], 2), B([1], [0, 1], [0], 1, 1)]])]
    cases = [dict(tag=t, blocks=b) for t, b in corpus]
    for _ in range(N):
        blocks = gen_blocks(c.rng)
        tag = corrupt_blocks(c.rng, blocks)
        cases.append(dict(tag=tag, blocks=blocks))
    for k in cases:
        for row in k['blocks']:
            for b in row:
                b['w'] = gen_imag(c.rng, b['v'], DT[b['dt']])
        k['q'] = batch.add(block_req(k['blocks'], 'v'))
        k['qi'] = batch.add(block_req(k['blocks'], 'w')) if any(any(b['w']) for row in k['blocks'] for b in row) else None

    def evaluate():
        ndis = 0
        for k in cases:
            ndis += eval_block_case(c, matrix, k, batch[k['q']], batch[k['qi']] if k['qi'] is not None else None)
        c.obligation('corr:assemble_block_csr', ndis == 0, 'correspondence', '%d block structures' % len(cases))
    return evaluate


def eval_block_case(c, matrix, k, a, ai):
    blocks, tag = k['blocks'], k['tag']
    real_blocks = [[(arr(b['v'], b['w'], DT[b['dt']]), numpy.array(b['rp'], dtype=int), numpy.array(b['ci'], dtype=int), b['nc']) for b in row] for row in blocks]
    captured = []
    orig = matrix.assemble_csr

    def spy(values, rowptr, colidx, ncols):
        captured.append((numpy.asarray(values), [int(x) for x in rowptr], [int(x) for x in colidx], int(ncols)))
        return orig(values, rowptr, colidx, ncols)
    matrix.assemble_csr = spy
    try:
        kind, payload, M = outcome(matrix, lambda: matrix.assemble_block_csr(real_blocks))
    finally:
        matrix.assemble_csr = orig
    f = a.split('|')
    ok_struct, why = py_blocks_ok(blocks)
    # the Lean `blocksOK` is about the structure; equal dtypes are required on top of it (the code asserts them)
    ok = ok_struct and all(b['dt'] == blocks[0][0]['dt'] for row in blocks for b in row)
    if ok_struct and not ok: why = 'dtype'
    nnz_blocks = [sum(1 for b in row if b['v']) for row in blocks]
    c.count('block:' + tag); c.count('block-real:' + (kind if kind == 'accept' else payload[0]))
    if kind == 'accept':
        c.count('block-path:' + ('empty-shortcut' if not any(nnz_blocks) else 'fast+generic' if 1 in nnz_blocks and any(n != 1 for n in nnz_blocks) else 'fast' if all(n == 1 for n in nnz_blocks) else 'generic'))
        if any(not b['v'] and b['nc'] > 0 for row in blocks for b in row): c.count('block:has-empty-block')
    c.case(('block', block_req(blocks, 'v'), block_req(blocks, 'w')), nontrivial=any(nnz_blocks))
    c.sample(dict(op='assemble_block_csr', blocks=[[[b['v'], b['rp'], b['ci'], b['nc']] for b in row] for row in blocks], real=kind), limit=9)
    replay = dict(op='assemble_block_csr', tag=tag, blocks=blocks, real=[kind, payload], model=a, model_imag=ai, captured=[(list(map(complex, t[0])),) + t[1:] for t in captured])
    spec = a[a.index('|ok='):].split('|')[1:]        # ok=., spec triple, blockDense
    if (spec[0] == 'ok=1') != ok_struct:
        c.broken_no_input('corr:blocksOK-vs-python-spec', 'Lean blocksOK and the python transcription disagree', replay); return 1
    # --- property oracle
    if kind == 'accept' and not ok:
        c.failing_input('assemble_block_csr-accepts-invalid-block:' + why, 'assemble_block_csr accepts block data that does not define a matrix unambiguously (%s)' % why, replay); return 1
    if kind == 'reject' and ok:
        nr = sum(len(row[0]['rp']) - 1 for row in blocks)
        if nr == 0 and not payload[1]:
            c.failing_input('assemble:zero-rows-fails', 'a valid block structure with zero rows cannot be assembled (%s)' % payload[0], replay)
        else:
            c.failing_input('assemble_block_csr-rejects-valid', 'assemble_block_csr rejects well-formed block data', replay)
        return 1
    if kind == 'accept':
        want_re = py_block_dense(blocks, 'v'); want_im = py_block_dense(blocks, 'w')
        if rows(want_re) != spec[2]:
            c.broken_no_input('corr:blockDense-vs-python-spec', 'Lean blockDense and the python block matrix disagree', replay); return 1
        if payload is None or payload[0] == 'badshape' or payload[0] != want_re or payload[1] != want_im:
            c.failing_input('assemble_block_csr-wrong-dense', 'block matrix differs from the block matrix of the blocks\' dense meanings', dict(replay, want=[want_re, want_im])); return 1
        if M.dtype != numpy.dtype(DT[blocks[0][0]['dt']]):
            c.failing_input('assemble_block_csr-wrong-dense', 'block matrix has the wrong dtype', replay); return 1
        c.traces += 1
    # --- correspondence of the code model
    if kind == 'reject':
        name, is_me, msg = payload
        cls = ('rowsizes' if 'row sizes' in msg else 'dtype' if 'dtype' in msg else 'colsizes' if 'column sizes' in msg else 'assert') if name == 'AssertionError' else \
              ('blockrowptr' if 'row indices for a block' in msg else 'blockcolidx' if 'column indices for a block' in msg else 'reject') if is_me else 'exc:' + name
        mcls = f[1] if f[0] == 'err' else ('reject' if f[3].startswith('reject') else f[3])
        if cls != mcls:
            c.broken_no_input('corr:assemble_block_csr', 'model and implementation disagree on the rejection class (%s vs %s)' % (cls, mcls), replay); return 1
        return 0
    if f[0] != 'merged' or not f[3].startswith('accept'):
        c.broken_no_input('corr:assemble_block_csr', 'implementation accepts, model does not', replay); return 1
    mv, mrp, mci, mnc = f[2].split(';')
    if f[1] == 'any=0':
        mv, mci = '', ''
    if len(captured) != 1:
        c.broken_no_input('corr:assemble_block_csr', 'expected exactly one call of assemble_csr', replay); return 1
    cv, crp, cci, cnc = captured[0]
    civ = ai.split('|')[2].split(';')[0] if ai is not None and f[1] == 'any=1' else ints([0] * len(cv))
    if (ints(cv.real), ints(cv.imag) if cv.dtype.kind == 'c' else ints([0] * len(cv)), ints(crp), ints(cci), str(cnc)) != (mv, civ, mrp, mci, mnc):
        c.broken_no_input('corr:assemble_block_csr-merged-triple', 'the triple handed to assemble_csr differs from the code model (fast path / generic path / empty-block skipping / offsets)', replay); return 1
    if ok and f[4] != 'agrees=1' and f[1] == 'any=1':
        c.broken_no_input('corr:block-code-model-vs-merge-spec', 'blockMergeCode and blockMerge differ on a well-formed block structure (theorem block_code)', replay); return 1
    if rows(payload[0]) != f[3][len('accept:'):]:
        c.broken_no_input('corr:assemble_block_csr', 'dense result differs from the model', replay); return 1
    return 0


# ================================================================ stream: empty / diag / eye

def stream_ctor(c, matrix, N):
    bad = 0; n = 0
    shapes = [(0, 0), (0, 3), (2, 0), (1, 1), (2, 3)] + [(c.rng.randint(0, 4), c.rng.randint(0, 4)) for _ in range(N)]
    for nr, nc in shapes:
        for dtype in (float, complex):
            kind, payload, M = outcome(matrix, lambda: matrix.empty((nr, nc), dtype=dtype)); n += 1
            c.case(('empty', nr, nc, dtype.__name__), nontrivial=False); c.count('ctor:empty')
            if kind != 'accept' or payload[0] != [[0] * nc] * nr or payload[1] != [[0] * nc] * nr or M.dtype != numpy.dtype(dtype) or tuple(M.shape) != (nr, nc):
                bad += 1
                sig = 'assemble:zero-rows-fails' if kind == 'reject' and nr == 0 and not payload[1] else 'ctor-wrong:empty'
                c.failing_input(sig, 'matrix.empty(%r) is not the zero matrix of that shape' % ((nr, nc),), dict(op='empty', shape=[nr, nc], dtype=dtype.__name__, real=[kind, payload]))
    for _ in range(len(shapes)):
        k = c.rng.randint(0, 4); dtype = c.rng.choice([float, complex])
        dv = [c.rng.choice(VALS) for _ in range(k)]; dw = gen_imag(c.rng, dv, dtype)
        kind, payload, M = outcome(matrix, lambda: matrix.diag(arr(dv, dw, dtype))); n += 1
        c.case(('diag', tuple(dv), tuple(dw)), nontrivial=k > 0); c.count('ctor:diag')
        want = lambda x: [[x[i] if i == j else 0 for j in range(k)] for i in range(k)]
        if kind != 'accept' or payload[0] != want(dv) or payload[1] != want(dw) or M.dtype != numpy.dtype(dtype):
            bad += 1
            sig = 'assemble:zero-rows-fails' if kind == 'reject' and k == 0 and not payload[1] else 'ctor-wrong:diag'
            c.failing_input(sig, 'matrix.diag(d) is not the diagonal matrix of d', dict(op='diag', d=dv, imag=dw, real=[kind, payload]))
    for k in range(5):
        kind, payload, M = outcome(matrix, lambda: matrix.eye(k)); n += 1
        c.case(('eye', k), nontrivial=k > 0); c.count('ctor:eye')
        if kind != 'accept' or payload[0] != [[int(i == j) for j in range(k)] for i in range(k)] or any(any(r) for r in payload[1]):
            bad += 1
            sig = 'assemble:zero-rows-fails' if kind == 'reject' and k == 0 and not payload[1] else 'ctor-wrong:eye'
            c.failing_input(sig, 'matrix.eye(n) is not the identity', dict(op='eye', n=k, real=[kind, payload]))
    c.obligation('corr:empty-diag-eye', bad == 0, 'correspondence', '%d constructor calls' % n)


# ================================================================ stream: operation sequences

def make_proxy(matrix):
    class ProxyMatrix(matrix.Matrix):
        '''implements only the abstract methods of the real base class, by delegation to a NumpyMatrix'''

        def __init__(self, inner):
            self.inner = inner
            super().__init__(inner.shape, inner.dtype)

        def __add__(self, other):
            return ProxyMatrix(self.inner + (other.inner if isinstance(other, ProxyMatrix) else other))

        def __mul__(self, other):
            return ProxyMatrix(self.inner * other)

        def __matmul__(self, other):
            return self.inner @ other

        def __neg__(self):
            return ProxyMatrix(-self.inner)

        @property
        def T(self):
            return ProxyMatrix(self.inner.T)

        def _submatrix(self, rows, cols):
            return ProxyMatrix(self.inner._submatrix(rows, cols))

        def export(self, form):
            return self.inner.export(form)
    return ProxyMatrix


SCALARS = [2, -3, 0, 1, -1, 0.5, 4, 1j, -2j, 1 + 1j, 2 - 1j]
DIVISORS = [1, -1, 2, -2, 4, 0.5, 1j, 2j, 1 + 1j, 1 - 1j]


def gen_selector(rng, n, allow_bad=True):
    """returns (form, data, expected bool list or None when it must raise)"""
    r = rng.random()
    if r < .12:
        return 'bool', [True] * n, [True] * n
    if r < .5:
        b = [rng.random() < .6 for _ in range(n)]
        return 'bool', b, b
    if r < .8:
        b = [rng.random() < .6 for _ in range(n)]
        return 'int', [i for i in range(n) if b[i]], b
    if r < .85:
        return 'int', list(range(n)), [True] * n
    if not allow_bad or n < 2:
        return 'int', [], [False] * n
    kind = rng.choice(['unsorted', 'oob', 'wronglen', 'neg', 'dup'])
    if kind == 'unsorted': return 'int', [1, 0], None
    if kind == 'oob': return 'int', [0, n], None
    if kind == 'neg': return 'int', [-1, 0], None
    if kind == 'dup': return 'int', [0, 0], None
    return 'bool', [True] * (n + 1), None


def gen_program(c, batch, length):
    """a program = initial matrices + steps; the oracle values are computed here, exactly, without the real code"""
    rng = c.rng
    v, rp, ci, nc = gen_valid_csr(rng, maxn=4)
    nr = len(rp) - 1
    if rng.random() < .35 and nr != nc:      # more square matrices (diagonal)
        v, rp, ci, nc = gen_valid_csr(rng, nrows=nr, ncols=nr)
    dtA = rng.choice([float, complex]); dtB = rng.choice([float, complex])
    wA = gen_imag(rng, v, dtA)
    v2 = [rng.choice([0, 1, -2, 3]) for _ in v]; w2 = gen_imag(rng, v2, dtB)
    v3, rp3, ci3, nc3 = gen_valid_csr(rng, nrows=rng.choice([nr + 1, nc if nc != nr else nr + 2]), ncols=rng.choice([nc, nc + 1]))
    init = {'A': dict(v=v, w=wA, rp=rp, ci=ci, nc=nc, dtype=dtA.__name__), 'B': dict(v=v2, w=w2, rp=rp, ci=ci, nc=nc, dtype=dtB.__name__),
            'C': dict(v=v3, w=[0] * len(v3), rp=rp3, ci=ci3, nc=nc3, dtype='float')}
    O = {}
    for name, k in init.items():
        dr = py_dense(k['v'], k['rp'], k['ci'], k['nc']); di = py_dense(k['w'], k['rp'], k['ci'], k['nc'])
        O[name] = OM([[Q(a, b) for a, b in zip(r, s)] for r, s in zip(dr, di)], k['nc'], k['dtype'] == 'complex')
    steps = []; sels = {}; nout = 0; nsel = 0
    names = lambda: [n for n in O]
    for _ in range(length):
        a = rng.choice(names()); X = O[a]
        op = rng.choice(['add', 'sub', 'sub', 'neg', 'mul', 'rmul', 'div', 'T', 'submatrix', 'submatrix', 'matvec', 'matmat', 'export', 'pickle', 'diagonal', 'rowsupp', 'rowsupp',
                         'badshape', 'badtype', 'flipsel', 'flipsel', 'subsel', 'subsel', 'subsel'])
        st = dict(op=op, a=a)
        if op in ('add', 'sub'):
            same = [n for n in names() if O[n].shape == X.shape]
            b = rng.choice(same); Y = O[b]; st['b'] = b
            res = X.map2(Y, (lambda x, y: x + y) if op == 'add' else (lambda x, y: x - y))
        elif op == 'neg':
            res = X.map1(lambda x: -x)
        elif op in ('mul', 'rmul'):
            s = rng.choice(SCALARS); st['s'] = repr(s); q = Q.of(s)
            res = X.map1(lambda x: x * q, cplx=X.cplx or isinstance(s, complex))
        elif op == 'div':
            s = rng.choice(DIVISORS); st['s'] = repr(s); q = Q.of(s).inv()
            res = X.map1(lambda x: x * q, cplx=X.cplx or isinstance(s, complex))
        elif op == 'T':
            res = X.T()
        elif op == 'submatrix':
            fr, dr_, er = gen_selector(rng, X.nr); fc, dc_, ec = gen_selector(rng, X.nc)
            st.update(rows=[fr, dr_], cols=[fc, dc_])
            res = None if er is None or ec is None else X.sub(er, ec)
            st['expect'] = 'error' if res is None else ('self' if all(er) and all(ec) else 'matrix')
        elif op == 'newsel':
            nsel += 1; nm = 'S%d' % nsel
            n = rng.choice([X.nr, X.nc]); sels[nm] = [rng.random() < .6 for _ in range(n)]
            st.update(name=nm, value=list(sels[nm])); steps.append(st); continue
        elif op == 'flipsel':
            cand = [n for n in sels if sels[n]]
            if not cand: continue
            nm = rng.choice(cand); k = rng.randrange(len(sels[nm])); sels[nm][k] = not sels[nm][k]
            st.update(name=nm, index=k); steps.append(st); continue
        elif op == 'subsel':
            rs = [n for n in sels if len(sels[n]) == X.nr]; cs = [n for n in sels if len(sels[n]) == X.nc]
            for lst, n in ((rs, X.nr), (cs, X.nc)):
                if not lst or rng.random() < .2:      # create a new persistent selector array
                    nsel += 1; nm = 'S%d' % nsel; sels[nm] = [rng.random() < .6 for _ in range(n)]
                    steps.append(dict(op='newsel', a=a, name=nm, value=list(sels[nm]))); lst.append(nm)
            r_, c_ = rng.choice(rs), rng.choice(cs); st.update(rows=r_, cols=c_)
            res = X.sub(sels[r_], sels[c_])
            st['expect'] = 'self' if all(sels[r_]) and all(sels[c_]) else 'matrix'
        elif op in ('matvec', 'matmat'):
            shape = (X.nc,) if op == 'matvec' else (X.nc, rng.choice([0, 1, 2])) + ((2,) if rng.random() < .2 else ())
            cplx = rng.random() < .3
            n = 1
            for s_ in shape: n *= s_
            xr = [rng.randint(-3, 3) for _ in range(n)]; xi = [rng.randint(-2, 2) if cplx else 0 for _ in range(n)]
            st.update(shape=list(shape), xr=xr, xi=xi)
            flat = [Q(p, q_) for p, q_ in zip(xr, xi)]
            inner = 1
            for s_ in shape[1:]: inner *= s_
            want = [[sum((X.rows[i][j] * flat[j * inner + t] for j in range(X.nc)), Q()) for t in range(inner)] for i in range(X.nr)]
            st['want'] = [[(str(x.re), str(x.im)) for x in r] for r in want]
            steps.append(st); continue
        elif op == 'badshape':
            kind = rng.choice(['add', 'sub', 'matvec', 'radd'])
            st['kind'] = kind
            if kind in ('add', 'sub', 'radd'):
                other = [n for n in names() if O[n].shape != X.shape]
                if not other: continue
                st['b'] = rng.choice(other)
            steps.append(st); continue
        elif op == 'badtype':
            st['kind'] = rng.choice(['add-scalar', 'mul-matrix', 'mul-str', 'matmul-list', 'add-array', 'sub-scalar'])
            steps.append(st); continue
        elif op == 'rowsupp':
            st['tol'] = rng.choice([0, 0, 1, 2, 3])
            st['want'] = [any(x.abs2() > st['tol'] ** 2 for x in r) for r in X.rows]
            if X.isint() and not X.cplx:
                st['q'] = batch.add('export|%s|%d|%d|%d' % (rows(X.introws()), X.nr, X.nc, st['tol']))
            steps.append(st); continue
        elif op in ('export', 'pickle', 'diagonal'):
            if op != 'pickle' and X.isint() and not any(x.im for r in X.rows for x in r):
                st['q'] = batch.add('export|%s|%d|%d|0' % (rows(X.introws()), X.nr, X.nc))
            steps.append(st); continue
        if res is not None and op not in ('submatrix', 'subsel') or (op in ('submatrix', 'subsel') and st['expect'] == 'matrix'):
            nout += 1; st['out'] = 'R%d' % nout; O[st['out']] = res
        steps.append(st)
    return dict(init=init, steps=steps, proxy=rng.random() < .5), O


def qrows(d):
    return [[Q.of(x) for x in r] for r in d]


def run_program(c, matrix, Proxy, prog, O, batch, replay_extra=None):
    """execute the steps on the real code and compare with the oracle; returns number of failures"""
    R = {}
    with_proxy = prog['proxy']
    for name, k in prog['init'].items():
        dtype = dict(float=float, complex=complex)[k['dtype']]
        try:
            M = matrix.assemble_csr(arr(k['v'], k['w'], dtype), numpy.array(k['rp'], dtype=int), numpy.array(k['ci'], dtype=int), k['nc'])
        except Exception as e:      # the initial triples are valid by construction
            c.failing_input('assemble:zero-rows-fails' if len(k['rp']) == 1 and not isinstance(e, matrix.MatrixError) else 'assemble_csr-rejects-valid',
                            'a valid triple cannot be assembled (%s: %s)' % (type(e).__name__, str(e)[:80]), dict(op='assemble_csr', case=dict(k, tag='valid')))
            return 1
        R[name] = Proxy(M) if with_proxy and name != 'B' else M      # B stays a NumpyMatrix: mixed operands go through NumpyMatrix.convert
    sels = {}; flipped_since = {}     # selector name -> matrices that saw it before an in-place flip
    last_sub = {}                     # matrix name -> (rows name, cols name) of the last subsel call
    nfail = 0

    def fail(sig, what, st, **extra):
        nonlocal nfail
        nfail += 1
        c.failing_input(sig, what, dict(op='opseq', program=prog, step=st, **extra, **(replay_extra or {})))

    def check_matrix(M, want, st, opname):
        got = om_of_real(M)
        if got is None or got.shape != want.shape or got.rows != want.rows:
            return fail('matrix-op-wrong:' + opname, 'matrix operation %s disagrees with the dense matrix defined by the input' % opname, st,
                        got=None if got is None else got.tolist(), want=want.tolist())
        if (M.dtype.kind == 'c') != want.cplx or M.export('dense').dtype != M.dtype:
            return fail('matrix-op-wrong:' + opname + '-dtype', 'result dtype of %s is wrong' % opname, st, got=str(M.dtype), want_complex=want.cplx)
        return True

    def expect_error(fn, st, allowed, opname):
        try:
            fn()
        except allowed:
            c.count('op-error-ok:' + opname); return True
        except Exception as e:
            return fail('matrix-op-wrong-error:' + opname, '%s with an invalid operand raises %s instead of MatrixError/TypeError' % (opname, type(e).__name__), st)
        return fail('matrix-op-accepts-invalid:' + opname, '%s with an invalid operand does not raise' % opname, st)

    for st in prog['steps']:
        op = st['op']; A = R.get(st['a']); X = O.get(st['a'])
        if A is None: break
        c.count('op:' + op + ('/base' if isinstance(A, Proxy) else '/numpy'))
        try:
            if op in ('add', 'sub', 'neg', 'mul', 'rmul', 'div', 'T'):
                s = eval(st['s']) if 's' in st else None
                M = A + R[st['b']] if op == 'add' else A - R[st['b']] if op == 'sub' else -A if op == 'neg' else A * s if op == 'mul' else s * A if op == 'rmul' else A / s if op == 'div' else A.T
                if check_matrix(M, O[st['out']], st, op) is not True: break
                R[st['out']] = M
            elif op == 'submatrix':
                mk = lambda fd: numpy.array(fd[1], dtype=bool if fd[0] == 'bool' else int) if fd[1] or fd[0] == 'bool' else []
                if st['expect'] == 'error':
                    if expect_error(lambda: A.submatrix(mk(st['rows']), mk(st['cols'])), st, Exception, 'submatrix') is not True: break
                    continue
                M = A.submatrix(mk(st['rows']), mk(st['cols']))
                if st['expect'] == 'self':
                    c.count('op:submatrix-all-true')
                    if check_matrix(M, X, st, 'submatrix') is not True: break
                else:
                    if check_matrix(M, O[st['out']], st, 'submatrix') is not True: break
                    R[st['out']] = M
                last_sub.pop(st['a'], None)
            elif op == 'newsel':
                sels[st['name']] = numpy.array(st['value'], dtype=bool)
            elif op == 'flipsel':
                sels[st['name']][st['index']] ^= True      # in place: the same array object is passed again later
                flipped_since[st['name']] = True
            elif op == 'subsel':
                M = A.submatrix(sels[st['rows']], sels[st['cols']])
                want = X if st['expect'] == 'self' else O[st['out']]
                got = om_of_real(M)
                if got is None or got.shape != want.shape or got.rows != want.rows:
                    stale = last_sub.get(st['a']) == (st['rows'], st['cols']) and (flipped_since.get(st['rows']) or flipped_since.get(st['cols']))
                    fail('submatrix-cache-aliases-selector' if stale else 'matrix-op-wrong:submatrix',
                         'submatrix returns the cached result of an earlier selection after the selector array was modified in place' if stale else
                         'submatrix disagrees with the dense matrix defined by the input', st, got=None if got is None else got.tolist(), want=want.tolist())
                    break
                if st['expect'] == 'matrix': R[st['out']] = M
                last_sub[st['a']] = (st['rows'], st['cols']); flipped_since[st['rows']] = False; flipped_since[st['cols']] = False
                c.count('op:subsel-after-flip' if any(s['op'] == 'flipsel' for s in prog['steps'][:prog['steps'].index(st)]) else 'op:subsel')
            elif op in ('matvec', 'matmat'):
                x = numpy.array([complex(p, q_) for p, q_ in zip(st['xr'], st['xi'])]).reshape(st['shape'])
                if not any(st['xi']): x = x.real.copy()
                y = A @ x
                want = [[Q(Fraction(p), Fraction(q_)) for p, q_ in r] for r in st['want']]
                inner = 1
                for s_ in st['shape'][1:]: inner *= s_
                got = qrows(numpy.asarray(y).reshape(X.nr, inner)) if y.shape == (X.nr,) + tuple(st['shape'][1:]) else None
                if got != want:
                    fail('matrix-op-wrong:matmul', 'matrix @ array disagrees with the dense matrix defined by the input', st, got=repr(y)); break
            elif op == 'badshape':
                kind = st['kind']
                if kind == 'matvec':
                    fn = lambda: A @ numpy.ones(X.nc + 1)
                else:
                    Bm = R.get(st['b'])
                    if Bm is None: continue
                    fn = (lambda: A + Bm) if kind == 'add' else (lambda: A - Bm) if kind == 'sub' else (lambda: Bm + A)
                if expect_error(fn, st, (matrix.MatrixError,), 'shape-' + kind) is not True: break
            elif op == 'badtype':
                kind = st['kind']
                fn = {'add-scalar': lambda: A + 1, 'sub-scalar': lambda: A - 1., 'mul-matrix': lambda: A * A, 'mul-str': lambda: A * 'x',
                      'matmul-list': lambda: A @ [0] * X.nc, 'add-array': lambda: A + numpy.zeros(X.shape)}[kind]
                if expect_error(fn, st, (TypeError,), 'type-' + kind) is not True: break
            elif op == 'rowsupp':
                got = [bool(t) for t in A.rowsupp(st['tol'])] if st['tol'] else [bool(t) for t in (A.rowsupp() if X.nr % 2 else A.rowsupp(0))]
                if got != st['want']:
                    fail('matrix-op-wrong:rowsupp', 'rowsupp(tol) disagrees with the dense matrix defined by the input', st, got=got); break
                if 'q' in st:
                    f = batch[st['q']].split('|')
                    if f[6] != ''.join('01'[b] for b in got) or f[6] != f[7]:
                        c.broken_no_input('corr:rowsupp', 'model cooRowsupp/dRowsupp disagree with the implementation', dict(op='opseq', program=prog, step=st, model=batch[st['q']])); nfail += 1; break
            elif op == 'diagonal':
                if X.nr != X.nc:
                    if expect_error(lambda: A.diagonal(), st, (matrix.MatrixError,), 'diagonal-nonsquare') is not True: break
                    continue
                got = [Q.of(t) for t in A.diagonal()]
                if got != [X.rows[i][i] for i in range(X.nr)]:
                    fail('matrix-op-wrong:diagonal', 'diagonal() disagrees with the dense matrix defined by the input', st, got=repr(got)); break
                if 'q' in st:
                    f = batch[st['q']].split('|')
                    if f[4] != ints([int(g.re) for g in got]) or f[4] != f[5]:
                        c.broken_no_input('corr:diagonal', 'model csrDiagonal∘exportCSR / dDiag disagree with the implementation', dict(op='opseq', program=prog, step=st, model=batch[st['q']])); nfail += 1; break
            elif op == 'pickle':
                for proto in (2, pickle.HIGHEST_PROTOCOL):
                    M = pickle.loads(pickle.dumps(A, proto))
                    if check_matrix(M, X, st, 'pickle') is not True: break
                else:
                    continue
                break
            elif op == 'export':
                if check_export(c, matrix, A, X, st, batch, fail, prog) is not True: break
        except Exception as e:
            zero_rows = X is not None and X.nr == 0 and op in ('pickle', 'export') and not isinstance(e, matrix.MatrixError)
            fail('assemble:zero-rows-fails' if zero_rows else 'matrix-op-raises:' + op,
                 'matrix operation %s raises %s: %s on valid operands' % (op, type(e).__name__, str(e)[:80]), st); break
    return nfail


def check_export(c, matrix, A, X, st, batch, fail, prog):
    nz = X.nz()
    data, cols, rowptr = A.export('csr')
    got = ([Q.of(t) for t in data], [int(t) for t in cols], [int(t) for t in rowptr])
    want_rp = [sum(1 for i, _, _ in nz if i < r) for r in range(X.nr + 1)]
    # specification: the exported triple must be a valid CSR triple whose dense meaning is the matrix
    re_ok = len(got[0]) == len(got[1]) and py_valid_csr([1] * len(got[0]), got[2], got[1], X.nc) and len(got[2]) == X.nr + 1
    if re_ok:
        d = [[Q() for _ in range(X.nc)] for _ in range(X.nr)]
        for i, (a_, b_) in enumerate(zip(got[2], got[2][1:])):
            for k in range(a_, b_): d[i][got[1][k]] = got[0][k]
        re_ok = d == X.rows
    if not re_ok:
        return fail('export-wrong:csr', 'export("csr") is not a valid CSR triple of the matrix (unsorted / out of range / wrong values)', st, got=repr(got))
    if data.dtype != A.dtype:
        return fail('export-wrong:csr-dtype', 'export("csr") data has a different dtype than the matrix', st, got=str(data.dtype))
    if got != ([v for _, _, v in nz], [j for _, j, _ in nz], want_rp):
        c.broken_no_input('corr:export-csr', 'export("csr") is valid but differs from the model (explicit zeros?)', dict(op='opseq', program=prog, step=st, got=repr(got))); return False
    data2, (ri, ci) = A.export('coo')
    got2 = [(int(i), int(j), Q.of(v)) for i, j, v in zip(ri, ci, data2)]
    if sorted(got2, key=lambda t: t[:2]) != nz or len(set(t[:2] for t in got2)) != len(got2):
        return fail('export-wrong:coo', 'export("coo") does not list the entries of the matrix', st, got=repr(got2))
    if got2 != nz:
        c.broken_no_input('corr:export-coo', 'export("coo") is correct but not in row-major order as in the model', dict(op='opseq', program=prog, step=st, got=repr(got2))); return False
    # round trips through the assemblers
    for name, fn in (('csr-roundtrip', lambda: matrix.assemble_csr(data, rowptr, cols, X.nc)), ('coo-roundtrip', lambda: matrix.assemble_coo(data2, ri, X.nr, ci, X.nc))):
        got3 = om_of_real(fn())
        if got3 is None or got3.rows != X.rows or got3.shape != X.shape:
            return fail('matrix-op-wrong:' + name, 'assembling the exported data does not reproduce the matrix', st)
    try:
        A.export('nonsense')
        return fail('export-wrong:unknown-form', 'export of an unknown form does not raise', st)
    except NotImplementedError:
        pass
    if 'q' in st:
        f = batch[st['q']].split('|')
        if [f[0], f[1], f[2]] != [ints([int(v.re) for _, _, v in nz]), ints(got[1]), ints(got[2])] or f[3] != ints([i for i, _, _ in nz]) or not f[8].startswith('accept:') or f[8][7:] != rows(X.introws()):
            c.broken_no_input('corr:export', 'model exportCSR/exportCOO (or its reassembly: theorem pickle_roundtrip) disagree with the implementation',
                              dict(op='opseq', program=prog, step=st, model=batch[st['q']])); return False
        c.count('op:export-vs-lean')
    return True


def stream_ops(c, matrix, batch, N):
    progs = [gen_program(c, batch, c.rng.randint(3, 9)) for _ in range(N)]
    # corpus: the in-place selector modification
    sel_prog = dict(init={'A': dict(v=[1, 2, 3], w=[0, 0, 0], rp=[0, 1, 2, 3], ci=[0, 1, 2], nc=3, dtype='float')},
                    steps=[dict(op='newsel', a='A', name='S1', value=[True, False, True]), dict(op='subsel', a='A', rows='S1', cols='S1', expect='matrix', out='R1'),
                           dict(op='flipsel', a='A', name='S1', index=0), dict(op='flipsel', a='A', name='S1', index=1),
                           dict(op='subsel', a='A', rows='S1', cols='S1', expect='matrix', out='R2')], proxy=False)
    q = lambda *r: OM([[Q(x) for x in row] for row in r], len(r[0]))
    progs.append((sel_prog, {'A': q([1, 0, 0], [0, 2, 0], [0, 0, 3]), 'R1': q([1, 0], [0, 3]), 'R2': q([2, 0], [0, 3])}))

    def evaluate():
        Proxy = make_proxy(matrix)
        nfail = 0; nsteps = 0
        for prog, O in progs:
            nfail += run_program(c, matrix, Proxy, prog, O, batch)
            nsteps += len(prog['steps'])
            c.case(('ops', json.dumps(prog, default=repr)), nontrivial=bool(prog['init']['A']['v']))
        c.sample(dict(op='opseq', steps=[s['op'] for s in progs[0][0]['steps']], proxy=progs[0][0]['proxy']), limit=9)
        c.obligation('ops:operation-sequences-vs-exact-dense', nfail == 0, 'correspondence', '%d programs, %d steps' % (len(progs), nsteps))
    return evaluate


# ================================================================ stream: getprecon cache

def stream_precon(c, matrix, N):
    Proxy = make_proxy(matrix)
    bad = 0; n = 0
    for it in range(N):
        k = c.rng.randint(1, 4)
        # upper triangular with power-of-two diagonal: the LU solve and the reciprocal diagonal are exact
        d = [c.rng.choice([1, 2, 4, -1, -2]) for _ in range(k)]
        dense = [[d[i] if i == j else (c.rng.choice([0, 1, -1, 2]) if j > i else 0) for j in range(k)] for i in range(k)]
        v = [x for r in dense for x in r if x]; ci = [j for r in dense for j, x in enumerate(r) if x]
        rp = [0]
        for r in dense: rp.append(rp[-1] + sum(1 for x in r if x))
        try:
            A = matrix.assemble_csr(numpy.array(v, dtype=float), numpy.array(rp), numpy.array(ci), k)
        except Exception as e:
            bad += 1
            c.failing_input('assemble_csr-rejects-valid', 'a valid triple cannot be assembled (%s)' % type(e).__name__, dict(op='assemble_csr', case=dict(v=v, w=[0] * len(v), rp=rp, ci=ci, nc=k, dtype='float', tag='valid')))
            continue
        if it % 2: A = Proxy(A)
        x = [c.rng.randint(-4, 4) * 4 ** k for _ in range(k)]
        sol = [Fraction(0)] * k
        for i in reversed(range(k)):
            sol[i] = (Fraction(x[i]) - sum(dense[i][j] * sol[j] for j in range(i + 1, k))) / dense[i][i]
        want = {'direct': sol, 'diag': [Fraction(x[i], d[i]) for i in range(k)]}
        # `_precon_direct` belongs to NumpyMatrix, `_precon_diag` to the base class
        seq = [c.rng.choice((['direct'] if it % 2 == 0 else []) + ['diag', ('user', 2), ('user', 3), ('user', 2)]) for _ in range(c.rng.randint(2, 5))]
        user = lambda self, k_=1: (lambda y: k_ * y)
        prev = None; prev_obj = None
        for s in seq:
            n += 1
            try:
                P = A.getprecon(user, k_=s[1]) if isinstance(s, tuple) else A.getprecon(s)
                got = [Fraction(float(t)) for t in P(numpy.array(x, dtype=float))]
            except Exception as e:
                got = 'exception %s: %s' % (type(e).__name__, e)
            w = [Fraction(s[1] * t) for t in x] if isinstance(s, tuple) else want[s]
            c.count('precon:' + (s if isinstance(s, str) else 'user'))
            if s == prev and P is prev_obj: c.count('precon:cache-hit')
            if got != w:
                bad += 1
                c.failing_input('getprecon-cache-wrong', 'getprecon returns a preconditioner that does not belong to the requested (name, arguments)',
                                dict(op='getprecon', dense=dense, sequence=[repr(t) for t in seq], at=repr(s), x=x, got=repr(got), want=repr(w)))
                break
            prev, prev_obj = s, P
        c.case(('precon', tuple(map(tuple, dense)), tuple(map(repr, seq))))
    c.obligation('corr:getprecon-cache', bad == 0, 'correspondence', '%d getprecon calls' % n)


# ================================================================ main

def run(c):
    import nutils.matrix as matrix, nutils.numeric as numeric
    c.rule = ('CSR triples: valid ones built from sorted column samples (incl. 0xN, Nx0, empty rows, explicit zeros, Gaussian-integer values) and single '
              'structured corruptions (duplicate / swapped / negative / too large column, broken or shifted row pointers, equal columns at/inside row '
              'boundaries, inconsistent lengths); COO data derived from valid triples with corruptions (shuffled / swapped rows, out-of-range rows, '
              'inconsistent lengths, duplicate positions); block structures (1-3 block rows/columns, zero-size blocks, empty blocks, one non-empty '
              'block per row = fast path, all empty = shortcut, per-row different column partitions) with corruptions (dtype, sizes, invalid block); '
              'operation programs of 3-9 steps over +,-,neg,*,/,.T,submatrix (bool/int/all-true/invalid selectors, selector arrays modified in place),'
              '@ (vector, 2-D, 3-D, complex), export, pickle, diagonal, rowsupp(tol), wrong-shape and wrong-type operands, on NumpyMatrix and on a '
              'minimal subclass of the base Matrix; a case is non-trivial when it has at least one stored entry or is a rejected corruption; distinct by its full data')
    c.assumptions += ['only the numpy matrix backend is installed in this sandbox (no scipy, no mkl): "every available backend" = numpy; _scipy.py/_mkl.py are not executed',
                      'values are integers, Gaussian integers or dyadic fractions of them, so NumPy float/complex arithmetic on them is exact; accuracy on general floats is not part of the check',
                      'the base class Matrix is exercised through a harness-defined subclass that delegates the abstract methods to NumpyMatrix',
                      'matrix.fromsparse is unusable on the pinned tree (NameError: sparse is never imported) and not covered',
                      'solve/_solver (linear solvers) belong to C14 and are not covered here; getprecon is checked only for its cache key']
    matrix.backend('numpy').__enter__() if hasattr(matrix.backend('numpy'), '__enter__') else None
    broken = c.build_and_audit()
    quick = c.tier == 'quick'
    N = 500 if quick else 80000
    if getattr(c, 'replay', None):
        return replay(c, matrix, numeric)
    batch = Batch()
    with matrix.backend('numpy'):
        evals = [stream_csr(c, matrix, batch, N), stream_compress(c, numeric, batch, N), stream_coo(c, matrix, batch, N),
                 stream_block(c, matrix, batch, N), stream_ops(c, matrix, batch, N // 2)]
        c.log('generated %d model requests' % len(batch.lines))
        batch.run(c)
        c.log('model answered; running the implementation')
        for ev in evals:
            ev()
        stream_csr_types(c, matrix)
        stream_ctor(c, matrix, 10 if quick else 100)
        stream_precon(c, matrix, 40 if quick else 2000)
    for b in broken:
        c.broken_no_input('proof', b, dict(detail=b))


def recompute_oracle(prog):
    """the exact values of every named matrix of a recorded program (same semantics as `gen_program`)"""
    O = {}
    for name, k in prog['init'].items():
        dr = py_dense(k['v'], k['rp'], k['ci'], k['nc']); di = py_dense(k['w'], k['rp'], k['ci'], k['nc'])
        O[name] = OM([[Q(a, b) for a, b in zip(r, s)] for r, s in zip(dr, di)], k['nc'], k['dtype'] == 'complex')
    sels = {}
    for st in prog['steps']:
        op = st['op']; X = O.get(st['a'])
        if X is None: break
        if op in ('add', 'sub'):
            Y = O[st['b']]; O[st['out']] = X.map2(Y, (lambda x, y: x + y) if op == 'add' else (lambda x, y: x - y))
        elif op == 'neg':
            O[st['out']] = X.map1(lambda x: -x)
        elif op in ('mul', 'rmul', 'div'):
            sv = eval(st['s']); q = Q.of(sv) if op != 'div' else Q.of(sv).inv()
            O[st['out']] = X.map1(lambda x: x * q, cplx=X.cplx or isinstance(sv, complex))
        elif op == 'T':
            O[st['out']] = X.T()
        elif op == 'newsel':
            sels[st['name']] = list(st['value'])
        elif op == 'flipsel':
            sels[st['name']][st['index']] = not sels[st['name']][st['index']]
        elif op == 'subsel' and st.get('expect') == 'matrix':
            O[st['out']] = X.sub(sels[st['rows']], sels[st['cols']])
        elif op == 'submatrix' and st.get('expect') == 'matrix':
            tob = lambda fd, n: [bool(b) for b in fd[1]] if fd[0] == 'bool' else [i in fd[1] for i in range(n)]
            O[st['out']] = X.sub(tob(st['rows'], X.nr), tob(st['cols'], X.nc))
    return O


def replay(c, matrix, numeric):
    """re-run one recorded case (`./check C15 --replay file`)"""
    r = c.replay; op = r.get('op')
    dt = dict(float=float, complex=complex)
    with matrix.backend('numpy'):
        if op == 'assemble_csr':
            k = dict(r['case']); k['dtype'] = dt[k['dtype']]
            a, = c.model([csr_req(k['v'], k['rp'], k['ci'], k['nc'])]); ai = c.model([csr_req(k['w'], k['rp'], k['ci'], k['nc'])])[0] if any(k['w']) else None
            eval_csr_case(c, matrix, k, a, ai)
        elif op == 'assemble_coo':
            k = dict(r['case']); k['dtype'] = dt[k['dtype']]
            a, = c.model([coo_req(k['v'], k)]); ai = c.model([coo_req(k['w'], k)])[0] if any(k['w']) else None
            eval_coo_case(c, matrix, k, a, ai)
        elif op == 'assemble_block_csr':
            k = dict(tag=r['tag'], blocks=r['blocks'])
            a, = c.model([block_req(k['blocks'], 'v')]); ai = c.model([block_req(k['blocks'], 'w')])[0] if any(any(b['w']) for row in k['blocks'] for b in row) else None
            eval_block_case(c, matrix, k, a, ai)
        elif op == 'opseq':
            prog = r['program']
            for st in prog['steps']: st.pop('q', None)
            batch = Batch(); batch.ans = []
            n = run_program(c, matrix, make_proxy(matrix), prog, recompute_oracle(prog), batch)
            c.obligation('replay:opseq', n == 0, 'correspondence', '%d steps' % len(prog['steps']))
        else:
            raise Infra('replay of %r is not supported; run ./check C15 --tier %s --seed %s' % (op, r.get('tier'), r.get('seed')))
