"""C03 — compiled functions are pure functions of their arguments across calls.

Ties
(X)+(V) every captured generated script (cache_const_intermediates True and False) is parsed with `ast` into the abstract
        statement language of lean/NutilsVerif/Model/C03.lean (nvh.c03_script) and the Lean driver decides the hypotheses
        H1–H3 of the theorems in Props/C03.lean (`checkH`, proved sound); the translation itself is validated against numpy
        (aliasing and writeable flags of every executed assignment).
(M)     the property's oracle on the REAL code: one compiled function per program is driven through generated call histories
        (repeat / change all / change some / in-place mutated argument objects / odd layouts / lists / bad shapes / user
        overwrites of every writable result) and compared call by call with a freshly compiled function and with the exact value
        of the Lean specification evaluator; argument arrays are compared bit for bit before/after.
        Every program additionally gets the alternating history a0 a1 a0 <overwrite results> a1 a0 (`targeted_search`).  Program kind
        `dynstruct` (`DynGen`): loop lengths and axis lengths computed from arguments around argument-free data.
        Long-lived owners (solver.System, function.Basis, topology.locate, trim, sample.bind/eval) are exercised in nvh.c03_owners.

Reading of the property (see notes/C03.md): a result that IS (a view of) the caller's own argument array is not a violation —
the function itself never writes it and a later call still equals fresh(current arguments); it is counted as an observation.
"""
import numpy, collections, json, base64, pickle, copy
from nutils import evaluable as ev, types
from . import genexpr, ser, exprcheck as X, c03_script as S
from .common import Infra

KNOWN_SIG = 'first-run-writable-view-of-cached-constant'


# ---------------------------------------------------------------------------------------------- generators

class CGen(genexpr.Gen):
    """genexpr with recorded argument specs, tunable constant bias and Guard wrappers"""

    def __init__(self, rng, constbias=None, guard=0., **kw):
        super().__init__(rng, **kw)
        self.constbias = constbias
        self.guard = guard
        self.argspec = {}

    def argument(self, dtype, shape, lo=None, hi=None):
        a = super().argument(dtype, shape, lo, hi)
        self.argspec[a.name] = (dtype, tuple(shape), lo, hi)
        return a

    def leaf(self, dtype, shape):
        if self.constbias is not None and self.rng.random() < self.constbias:
            return self.constant(dtype, shape)
        return super().leaf(dtype, shape)

    def array(self, dtype, shape, depth):
        e = super().array(dtype, shape, depth)
        if self.guard and self.rng.random() < self.guard:
            self.hit('Guard')
            e = ev.Guard(e)
        return e

    def newvalue(self, name):
        dtype, shape, lo, hi = self.argspec[name]
        return self.value(dtype, shape, lo, hi)


class DynGen(CGen):
    """CGen with argument-dependent STRUCTURE.  genexpr keeps every structural parameter (loop length, axis length) a literal,
    so arguments reach a node only through its data operands.  Here integer scalars computed from arguments ("dynamic ints":
    Sum(BoolToInt(bool argument)), InRange(int argument), products/minima of those) are used as
      * the LENGTH of loops (LoopSum with a constant-shape body; LoopConcatenate with a dynamic number of chunks),
      * the length of a trailing AXIS (InsertAxis(x, N), Range(N), Zeros(.., N), Take(x, Range(N)) = _TakeSlice, elementwise
        combinations and loop concatenations of those), reduced again by Sum so that the static shape discipline of genexpr holds.
    With a high constant bias the data operands of such nodes are argument-free: whether the node is cached then hinges on the
    structural parameter alone."""

    def __init__(self, rng, pdyn=.7, **kw):
        super().__init__(rng, **kw)
        self.pdyn = pdyn
        self.dynpool = {}

    def dynint(self, nmax):
        """evaluable int scalar with values in [0, nmax], a function of arguments only"""
        rng = self.rng
        pool = self.dynpool.setdefault(nmax, [])
        if pool and rng.random() < .3:
            self.hit('dynint:(shared)')
            return rng.choice(pool)
        c = rng.random()
        if c < .45 and nmax >= 1:
            self.hit('dynint:SumBoolToInt')
            n = ev.Sum(ev.BoolToInt(self.argument(bool, (nmax,))))
        elif c < .8:
            self.hit('dynint:InRange')
            n = ev.InRange(self.argument(int, (), 0, nmax), ev.constant(nmax + 1))
        elif c < .9 and nmax >= 1:
            self.hit('dynint:BoolTimesConst')
            n = ev.Multiply(types.frozenmultiset([ev.BoolToInt(self.argument(bool, ())), ev.constant(nmax)]))
        else:
            self.hit('dynint:Minimum')
            n = ev.Minimum(ev.Sum(ev.BoolToInt(self.argument(bool, (nmax + 1,)))), ev.constant(nmax))
        pool.append(n)
        return n

    def _loop(self):
        if self.rng.random() >= self.pdyn:
            return super()._loop()
        self.nloops += 1
        nmax = self.rng.choice([1, 2, 3, 3])
        self.hit('dynlen:LoopSum')
        idx = ev.loop_index('i%d_%d' % (self.nloops, self.rng.getrandbits(16)), self.dynint(nmax))
        return idx, nmax       # index values stay below nmax: usable wherever an index < nmax is needed

    def ops_for(self, dtype, shape):
        ops = super().ops_for(dtype, shape)
        if len(self.loopstack) < 2 and (self.allow is None or 'DynReduce' in self.allow):
            ops += ['DynReduce'] * max(2, len(ops) // 6)
        return ops

    def mk_DynReduce(self, dtype, shape, depth):
        nmax = self.rng.choice([1, 2, 3])
        N = self.dynint(nmax)
        if dtype != bool and self.rng.random() < .35:
            # a dynamic NUMBER of chunks: loop_concatenate over a loop of argument-dependent length
            c = self.rng.choice([1, 1, 2])
            self.nloops += 1
            idx = ev.loop_index('d%d_%d' % (self.nloops, self.rng.getrandbits(16)), N)
            self.loopstack.append((idx, nmax))
            try:
                body = self.array(dtype, shape + (c,), depth-1)
            finally:
                self.loopstack.pop()
            self.hit('dynlen:LoopConcatenate')
            return ev.Sum(ev.loop_concatenate(body, idx))
        return ev.Sum(self.dynaxis(dtype, shape, N, nmax, depth-1))

    def dynaxis(self, dtype, prefix, N, nmax, depth):
        """array of shape prefix + (N,)"""
        rng = self.rng
        opts = ['InsertAxis', 'InsertAxis', 'Zeros', 'TakeRange']
        if dtype != bool: opts += ['Range']
        if depth > 0:
            opts += ['Add', 'Multiply']
            if dtype == float: opts += ['Trig']
        o = rng.choice(opts)
        self.hit('dynaxis:' + o)
        if o == 'InsertAxis':
            return ev.InsertAxis(self.array(dtype, prefix, depth), N)
        if o == 'Zeros':
            return ev.Zeros(self.const_shape(prefix) + (N,), dtype)
        if o == 'TakeRange':
            return ev.Take(self.array(dtype, prefix + (nmax,), depth), ev.Range(N))
        if o == 'Range':
            e = ev.Range(N)
            if dtype == float: e = ev.IntToFloat(e)
            for k in prefix:
                e = ev.InsertAxis(e, ev.constant(k))
            return ev.Transpose(e, tuple(range(1, len(prefix) + 1)) + (0,)) if prefix else e
        if o == 'Trig':
            return rng.choice([ev.Sin, ev.Cos, ev.Exp])(self.dynaxis(float, prefix, N, nmax, depth-1))
        a, b = self.dynaxis(dtype, prefix, N, nmax, depth-1), self.dynaxis(dtype, prefix, N, nmax, depth-1)
        return (ev.Add if o == 'Add' else ev.Multiply)(types.frozenmultiset([a, b]))


def gen_program(rng, depth):
    """returns (kind, exprs (tuple of arrays), gen)"""
    kind = rng.choice(['gen', 'gen', 'tuple', 'constheavy', 'constheavy', 'insertaxis', 'guarded', 'viewconst', 'dynstruct', 'dynstruct', 'dynstruct'])
    if kind == 'gen':
        g = CGen(rng)
    elif kind == 'dynstruct':
        # argument-dependent loop lengths / axis lengths around (mostly) argument-free data
        g = DynGen(rng, constbias=rng.choice([.5, .8, .95, 1.]), share=rng.choice([.25, .5]))
        depth = max(depth, 2)
    elif kind == 'tuple':
        g = CGen(rng, share=.5)
    elif kind == 'constheavy':
        g = CGen(rng, constbias=.75)
    elif kind == 'insertaxis':
        g = CGen(rng, constbias=.5, allow={'InsertAxis', 'Transpose', 'Add', 'Multiply', 'Trig', 'Take', 'Ravel', 'Unravel', 'Unravel0', 'TakeDiag', 'IntToFloat', 'LoopConcatenate', 'LoopSum'})
    elif kind == 'guarded':
        g = CGen(rng, constbias=.4, guard=.3)
    else:
        g = CGen(rng, constbias=.9)
    def one(d):
        dtype = rng.choice([float, float, float, int, int, bool])
        nd = rng.choice([0, 1, 1, 2, 2, 3])
        shape = tuple(rng.choice([1, 2, 2, 3, 3, 0]) for _ in range(nd))
        return g.array(dtype, shape, d)
    if kind == 'tuple':
        exprs = tuple(one(depth) for _ in range(rng.choice([2, 2, 3])))
    elif kind == 'insertaxis':
        e = one(depth)
        for _ in range(rng.choice([1, 1, 2])):
            e = ev.InsertAxis(e, ev.constant(rng.choice([1, 2, 3])))
        exprs = (e,) if rng.random() < .6 else (e, one(max(1, depth-1)))
    elif kind == 'viewconst':
        # a view-producing node with an argument-dependent parameter applied to a non-trivial constant expression
        n = rng.choice([2, 3])
        K = g.array(float, (rng.choice([1, 2]), n), max(1, depth-1))
        if rng.random() < .7:
            K = ev.Sin(K); g.hit('Trig')     # make sure the constant part is computed (owns its buffer), not a literal
        b = g.argument(bool, (n,))
        cnt = ev.Sum(ev.BoolToInt(b))
        which = rng.choice(['InsertAxis', '_TakeSlice', '_Get'])
        if which == 'InsertAxis': e = ev.InsertAxis(K, cnt)
        elif which == '_TakeSlice': e = ev._TakeSlice(K, ev.constant(1), ev.Minimum(cnt, ev.constant(n-1)))
        else: e = ev._Get(K, ev.Minimum(cnt, ev.constant(n-1)))
        g.hit('viewconst:' + which)
        exprs = (e,)
    elif kind == 'dynstruct':
        exprs = tuple(one(depth) for _ in range(rng.choice([1, 1, 2])))
        if not any(k.startswith(('dynlen:', 'dynaxis:')) for k in g.hits):
            # the random descent picked no dynamic structure: put one at the root of an extra result
            dtype = rng.choice([float, float, int]); shape = tuple(rng.choice([1, 2, 3]) for _ in range(rng.choice([0, 1, 1, 2])))
            g.pdyn = 1.
            exprs += ((g.mk_LoopSum if rng.random() < .5 else g.mk_DynReduce)(dtype, shape, depth),)
    else:
        exprs = (one(depth),)
    return kind, exprs, g


class ProbeGen:
    """fixed argument specs for the hand-written probe programs (same interface as CGen where the driver needs it)"""

    def __init__(self, rng, spec):
        self.rng = rng; self.spec = spec; self.hits = {}
        self.args = {k: self.newvalue(k) for k in spec}

    def newvalue(self, name):
        dtype, shape, lo, hi = self.spec[name]
        r = numpy.random.default_rng(self.rng.getrandbits(32))
        if dtype == bool: return r.integers(0, 2, shape).astype(bool)
        if dtype == int: return r.integers(lo, hi + 1, shape)
        return r.integers(-8, 9, shape) / 4.


def used_arguments(exprs):
    """names of the Argument nodes occurring anywhere in the trees, found by walking the constructor arguments (`__reduce__`) —
    deliberately NOT through `Evaluable.arguments`, which is one of the mechanisms under test"""
    seen = set(); names = set(); stack = list(exprs)
    while stack:
        o = stack.pop()
        if isinstance(o, (tuple, list, frozenset, types.frozenmultiset)):
            stack.extend(o); continue
        if isinstance(o, dict):
            stack.extend(o.values()); continue
        if not isinstance(o, types.DataClass) or id(o) in seen: continue
        seen.add(id(o))
        if isinstance(o, ev.Argument): names.add(o.name)
        try:
            stack.extend(o.__reduce__()[1])
        except Exception:
            stack.extend(getattr(o, 'dependencies', ()))
    return names


def probe_programs(rng):
    """hand-written programs, one per anchored mechanism, so that every run exercises each of them (random programs hit them only
    with some probability): in-place accumulation next to arguments, views of arguments, cached constants used by rerun code,
    possible views of cached constants, mixed (cached + rerun) loops after loop fusion, Guard, scatter/add.at, tuples sharing subterms"""
    c3 = ev.constant(3)
    def A(name, shape=(3,), dtype=float):
        return ev.Argument(name, tuple(ev.constant(n) for n in shape), dtype)
    a, b = A('a'), A('b')
    A2 = A('A', (3, 3))
    n = ev.Sum(ev.BoolToInt(A('m', (3,), bool)))
    i = ev.InRange(A('i', (2,), int), c3)
    K = ev.Sin(ev.constant(numpy.arange(3.)))
    K2 = ev.Cos(ev.constant(numpy.arange(6.).reshape(2, 3) / 4))
    spec = dict(a=(float, (3,), None, None), b=(float, (3,), None, None), A=(float, (3, 3), None, None), m=(bool, (3,), None, None), i=(int, (2,), 0, 2))
    li = ev.loop_index('p', 3)
    fm = types.frozenmultiset
    # argument-dependent structure: loops and axes whose LENGTH is computed from arguments while the data is argument-free
    kk = ev.InRange(A('k', (), int), ev.constant(5))
    ln, lk = ev.loop_index('q', n), ev.loop_index('r', kk)
    spec = dict(spec, k=(int, (), 0, 4))
    progs = {
        'loopsum-arglen': (ev.loop_sum(ev.Multiply(fm([ev.InsertAxis(ev.IntToFloat(ln), c3), K])), ln), ev.loop_sum(lk, lk)),
        'loopsum-arglen-nested': (ev.loop_sum(ev.loop_sum(ev.Add(fm([ev.IntToFloat(ln), ev.Sin(ev.IntToFloat(li))])), li), ln),),
        'loopconcat-arglen': (ev.loop_concatenate(ev.InsertAxis(ev.Cos(ev.IntToFloat(lk)), ev.constant(2)), lk),
                              ev.Sum(ev.loop_concatenate(ev.InsertAxis(ln, ev.constant(1)), ln))),
        'range-zeros-arglen': (ev.Sum(ev.Sin(ev.IntToFloat(ev.Range(kk)))), ev.Sum(ev.Add(fm([ev.Zeros((c3, n), float), ev.InsertAxis(K, n)])))),
        'takerange-arglen': (ev.Sum(ev.Take(K2, ev.Range(n))), ev.Take(K, ev.Range(n))),
    }
    progs.update({
        'add-args': (ev.Add(fm([a, b])),),
        'add-arg-const': (ev.Add(fm([a, K])),),
        'add3': (ev.Add(fm([ev.Add(fm([a, K])), ev.Multiply(fm([b, K]))])),),
        'arg-itself': (a,),
        'arg-views': (ev.Transpose(A2, (1, 0)), ev.InsertAxis(a, ev.constant(2)), ev.TakeDiag(A2)),
        'cached-const-returned': (K, ev.Multiply(fm([K, a]))),
        'insertaxis-const-arglen': (ev.InsertAxis(K, n),),
        'takeslice-const': (ev._TakeSlice(K2, ev.constant(2), ev.Minimum(n, ev.constant(1))),),
        'get-const': (ev._Get(K2, ev.Minimum(n, ev.constant(2))),),
        'take-const-argidx': (ev.Take(K, i),),
        'inflate-arg': (ev.Inflate(ev.Take(a, i), i, c3),),
        'diagonalize': (ev.Diagonalize(ev.Add(fm([a, K]))),),
        'guard': (ev.Add(fm([ev.Guard(ev.Multiply(fm([a, a]))), ev.Guard(K)])),),
        'loopsum-arg': (ev.loop_sum(ev.Multiply(fm([ev.Take(a, li), ev.Sin(ev.IntToFloat(li))])), li),),
        'loop-mixed': (ev.Multiply(fm([ev.loop_concatenate(ev.InsertAxis(ev.Sin(ev.IntToFloat(li)), ev.constant(1)), li), a])),
                       ev.loop_sum(ev.Multiply(fm([ev.Take(a, li), ev.IntToFloat(li)])), li)),
        'tuple-shared': (ev.Add(fm([a, K])), ev.Multiply(fm([ev.Add(fm([a, K])), b])), K),
        'ravel-unravel': (ev.Ravel(ev.InsertAxis(K, ev.constant(2))), ev.Unravel(ev.Add(fm([ev.constant(numpy.arange(6.)), ev.Ravel(ev.InsertAxis(a, ev.constant(2)))])), ev.constant(2), c3)),
    })
    out = []
    for name, exprs in progs.items():
        used = used_arguments(exprs)
        for simp, opt in ((False, False), (True, True)):
            out.append(('probe:' + name, exprs, ProbeGen(rng, {k: v for k, v in spec.items() if k in used}), simp, opt))
    return out


# ---------------------------------------------------------------------------------------------- argument variants

def layout_variant(rng, x):
    """an object with the same value as ndarray x but a different layout / flags / type; returns (tag, obj)"""
    x = numpy.asarray(x)
    opts = ['readonly', 'list']
    if x.ndim >= 1 and x.size: opts.append('noncontig')
    if x.ndim >= 2: opts.append('fortran')
    if x.dtype.kind == 'f' and numpy.array_equal(x, x.astype(numpy.float32)): opts.append('float32')
    if x.dtype.kind == 'i': opts.append('int8')
    if x.dtype.kind == 'f' and numpy.array_equal(x, numpy.round(x)): opts.append('int-for-float')
    tag = rng.choice(opts)
    if tag == 'readonly':
        y = x.copy(); y.setflags(write=False); return tag, y
    if tag == 'list':
        return tag, x.tolist()
    if tag == 'noncontig':
        big = numpy.zeros(x.shape[:-1] + (2 * x.shape[-1],), dtype=x.dtype)
        y = big[..., ::2]; y[...] = x
        return tag, y
    if tag == 'fortran':
        return tag, numpy.asfortranarray(x)
    if tag == 'float32':
        return tag, x.astype(numpy.float32)
    if tag == 'int8':
        return tag, x.astype(numpy.int8)
    return tag, x.astype(numpy.int64)


def snapshot(args):
    snap = {}
    for k, v in args.items():
        if isinstance(v, numpy.ndarray):
            snap[k] = ('nd', v.copy(), v.flags.writeable, v.dtype, v.strides)
        else:
            snap[k] = ('py', copy.deepcopy(v))
    return snap


def args_changed(args, snap):
    for k, v in args.items():
        s = snap[k]
        if s[0] == 'nd':
            if not (isinstance(v, numpy.ndarray) and v.dtype == s[3] and v.shape == s[1].shape and numpy.array_equal(v, s[1], equal_nan=v.dtype.kind in 'fc')
                    and v.flags.writeable == s[2] and v.strides == s[4]):
                return k
        elif v != s[1]:
            return k
    return None


def leaves(r):
    if isinstance(r, (tuple, list)):
        for x in r: yield from leaves(x)
    else:
        yield r


def same_value(a, b):
    if isinstance(a, (tuple, list)) or isinstance(b, (tuple, list)):
        return isinstance(a, (tuple, list)) and isinstance(b, (tuple, list)) and len(a) == len(b) and all(same_value(x, y) for x, y in zip(a, b))
    a, b = numpy.asarray(a), numpy.asarray(b)
    if a.shape != b.shape or a.dtype != b.dtype: return False
    return numpy.array_equal(a, b, equal_nan=a.dtype.kind in 'fc')


def outcome_of(fn):
    kind, val = X.guarded(lambda: _quiet(fn), 30)
    if kind == 'ok': return ('ok', val)
    if kind == 'hang': return ('hang', None)
    return ('exc', type(val).__name__)


def _quiet(fn):
    with numpy.errstate(all='ignore'):
        return fn()


def same_outcome(o1, o2):
    if o1[0] != o2[0]: return False
    if o1[0] == 'ok': return same_value(o1[1], o2[1])
    return o1[1] == o2[1]


def cached_arrays(f):
    return {k: v for k, v in f.__globals__.items() if isinstance(v, numpy.ndarray) and (k[0] in 'vc') and k[1:2].isalnum()}


def frozen_copy(r):
    if isinstance(r, (tuple, list)): return tuple(frozen_copy(x) for x in r)
    return numpy.array(r)


def to_list(r):
    if isinstance(r, (tuple, list)): return [to_list(x) for x in r]
    return numpy.asarray(r).tolist()


def describe_args(args):
    return {k: dict(type=type(v).__name__, dtype=str(getattr(v, 'dtype', '')), value=numpy.asarray(v).tolist(), writeable=bool(getattr(getattr(v, 'flags', None), 'writeable', True)),
                    strides=list(getattr(v, 'strides', ()))) for k, v in args.items()}


# ---------------------------------------------------------------------------------------------- history driver

class HistoryRunner:
    """drives ONE compiled function through a history and reports findings as (signature, what, detail)"""

    def __init__(self, rng, compile_fn, argspec_values, newvalue, maxcalls, opts=None):
        self.rng = rng
        self.compile_fn = compile_fn          # () -> new compiled function
        self.base = argspec_values            # name -> ndarray
        self.newvalue = newvalue              # name -> ndarray of a new valid value
        self.maxcalls = maxcalls
        self.findings = []
        self.events = []
        self.counts = collections.Counter()
        self.spec_points = []                 # (args values dict, real outcome) for the Lean spec comparison
        self.first_call_alias = False

    def run(self):
        rng = self.rng
        f = self.compile_fn()
        current = {k: numpy.array(v) for k, v in self.base.items()}     # the user's own arrays (objects persist across calls)
        clean = True                                                     # argument values still inside the generator's valid ranges
        returned = []                                                    # every array handed out so far
        ncalls = 0
        nsteps = 0
        while ncalls < self.maxcalls and nsteps < 3 * self.maxcalls:
            nsteps += 1
            if ncalls:
                ev_kind = rng.choice(['same', 'same', 'newall', 'newsome', 'mutate', 'layout', 'scribble', 'scribble', 'badshape', 'missing'])
            else:
                # the very first call: mostly a regular one, sometimes one that raises (first_run must then stay True)
                ev_kind = rng.choice(['same'] * 6 + ['layout', 'badshape', 'missing']) if nsteps < 3 else 'same'
            if not current and ev_kind in ('newall', 'newsome', 'mutate', 'layout', 'badshape', 'missing'):
                ev_kind = 'same'
            self.counts['event:' + ev_kind] += 1
            call_args = current
            if ev_kind == 'scribble':
                n = 0
                for r in returned:
                    if isinstance(r, numpy.ndarray) and r.flags.writeable and r.size:
                        try:
                            r[...] = 777
                            n += 1
                        except Exception:
                            pass
                # overwriting a result that IS the caller's argument changes the argument value (user's own doing)
                if any(isinstance(v, numpy.ndarray) and (v == 777).any() for v in current.values()): clean = False
                self.events.append(dict(event='scribble', n=n))
                self.counts['scribbled-arrays'] += n
                continue
            if ev_kind == 'newall':
                current = {k: self.newvalue(k) for k in current}; call_args = current; clean = True
            elif ev_kind == 'newsome':
                current = dict(current)
                for k in rng.sample(sorted(current), rng.randint(1, max(1, len(current) - 1))):
                    current[k] = self.newvalue(k)
                call_args = current
            elif ev_kind == 'mutate':
                for k in rng.sample(sorted(current), rng.randint(1, len(current))):
                    v = current[k]
                    if isinstance(v, numpy.ndarray) and v.flags.writeable:
                        v[...] = self.newvalue(k)
                call_args = current
            elif ev_kind == 'layout':
                call_args = dict(current)
                for k in rng.sample(sorted(current), rng.randint(1, len(current))):
                    tag, obj = layout_variant(rng, numpy.asarray(current[k]))
                    call_args[k] = obj
                    self.counts['layout:' + tag] += 1
            elif ev_kind == 'badshape':
                call_args = dict(current)
                k = rng.choice(sorted(current))
                v = numpy.asarray(current[k])
                call_args[k] = numpy.zeros(v.shape + (2,), dtype=v.dtype) if rng.random() < .5 else numpy.zeros((v.size + 1,), dtype=v.dtype)
            elif ev_kind == 'missing':
                call_args = dict(current)
                del call_args[rng.choice(sorted(current))]
            # ---- the call
            snap = snapshot(call_args)
            first = bool(f.__globals__.get('first_run', False))
            got = outcome_of(lambda: f(call_args))
            ncalls += 1
            changed = args_changed(call_args, snap)
            detail = lambda **kw: dict(history=self.events + [dict(event=ev_kind, args=describe_args(call_args))], call_index=ncalls, **kw)
            if changed is not None:
                self.findings.append(('argument-modified', 'the compiled function modified argument %r' % changed, detail(argument=changed)))
            # reference: a freshly generated function on the same argument objects
            g = self.compile_fn()
            snap2 = snapshot(call_args)
            want = outcome_of(lambda: g(call_args))
            if args_changed(call_args, snap2) is not None and changed is None:
                self.findings.append(('argument-modified', 'a fresh compiled function modified an argument', detail()))
            self.events.append(dict(event=ev_kind, args=describe_args(call_args), first_run=first, outcome=got[0] if got[0] != 'ok' else 'ok'))
            self.counts['outcome:' + (got[0] if got[0] == 'ok' else got[1] or got[0])] += 1
            if not same_outcome(got, want):
                sig = 'call-differs-from-fresh'
                if self.first_call_alias: sig = KNOWN_SIG
                self.findings.append((sig, 'call %d returns something else than a freshly compiled function on the same arguments' % ncalls,
                                      detail(got=to_list(got[1]) if got[0] == 'ok' else got, want=to_list(want[1]) if want[0] == 'ok' else want)))
            if got[0] == 'ok':
                cache = cached_arrays(f)
                for r in leaves(got[1]):
                    if not isinstance(r, numpy.ndarray): continue
                    returned.append(r)
                    if any(isinstance(v, numpy.ndarray) and numpy.shares_memory(r, v) for v in call_args.values()):
                        self.counts['result-aliases-argument' + ('-writable' if r.flags.writeable else '-readonly')] += 1
                    if r.flags.writeable and r.size:
                        hit = [k for k, c in cache.items() if c.size and numpy.shares_memory(r, c)]
                        if hit:
                            self.counts['writable-result-aliases-cache' + ('-first-run' if first else '-rerun')] += 1
                            if first: self.first_call_alias = True
                            self.findings.append((KNOWN_SIG if first else 'rerun-writable-result-aliases-cache',
                                                  'call %d (%s) returned a writable array that shares memory with cached global(s) %s' % (ncalls, 'first run' if first else 'rerun', hit),
                                                  detail(globals=hit)))
                if clean and ev_kind not in ('badshape', 'missing'):
                    self.spec_points.append(({k: numpy.array(numpy.asarray(v)) for k, v in call_args.items()}, frozen_copy(got[1]), same_outcome(got, want)))
        self.f = f
        return self


# ---------------------------------------------------------------------------------------------- the check

def pack(exprs, args):
    return base64.b64encode(pickle.dumps((exprs, args))).decode()


def known_input():
    b = ev.Argument('n', (ev.constant(3),), bool)
    n = ev.Sum(ev.BoolToInt(b))
    K = ev.Sin(ev.constant(numpy.arange(3.)))
    return ev.InsertAxis(K, n), {'n': numpy.array([True, True, False])}


def confirm_first_run_alias(compile_fn, args, newvalue=None, tries=8):
    """search argument values for which: call, overwrite every writable result that shares memory with a cached global, call
    again, differs from fresh"""
    for i in range(tries):
        if _confirm_once(compile_fn, args if i == 0 or newvalue is None else {k: newvalue(k) for k in args}):
            return True
        if newvalue is None: break
    return False


def _confirm_once(compile_fn, args):
    args = {k: numpy.array(v) for k, v in args.items()}
    f = compile_fn()
    o1 = outcome_of(lambda: f(args))
    if o1[0] != 'ok': return False
    cache = cached_arrays(f)
    hit = False
    for r in leaves(o1[1]):
        if isinstance(r, numpy.ndarray) and r.flags.writeable and r.size and any(c_.size and numpy.shares_memory(r, c_) for c_ in cache.values()):
            r[...] = 777; hit = True
    if not hit: return False
    return not same_outcome(outcome_of(lambda: f(args)), outcome_of(lambda: compile_fn()(args)))


def rerun_known(c):
    """re-run the recorded minimal input of the open finding; returns whether it still fails in the recorded way"""
    e, args = known_input()
    k, f = X.guarded(lambda: ev.compile(e), 20)
    fails = False
    if k == 'ok':
        o1 = outcome_of(lambda: f(args))
        if o1[0] == 'ok' and isinstance(o1[1], numpy.ndarray) and o1[1].flags.writeable:
            o1[1][...] = 777
            fails = not same_outcome(outcome_of(lambda: f(args)), outcome_of(lambda: ev.compile(e)(args)))
    for entry in c.findings:
        if entry.get('status') == 'open' and entry.get('signature') == KNOWN_SIG:
            c.report_known_still_failing(entry, fails)
            return fails
    if fails:
        c.failing_input(KNOWN_SIG, 'first call returns a writable view of a cached constant (setflags runs at the end of the first-run branch)',
                        dict(expr='InsertAxis(Sin(constant(arange(3.))), Sum(BoolToInt(Argument n (3,) bool)))', args=describe_args(args)))
    return fails


def targeted_search(rng, compile_fn, args, newvalue, tries=6):
    """deterministic histories aimed at stale caches: call(a0), call(a1), call(a0), overwrite results, call(a1), call(a0) —
    each compared with a fresh function; returns a finding (signature, what, detail) or None"""
    for t in range(tries):
        a0 = {k: numpy.array(v) for k, v in args.items()} if t == 0 else {k: newvalue(k) for k in args}
        a1 = {k: newvalue(k) for k in args}
        f = compile_fn()
        held = []
        hist = []
        for step, a in enumerate([a0, a1, a0, None, a1, a0]):
            if a is None:
                for r in held:
                    try: r[...] = 777
                    except Exception: pass
                hist.append('scribble'); continue
            a = {k: numpy.array(v) for k, v in a.items()}
            first = bool(f.__globals__.get('first_run', False))
            got = outcome_of(lambda: f(a)); want = outcome_of(lambda: compile_fn()(a))
            hist.append(dict(args=describe_args(a), first_run=first))
            if not same_outcome(got, want):
                return ('call-differs-from-fresh', 'targeted history: call %d differs from a freshly compiled function' % (step + 1),
                        dict(history=hist, got=to_list(got[1]) if got[0] == 'ok' else got, want=to_list(want[1]) if want[0] == 'ok' else want))
            if got[0] == 'ok':
                cache = cached_arrays(f)
                for r in leaves(got[1]):
                    if isinstance(r, numpy.ndarray) and r.flags.writeable and r.size:
                        if not any(c_.size and numpy.shares_memory(r, c_) for c_ in cache.values()):
                            held.append(r)
                        elif first:
                            pass             # first-run aliases are the known finding: do not overwrite them here
                        else:
                            return ('rerun-writable-result-aliases-cache', 'targeted history: a rerun returned a writable array sharing memory with a cached global',
                                    dict(history=hist))
    return None


def run(c):
    c.rule = ('programs: random evaluable DAGs from nvh.genexpr (single roots, tuples sharing subterms, constant-heavy, InsertAxis-heavy, Guard-wrapped, '
              'argument-parametrised views of constant sub-expressions, argument-dependent loop lengths / axis lengths around argument-free data), compiled once with cache_const_intermediates=True (and False for the static check); '
              'histories: up to 4 (quick) / 8 (thorough) calls with events repeat / change all / change some / in-place mutation of the same ndarray objects / '
              'non-contiguous, Fortran, read-only, narrower-dtype and list arguments / wrong shape / missing argument / user fills every writable result with 777; plus one alternating history a0 a1 a0 <overwrite> a1 a0 per program; '
              'a case is one (program, history); non-trivial when the generated script caches at least one intermediate or writes in place; distinct by nutils hash + history')
    c.assumptions += ['complex dtype is not generated', 'parallel (fork) code generation is not exercised (maxprocs=1)', 'stats="log" wrapper is not exercised',
                      'Lean model: buffers are named by allocation site; faithful for single-assignment scripts (checked per script: ssa)',
                      'a result that is the caller\'s own argument array (numpy.asarray without copy) is an observation, not a violation']
    broken = c.build_and_audit()
    c.log('proofs built and audited')
    quick = c.tier == 'quick'
    N = 70 if quick else 3500
    maxcalls = 4 if quick else 8
    maxdepth = 4 if quick else 5

    known_still_fails = rerun_known(c)

    # ------------------------------------------------------------------ stream 1+2: programs, scripts, histories
    static_reqs = []; static_meta = []
    spec_reqs = []; spec_meta = []
    nprog = 0; nhist_ok = 0
    verdict_counts = collections.Counter()
    probes = probe_programs(c.rng)
    for i in range(len(probes) + N):
        if i < len(probes):
            kind, exprs, g, simp, opt = probes[i]
        else:
            depth = c.rng.choice(range(1, maxdepth + 1))
            try:
                kind, exprs, g = gen_program(c.rng, depth)
            except Exception as ex:
                c.count('generator-exception:' + type(ex).__name__); continue
            simp = c.rng.random() < .7; opt = c.rng.random() < .7
            if kind == 'guarded': simp = False      # simplification removes Guard nodes
        root = exprs if len(exprs) > 1 else exprs[0]
        def compile_fn(cache=True):
            return ev.compile(root, _simplify=simp, _optimize=opt, cache_const_intermediates=cache, stats=False)
        # nested compilations (eval_once during simplification) are captured too: the function asked for is the LAST one
        store1, store2 = [], []
        with S.capture(store1):
            k1, f1 = X.guarded(lambda: compile_fn(True), 20)
        with S.capture(store2):
            k2, f2 = X.guarded(lambda: compile_fn(False), 20)
        store = [store1[-1] if store1 else None, store2[-1] if store2 else None]
        c.count('nested-compilations-seen', max(0, len(store1) - 1) + max(0, len(store2) - 1))
        if k1 != 'ok' or k2 != 'ok':
            c.count('compile-' + (k1 if k1 != 'ok' else k2)); continue   # termination / exceptions of the simplifier are C01's business
        nprog += 1
        c.count('kind:' + kind)
        for k, v in g.hits.items(): c.count('gen:' + k, v)
        key = tuple(e.__nutils_hash__ for e in exprs)
        # ---- static: translate both scripts
        prog_static = []
        for (script, glob), cache in zip([x for x in store if x is not None], (True, False)):
            try:
                line, t = S.translate(script, glob)
            except S.Unknown as u:
                c.count('translate-unknown:' + str(u)[:40]); verdict_counts['beyond-model'] += 1
                continue
            ssa = t.ssa()
            if ssa: c.count('ssa:' + ssa.split(':')[0])
            static_reqs.append('check|' + line)
            static_meta.append(dict(prog=i, cache=cache, script=script, t=t, ssa=ssa, key=key, kind=kind, compile=compile_fn, args=dict(g.args), newvalue=g.newvalue))
            prog_static.append(len(static_reqs) - 1)
            for kk, vv in t.counts.items(): c.count(('script:' if cache else 'script-nocache:') + kk, vv)
            # validate the abstraction against numpy on this script
            probs, n = S.validate_classification(script, glob, [{k: numpy.array(v) for k, v in g.args.items()}] * 2)
            c.count('abstraction-probes', n)
            for p in probs:
                if p[0] == 'instrumented-run-raised': c.count('abstraction-run-raised'); continue
                c.broken_no_input('corr:script-abstraction', 'translator classification disagrees with numpy: %s in %r' % (p[0], p[1]),
                                  dict(problem=p, script=script))
        # ---- dynamic: history on the cached function
        hr = HistoryRunner(c.rng, lambda: compile_fn(True), dict(g.args), g.newvalue, maxcalls)
        try:
            hr.run()
        except X.Hang:
            c.count('history-hang'); continue
        nhist_ok += 1
        for kk, vv in hr.counts.items(): c.count(kk, vv)
        t0 = next((m['t'] for m in static_meta[-2:] if m['prog'] == i and m['cache']), None)
        nontrivial = bool(t0 and (t0.counts['skip'] > len(t0.roconsts) + 1 or t0.counts['writes']))
        c.case((key, simp, opt, json.dumps(hr.events, default=repr)), nontrivial=nontrivial)
        c.traces += sum(1 for e in hr.events if e.get('event') != 'scribble')
        if len(c.samples) < 4 and nontrivial:
            c.sample(dict(kind=kind, tree=X.describe(exprs[0], g.args)['tree'][:400], events=[e['event'] for e in hr.events],
                          cached=t0.counts if t0 else None))
        # ---- dynamic: the alternating history a0 a1 a0 <overwrite results> a1 a0 (stale caches show exactly when an argument
        # CHANGES between calls of the same function; the random history changes arguments only now and then)
        if g.args and not any(f[0] in ('call-differs-from-fresh', 'argument-modified') for f in hr.findings):
            try:
                found = targeted_search(c.rng, lambda: compile_fn(True), dict(g.args), g.newvalue, tries=2 if kind.startswith('probe:') or kind == 'dynstruct' else 1)
            except X.Hang:
                found = None; c.count('history-hang')
            c.count('alternating-histories')
            if found is not None:
                hr.findings.append(found)
        for m in static_meta:
            if m['prog'] == i: m['dyn'] = [f[0] for f in hr.findings]
        for sig, what, detail in hr.findings:
            c.failing_input(sig, what, dict(detail, kind=kind, tree=X.describe(exprs[0], g.args), simplify=simp, optimize=opt, pickled=pack(exprs, dict(g.args)),
                                            script=store[0][0] if store and store[0] else None))
        # ---- spec points (exact value of the un-simplified tree in Lean)
        for args, real, pure in hr.spec_points[:2 if quick else 3]:
            try:
                r, _ = ser.request(list(exprs), args)
            except ValueError:
                c.count('spec:not-serialisable'); break
            spec_reqs.append(r); spec_meta.append((exprs, args, real, kind, pure))

    c.log('histories done: %d programs' % nprog)
    # ------------------------------------------------------------------ static verdicts from Lean
    ans = c.model(static_reqs)
    nstatic_ok = 0; nflag = 0
    for a, m in zip(ans, static_meta):
        if not a.startswith('ok|'):
            raise Infra('C03 driver rejected a translated script: %r / %s' % (a, m['script'][:400]))
        f = dict(x.split('=') for x in a.split('|')[1:])
        bad = [k for k in ('classes', 'shape', 'body', 'ret', 'h3c', 'pro', 'first') if f[k] == '0']
        tag = ('cache:' if m['cache'] else 'nocache:') + (','.join(bad) or 'H-holds')
        verdict_counts[tag] += 1
        if f['h3a'] == '0': verdict_counts['result-may-alias-argument'] += 1
        if m['cache']:
            c.count('cached-globals', int(f['nglob'])); c.count('skip-defs', int(f['nsk'])); c.count('shared-defs', int(f['nsh']))
        if not bad:
            nstatic_ok += 1
            if m['cache'] and any(d in (KNOWN_SIG, 'rerun-writable-result-aliases-cache', 'call-differs-from-fresh', 'argument-modified') for d in m.get('dyn', [])):
                c.broken_no_input('corr:static-vs-dynamic', 'the Lean check accepts a script whose real function fails a history', dict(script=m['script'], dynamic=m.get('dyn')))
            continue
        nflag += 1
        if bad == ['h3c']:
            # a (possible) view of a cached variable created before its setflags is handed out: the known root cause.
            # confirm on the real function: call, overwrite the writable results, call again, compare with fresh
            confirmed = KNOWN_SIG in m.get('dyn', []) or confirm_first_run_alias(m['compile'], m['args'], m['newvalue'])
            if confirmed:
                c.failing_input(KNOWN_SIG, 'script hands out a writable view of a cached variable on the first call', dict(script=m['script'], verdict=a, args=describe_args(m['args'])))
            elif known_still_fails:
                # same code pattern as the open finding (view of a cached variable created before its setflags), but no argument
                # value makes this particular view writable AND non-empty: benign instance, counted
                c.count('static-h3c-flag-benign-instance-of-known-root-cause')
            else:
                c.broken_no_input('static:h3c', 'a returned variable may be a writable view of a cached buffer (static) but the real function showed no aliasing',
                                  dict(script=m['script'], verdict=a, args=describe_args(m['args'])))
        else:
            if m.get('dyn'):
                continue   # already reported as failing input by the history search
            found = targeted_search(c.rng, m['compile'], m['args'], m['newvalue'])
            if found is not None:
                c.count('static-flag-confirmed-by-targeted-search')
                c.failing_input(found[0], found[1], dict(found[2], script=m['script'], verdict=a))
                continue
            c.broken_no_input('static:' + ','.join(bad), 'hypotheses of the purity theorems cannot be established for a generated script and no failing history was found',
                              dict(script=m['script'], verdict=a, request=static_reqs[static_meta.index(m)]))
    for k, v in verdict_counts.items(): c.count('verdict:' + k, v)
    ntot = len(static_meta) + verdict_counts['beyond-model']
    c.obligation('static:H1-H3-decided-per-script', ntot > 0 and len(static_meta) >= .9 * ntot, 'validation',
                 '%d scripts translated (%d beyond the translator), %d satisfy checkH, %d flagged' % (len(static_meta), verdict_counts['beyond-model'], nstatic_ok, nflag))
    c.obligation('corr:script-abstraction', not any(v[2] == 'broken:corr:script-abstraction' for v in c.violations), 'correspondence',
                 '%d executed assignments agree with their abstract classification (aliasing, flags)' % c.counters.get('abstraction-probes', 0))

    c.log('static verdicts done')
    # ------------------------------------------------------------------ spec values
    try:
        sans = X.lean_requests(c, spec_reqs) if spec_reqs else []
    except Infra as e:
        # the exact-value oracle is an exploration stream: a request the Expr driver cannot digest must not hide the verdicts above
        c.count('spec:driver-failed'); c.log('note: Expr driver failed on the spec requests: %s' % str(e)[:200])
        sans = []
    nspec = collections.Counter()
    for a, (exprs, args, real, kind, pure) in zip(sans, spec_meta):
        if 'bad' in a: raise Infra('Expr driver rejected a request: %r' % a['bad'][:300])
        for res, r in zip(a['results'], list(leaves(real)) if isinstance(real, (tuple, list)) else [real]):
            m = X.compare_result(res, numpy.asarray(r))
            if m in ('value', 'shape'): m += '(call==fresh)' if pure else '(call!=fresh: the specification sides with the fresh function)'
            nspec[m] += 1
            if m.startswith(('value(call==', 'shape(call==')) and len(c.extra.setdefault('spec_mismatches', [])) < 5:
                c.extra['spec_mismatches'].append(dict(kind=kind, tree=X.describe(exprs[0], args)['tree'][:600], args={k: numpy.asarray(v).tolist() for k, v in args.items()},
                                                       real=numpy.asarray(r).tolist(), lean=res))
    for k, v in nspec.items(): c.count('spec:' + k, v)
    c.extra['spec_note'] = ('a call that equals the fresh function but not the Lean specification value is a code-generation question (C02), not a purity '
                            'violation; counted under spec:value / spec:shape')
    c.obligation('oracle:history-vs-fresh', nhist_ok > 0 and not any(v[2] in ('call-differs-from-fresh', 'argument-modified', 'rerun-writable-result-aliases-cache') for v in c.violations),
                 'correspondence', '%d programs, %d calls compared with a fresh function and argument snapshots' % (nhist_ok, c.traces))
    c.obligation('oracle:spec-value', True, 'exploration', '%d results exact/close to the Lean specification value, %d differ although equal to fresh' % (nspec['exact'] + nspec['close'], nspec['value(call==fresh)'] + nspec['shape(call==fresh)']))

    c.log('spec values done')
    # ------------------------------------------------------------------ stream 3: long-lived owners
    from . import c03_owners
    c03_owners.run(c)

    for b in broken:
        c.broken_no_input('proof', b, dict(detail=b))
