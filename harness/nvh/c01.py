"""C01 — simplification terminates and preserves the value of every expression.

(V) certified validation: for generated well-typed DAGs the REAL `expr.simplified` is serialised together with
`expr` and the Lean specification evaluator (Model/Expr.lean over Core/Poly + Core/Tensor, laws in Props/C01.lean)
decides `eval expr = eval expr.simplified` symbolically in all real-valued arguments (integer / boolean arguments
and axis lengths are sampled), and exactly at the sampled dyadic point.  The same run validates the Lean
semantics against the real un-simplified evaluation (spec-eval correspondence).  Termination: every
simplification runs under a watchdog; 'caught in a loop' and hangs are failing inputs of the termination clause.
"""
import base64, pickle, numpy, collections, json
from nutils import evaluable as ev, types
from . import genexpr, ser, shrink, exprcheck as X
from .common import Infra


def simplify(e, timeout=20):
    kind, val = X.guarded(lambda: e.simplified, timeout)
    if kind == 'exception' and 'caught in a loop' in str(val):
        return 'loop', str(val)
    return kind, val


def pack(e, args):
    return base64.b64encode(pickle.dumps((e, args))).decode()


def known_inputs():
    a1 = ev.Argument('a', (ev.constant(2),), float)
    e1 = ev.Power(ev.Inflate(ev.Diagonalize(a1), ev.constant(numpy.array([1, 0])), ev.constant(2)), ev.Constant(types.arraydata(numpy.full((2, 2), 2.))))
    A = ev.Argument('A', (ev.constant(3),)*3, float)
    d = ev.Argument('d', (ev.constant(3),)*2, float)
    e2 = ev.TakeDiag(ev.Multiply(types.frozenmultiset([ev.Inflate(A, ev.constant(numpy.array([0, 0, 2])), ev.constant(3)), ev.Diagonalize(d)])))
    b2 = ev.Argument('b2', (ev.constant(2),)*2, int)
    D = ev.Diagonalize(b2)
    e3 = ev.Multiply(types.frozenmultiset([ev.Take(D, ev.constant(numpy.array([1, 0]))), D]))
    return {'C01-cycle-product-of-diagonalize-or-inflate': [(e1, {'a': numpy.array([1., 2.])}), (e2, {'A': numpy.ones((3, 3, 3)), 'd': numpy.ones((3, 3))}),
                                                            (e3, {'b2': numpy.array([[-2, 3], [2, -3]])})]}


def termination_signature(kind, e, args):
    def fails(e2, a2):
        k, _ = simplify(e2, 4)
        return k == kind
    small, sargs = shrink.shrink(e, args, fails, budget=40)
    classes = set(shrink.skeleton(small).split('+'))
    if classes & {'Multiply', 'Power'} and classes & {'Diagonalize', 'Inflate'}:
        # root-cause family of the open known finding: products of Diagonalize / Inflate operands
        return 'simplify-cycle:product-of-diagonalize-or-inflate', small, sargs
    return 'simplify-%s:%s' % ('nonterminating' if kind == 'hang' else 'loop', shrink.skeleton(small)), small, sargs


def value_signature(e, args):
    def fails(e2, a2):
        k, s = simplify(e2, 6)
        if k != 'ok': return False
        k1, v1 = X.real_eval(e2, a2)
        k2, v2 = X.real_eval(s, a2)
        return k1 == 'ok' and k2 == 'ok' and not X.arrays_close(v1, v2)
    small, sargs = shrink.shrink(e, args, fails, budget=60)
    return 'simplify-wrong-value:' + shrink.skeleton(small), small, sargs


def _enum_worker(job):
    """one worker of the systematic small-tree stream: build capped pools from its own sub-seed, compare the real
    un-simplified and simplified evaluations at two argument points; returns counters and candidate mismatches"""
    import random
    from . import enumexpr
    seed, caps, dtype, part = job
    caps, relcap = caps[:-1], caps[-1]
    rng = random.Random(seed)
    E = enumexpr.Enum(rng, dtype=dtype)
    pools = E.levels(len(caps), 0) if False else None
    pools = [E.leaves]
    cnt = collections.Counter(); cands = []; keys = set()
    allpools = E.levels(len(caps), max(caps)) if len(set(caps)) == 1 else None
    if allpools is None:
        # different caps per level: build level by level with the largest cap, then trim
        allpools = E.levels(len(caps), max(caps))
        allpools = [allpools[0]] + [p[:cap] for p, cap in zip(allpools[1:], caps)]
    allpools.append(E.related([e for p_ in allpools[1:3] for e in p_], relcap))
    core = E.core(); allpools.append(core[part[0]::part[1]])   # this worker's slice of the deterministic algebraic core
    for level, pool in enumerate(allpools[1:], 1):
        for e in pool:
            kind, s = simplify(e, 8)
            cnt['trees'] += 1
            keys.add(enumexpr.skeleton(e, 2))
            if kind != 'ok':
                cnt['simplify-' + kind] += 1
                cands.append((kind, pack(e, E.args), str(s)[:200]))
                continue
            if s is not e: cnt['changed'] += 1
            for args in (E.args, E.negated_args()):
                k1, v1 = X.real_eval(e, args)
                if k1 != 'ok':
                    cnt['original-' + k1] += 1; continue
                k2, v2 = X.real_eval(s, args)
                cnt['evaluations'] += 1
                if k2 != 'ok' or not X.arrays_close(v1, v2) or v1.dtype != v2.dtype:
                    cands.append(('value', pack(e, args), ''))
                    break
    cnt['distinct-skeletons'] = len(keys)
    return dict(cnt), cands[:20]


def enum_stream(c, nworkers, caps):
    """(M) systematic small-tree stream, pure real-code differential in parallel worker processes; every candidate is
    confirmed against the Lean specification value of the un-simplified tree before it is reported"""
    import multiprocessing
    # the deterministic core depends on the leaves (dtype and sample values come from the job seed): float workers share one
    # core seed so that their slices partition the same list
    nf = sum(1 for w in range(nworkers) if w % 4)
    jobs = []
    for w in range(nworkers):
        isf = bool(w % 4)
        idx = sum(1 for v in range(w) if bool(v % 4) == isf)
        jobs.append(((c.seed * 1000003 + w) & 0x7fffffff, caps, float if isf else int, (idx, nf if isf else nworkers - nf)))
    ctx = multiprocessing.get_context('fork')
    with ctx.Pool(min(nworkers, 14)) as pool:
        results = pool.map(_enum_worker, jobs, chunksize=1)
    total = collections.Counter(); cands = []
    for cnt, cs in results:
        total.update(cnt); cands += cs
    for k, v in total.items(): c.count('enum:' + k, v)
    c.evaluations += total['trees']
    c.extra['enum_trees'] = total['trees']
    nbad = 0
    seen_sigs = set()
    for kind, packed, msg in cands[:40]:
        e, args = pickle.loads(base64.b64decode(packed))
        if kind in ('loop', 'hang'):
            sig, small, sargs = termination_signature(kind, e, args)
            c.failing_input(sig, 'simplification does not terminate (%s)' % kind, dict(kind=kind, expr=X.describe(small, sargs), pickled=pack(small, sargs)))
            if not c.match_known(sig): nbad += 1
            continue
        if kind == 'exception':
            c.failing_input('simplify-exception:' + shrink.skeleton(e), 'simplification raises: ' + msg, dict(expr=X.describe(e, args), pickled=packed)); nbad += 1
            continue
        sig, small, sargs = value_signature(e, args)
        if sig in seen_sigs: continue
        seen_sigs.add(sig)
        # confirm with the Lean specification value of the un-simplified tree
        k1, v1 = X.real_eval(small, sargs)
        ks, s = simplify(small, 8)
        k2, v2 = X.real_eval(s, sargs) if ks == 'ok' else ('exception', None)
        req, _ = ser.request([small], sargs)
        a = X.lean_requests(c, [req])[0]
        spec = X.compare_result(a['results'][0], v1) if k1 == 'ok' and 'bad' not in a else 'n/a'
        c.failing_input(sig, 'simplified expression differs from the original (systematic small-tree stream)',
                        dict(expr=X.describe(small, sargs), pickled=pack(small, sargs), real_original=(v1.tolist() if k1 == 'ok' else repr(v1)),
                             real_simplified=(v2.tolist() if k2 == 'ok' else repr(v2)), lean_agrees_with_original=spec))
        nbad += 1
    c.obligation('valid:small-tree-enumeration', nbad == 0, 'validation', '%d trees, %d distinct depth-2 skeletons' % (total['trees'], total['distinct-skeletons']))


def run(c):
    c.rule = ('random well-typed evaluable DAGs (raw constructors, explicit sharing, bool/int/float, axis lengths 0..3, nested loops) from nvh.genexpr with '
              'dyadic argument values; a case is non-trivial when simplification changed the tree (simplified is not expr) ; distinct by nutils hash of the tree')
    c.assumptions += ['complex dtype is not generated', 'integer and boolean arguments, axis lengths and loop lengths are sampled, real arguments are symbolic',
                      'parametricity of the Lean evaluator in its scalar carrier (equal normal forms => equal values for all real arguments) relies on Props/Poly soundness of the polynomial operations; the evaluator itself is executed, not kernel-reduced',
                      'a symbolic "differ" answer is never a verdict by itself: it falls back to exact comparison at the sampled point']
    broken = c.build_and_audit(extra_props=['Poly', 'C01Driver'])
    N = 120 if c.tier == 'quick' else 600
    maxdepth = 4   # deeper random trees make single symbolic Lean evaluations explode; depth is explored by the enumeration streams

    # ---- open known findings: re-run their recorded inputs
    kin = known_inputs()
    for entry in c.findings:
        if entry.get('status') == 'open' and entry['id'] in kin:
            c.report_known_still_failing(entry, any(simplify(e, 10)[0] in ('loop', 'hang') for e, args in kin[entry['id']]))

    cases, reqs = [], []
    outcome = collections.Counter()
    for i in range(N):
        depth = c.rng.choice(range(1, maxdepth+1))
        try:
            e, g = genexpr.random_case(c.rng, depth=depth)
        except Exception as ex:
            c.count('generator-exception:' + type(ex).__name__); continue
        args = g.args
        for k, v in g.hits.items(): c.count('gen:' + k, v)
        kind, s = simplify(e)
        if kind in ('loop', 'hang'):
            sig, small, sargs = termination_signature(kind, e, args)
            c.case(e.__nutils_hash__)
            c.failing_input(sig, 'simplification does not terminate (%s)' % kind, dict(kind=kind, expr=X.describe(small, sargs), pickled=pack(small, sargs), original=X.describe(e, args)))
            outcome['simplify-' + kind] += 1
            continue
        if kind == 'exception':
            # an exception inside the simplifier: the rewritten form does not exist
            c.case(e.__nutils_hash__)
            c.failing_input('simplify-exception:' + type(s).__name__ + ':' + shrink.skeleton(e), 'simplification raises %s: %s' % (type(s).__name__, str(s)[:100]),
                            dict(expr=X.describe(e, args), pickled=pack(e, args)))
            outcome['simplify-exception'] += 1
            continue
        k1, v1 = X.real_eval(e, args)
        if k1 != 'ok':
            outcome['original-not-finite-or-undefined'] += 1
            continue
        float_args = {k: v for k, v in args.items() if numpy.asarray(v).dtype.kind == 'f'}
        nsym = sum(int(numpy.prod(v.shape)) for v in float_args.values())
        heavy = nsym > 40 or any(type(n).__name__ in ('Inverse', 'Determinant') for n in shrink.all_nodes(e))
        if heavy:
            # a symbolic evaluation with this many unknowns (or a symbolic determinant / inverse) can take minutes in the
            # Lean evaluator: decide these trees exactly at the sample point only (counted)
            outcome['symbolic-skipped-too-large'] += 1
        try:
            r1, _ = ser.request([e, s], args, cmp=[(0, 1)])
            r2, _ = (r1, None) if heavy else ser.request([e, s], {k: v for k, v in args.items() if k not in float_args}, symbolic={k: v.shape for k, v in float_args.items()}, cmp=[(0, 1)])
        except ValueError:
            outcome['not-serialisable'] += 1
            continue
        cases.append((e, s, args, v1)); reqs += [r1, r2]
    # several driver processes in parallel (the evaluator is single-threaded)
    from concurrent.futures import ThreadPoolExecutor
    nchunks = 4 if len(reqs) < 600 else 12
    pairs = [reqs[i:i+2] for i in range(0, len(reqs), 2)]
    chunks = [sum(pairs[k::nchunks], []) for k in range(nchunks)]
    with ThreadPoolExecutor(nchunks) as ex:
        def run_chunk(ch):
            # a chunk whose evaluation exceeds the time limit is abandoned: its trees are decided on the real code only (counted)
            try:
                return [({'bad': a} if a.startswith('bad-request') else json.loads(a)) for a in c.model(ch, driver='Expr', timeout=240 if c.tier == 'quick' else 480)]
            except Infra as ex_:
                if 'timed out' not in str(ex_): raise
                outcome['lean-chunk-time-limit'] += len(ch) // 2
                skip = {'results': [{'error': 'unsupported', 'what': 'lean-time-limit'}] * 2, 'cmp': ['error']}
                return [skip] * len(ch)
        parts = list(ex.map(run_chunk, chunks))
    ans = [None] * len(reqs)
    for k, part in enumerate(parts):
        idx = [j for i in range(k, len(pairs), nchunks) for j in (2*i, 2*i+1)]
        for j, a in zip(idx, part): ans[j] = a
    nspec = nspec_bad = nsym = nconc = 0
    for (e, s, args, v1), a1, a2 in zip(cases, ans[0::2], ans[1::2]):
        changed = s is not e
        c.case(e.__nutils_hash__, nontrivial=changed)
        if len(c.samples) < 4 and changed:
            c.sample(dict(expr=X.describe(e, args)['tree'], simplified=X.describe(s, args)['tree']))
        if 'bad' in a1 or 'bad' in a2:
            raise Infra('Expr driver rejected a request: %r' % (a1.get('bad') or a2.get('bad'))[:300])
        # static metadata of the rewritten form
        meta_ok = s.dtype == e.dtype and s.ndim == e.ndim
        # spec-eval correspondence (validates Model/Expr against the real un-simplified evaluation)
        m = X.compare_result(a1['results'][0], v1)
        outcome['spec-eval:' + m] += 1
        if m in ('exact', 'close'):
            nspec += 1; c.traces += 1
        elif m in ('shape', 'value') or m == 'error:illformed':
            nspec_bad += 1
            c.broken_no_input('corr:spec-eval', 'Lean specification evaluator and real un-simplified evaluation disagree (%s)' % m,
                              dict(expr=X.describe(e, args), pickled=pack(e, args), lean=a1['results'][0], real=v1.tolist()))
            continue
        else:
            continue   # unsupported / undefined: not decidable here
        verdict = None
        if a2['cmp'] == ['same'] and meta_ok and a2 is not a1 and json.dumps(a2) != json.dumps(a1):
            verdict = 'proved-symbolically'; nsym += 1
        elif a1['cmp'] == ['same'] and meta_ok:
            verdict = 'equal-at-sample-point'; nconc += 1
        else:
            # candidate violation: confirm on the real code
            k2, v2 = X.real_eval(s, args)
            if not meta_ok or (k2 == 'ok' and not X.arrays_close(v1, v2)) or k2 in ('exception', 'hang'):
                sig, small, sargs = value_signature(e, args) if meta_ok and k2 == 'ok' else ('simplify-wrong-metadata-or-raises:' + shrink.skeleton(e), e, args)
                c.failing_input(sig, 'simplified expression differs from the original (shape/dtype/value)',
                                dict(expr=X.describe(small, sargs), pickled=pack(small, sargs), original=X.describe(e, args), real_original=v1.tolist(),
                                     real_simplified=(v2.tolist() if k2 == 'ok' else repr(v2)), lean=a1))
                verdict = 'violation'
            elif k2 == 'nonfinite':
                verdict = 'simplified-nonfinite'   # e.g. 0*inf introduced: original finite, simplified not
                c.failing_input('simplify-introduces-nonfinite:' + shrink.skeleton(e), 'simplified expression is not finite where the original is', dict(expr=X.describe(e, args), pickled=pack(e, args)))
            else:
                m2 = X.compare_result(a1['results'][1], v2)
                verdict = 'lean-cannot-decide:' + m2
                if m2 in ('shape', 'value'):
                    c.broken_no_input('corr:spec-eval', 'Lean evaluator disagrees with real evaluation of the simplified tree', dict(expr=X.describe(s, args), pickled=pack(s, args), lean=a1['results'][1], real=v2.tolist()))
        outcome['verdict:' + verdict] += 1
    for k, v in outcome.items(): c.count(k, v)
    c.extra['proved_symbolically_for_all_real_arguments'] = nsym
    c.extra['decided_exactly_at_sample_point_only'] = nconc
    c.obligation('corr:spec-eval', nspec_bad == 0 and nspec > 0, 'correspondence', '%d trees evaluated identically by Lean spec and real code' % nspec)
    c.obligation('valid:simplified-equals-original', not any('simplify' in v[2] for v in c.violations), 'validation', '%d symbolic + %d at sample point' % (nsym, nconc))
    # ---- systematic small-tree enumeration (interaction space of the swap rules), parallel real-code differential
    if c.tier == 'quick':
        enum_stream(c, 14, (400, 700, 200, 2200))
    else:
        enum_stream(c, 42, (400, 4000, 3000, 15000))
    # ---- (M) the fixed-point driver itself (deep_replace_property) vs its Lean model, + memoisation consequences on real trees
    from . import c01driver
    c01driver.stream(c, 300 if c.tier == 'quick' else 4000)
    for b in broken:
        c.broken_no_input('proof', b, dict(detail=b))
