"""C16 helper: drive the REAL `parallel.range.__next__` / `parallel.fork` from real forked processes under a deterministic
turn-taking scheduler, at the granularity of the Lean model's micro steps.

A *session* process is forked from the harness.  It creates `rng = parallel.range(n)`, replaces `rng._lock` and `rng._index`
by thin wrappers around the real `multiprocessing.Lock` / `RawValue` that (1) wait for the scheduler's permission before
every operation, (2) perform the real operation (lock acquisition is a non-blocking attempt, so that "blocked" is an
observable outcome instead of a hang), (3) report what happened.  Then it runs

    with parallel.maxprocs(N), parallel.fork(N) as procid:
        for i in rng:  <one sync point 'next', record claim>

so that process creation, exit codes, killing of children and the final verdict are those of the real `_fork`/`_wait`.
The harness (scheduler) executes a schedule `s<w>` / `k<w>` / `x<w>` event by event and returns the trace of operation
names, the claims, and the outcome of the `with` statement ("returns" / "raised:<msg>" / "blocked").
"""
import os, sys, signal, select, pickle, struct, time, errno


def _send(fd, obj):
    b = pickle.dumps(obj)
    os.write(fd, struct.pack('<I', len(b)) + b)


def _readn(fd, n, timeout):
    buf = b''
    t_end = time.time() + timeout
    while len(buf) < n:
        r, _, _ = select.select([fd], [], [], max(0., t_end - time.time()))
        if not r:
            raise TimeoutError
        chunk = os.read(fd, n - len(buf))
        if not chunk:
            raise EOFError
        buf += chunk
    return buf


def _recv(fd, timeout=10.):
    n, = struct.unpack('<I', _readn(fd, 4, timeout))
    return pickle.loads(_readn(fd, n, timeout))


class _Injected(Exception):
    pass


class _Chan:
    """worker side of the turn protocol.  The scheduler grants `k` consecutive operations at once (a run of events of the
    same worker, during which nobody else moves); the reports of a run are sent back together."""

    def __init__(self, rfd, wfd):
        self.rfd, self.wfd = rfd, wfd
        self.credit = 0
        self.buf = []

    def turn(self):
        if self.credit == 0:
            _send(self.wfd, ('ready', os.getpid(), self.buf)); self.buf = []
            cmd = _recv(self.rfd, timeout=600.)
            if cmd == 'raise':
                raise _Injected('injected fault')
            assert cmd[0] == 'go'
            self.credit = cmd[1]
        self.credit -= 1

    def report(self, op):
        self.buf.append(op)

    def finish(self, what):
        _send(self.wfd, (what, os.getpid(), self.buf)); self.buf = []


CHAN = [None]


class _SyncLock:
    def __init__(self, real):
        self.real = real

    def __enter__(self):
        while True:
            CHAN[0].turn()
            ok = self.real.acquire(False)
            CHAN[0].report('acquire' if ok else 'blocked')
            if ok:
                return self

    def __exit__(self, etype, evalue, tb):
        if etype is None or etype is StopIteration:
            try:
                CHAN[0].turn()
            except _Injected:
                self.real.release()
                raise
            self.real.release()
            CHAN[0].report('release-stop' if etype is StopIteration else 'release')
        else:
            self.real.release()  # unwinding because of an injected exception: no sync point
        return False

    # in case the code under test calls these directly
    def acquire(self, *a, **k):
        self.__enter__(); return True

    def release(self):
        self.__exit__(None, None, None)


class _SyncValue:
    def __init__(self, real):
        object.__setattr__(self, 'real', real)

    @property
    def value(self):
        CHAN[0].turn()
        v = self.real.value
        CHAN[0].report('get:%d' % v)
        return v

    @value.setter
    def value(self, v):
        CHAN[0].turn()
        self.real.value = v
        CHAN[0].report('set:%d' % v)


def _session(N, n, to_w, from_w, res_w):
    """runs in the session process (worker 0) and, after parallel.fork, in its children"""
    devnull = os.open(os.devnull, os.O_WRONLY)
    os.dup2(devnull, 1); os.dup2(devnull, 2)
    from nutils import parallel
    import treelog
    try:
        with treelog.set(treelog.NullLog()), parallel.maxprocs(N):
            rng = parallel.range(n)
            rng._lock = _SyncLock(rng._lock)
            rng._index = _SyncValue(rng._index)
            width = []
            with parallel.fork(N) as procid:
                CHAN[0] = _Chan(to_w[procid][0], from_w[procid][1])
                try:
                    for i in rng:
                        CHAN[0].turn()
                        CHAN[0].report('next:%d' % i)
                except BaseException:
                    CHAN[0].finish('failed')
                    raise
                CHAN[0].finish('done')
        _send(res_w, ('returns',))
    except BaseException as e:
        try:
            _send(res_w, ('raised', type(e).__name__, str(e)))
        finally:
            os._exit(3)
    os._exit(0)


def _alive(pid):
    try:
        with open('/proc/%d/stat' % pid) as f:
            st = f.read()
        return st[st.rindex(')') + 2] not in 'ZX'
    except (FileNotFoundError, ProcessLookupError):
        return False


def run_schedule(N, n, events, drain=400):
    """execute `events` (list of 's<w>'/'k<w>'/'x<w>') then a round-robin drain; returns dict(trace, claims, outcome, events)
    where events is the list actually executed (schedule + drain) so that the model can be run on exactly the same list"""
    to_w = [os.pipe() for _ in range(N)]
    from_w = [os.pipe() for _ in range(N)]
    res_r, res_w = os.pipe()
    sys.stdout.flush(); sys.stderr.flush()
    spid = os.fork()
    if spid == 0:
        try:
            os.setpgid(0, 0)
            _session(N, n, to_w, from_w, res_w)
        finally:
            os._exit(4)
    os.close(res_w)
    for p in to_w: os.close(p[0])
    for p in from_w: os.close(p[1])
    pids = {}
    state = {}          # w -> 'ready' | 'pending' | 'done' | 'failed' | 'dead'
    slots = {}          # w -> trace positions of the run that is in flight
    trace, claims, executed = [], [], []

    def settle(w):
        """read the message that ends the run in flight of worker w (or its first 'ready')"""
        if state.get(w, 'pending') != 'pending':
            return
        try:
            msg = _recv(from_w[w][0], timeout=120.)
        except EOFError:
            state[w] = 'dead'; return
        what, pid, reports = msg
        pids[w] = pid
        pos = slots.pop(w, [])
        assert len(reports) <= len(pos), (reports, pos)
        for p_, op in zip(pos, reports):
            trace[p_] = op
        for p_ in pos[len(reports):]:
            trace[p_] = 'noop'          # the worker left its loop before using up the run
        state[w] = what

    def flush_claims():
        del claims[:]
        for ev, op in zip(executed, trace):
            if op is not None and op.startswith('set:'):
                claims.append((int(ev[1:]), int(op[4:]) - 1))

    try:
        def do_run(w, k):
            """k consecutive step events of worker w"""
            for _ in range(k):
                executed.append('s%d' % w)
            for w_ in range(N): settle(w_)      # at most one run in flight: operations of different workers never overlap
            if w >= N or state.get(w) != 'ready':
                trace.extend(['noop'] * k); return
            slots[w] = list(range(len(trace), len(trace) + k))
            trace.extend([None] * k)
            _send(to_w[w][1], ('go', k))
            state[w] = 'pending'

        def do_fault(ev):
            kind, w = ev[0], int(ev[1:])
            executed.append(ev)
            for w_ in range(N): settle(w_)
            if w >= N or state.get(w) != 'ready':
                trace.append('noop'); return False
            if kind == 'k':
                os.kill(pids[w], signal.SIGKILL)
                state[w] = 'dead'; trace.append('kill')
            else:
                _send(to_w[w][1], 'raise')
                trace.append('raise')
                state[w] = 'pending'; slots[w] = []
                settle(w)
            return True

        stop = False
        k = 0
        while k < len(events):
            ev = events[k]
            if ev[0] == 's':
                m = 1
                while k + m < len(events) and events[k + m] == ev: m += 1
                do_run(int(ev[1:]), m); k += m
            else:
                hit = do_fault(ev); k += 1
                if int(ev[1:]) == 0 and hit:
                    stop = True; break    # parent gone: `_fork` kills the children / nobody waits; no further comparison
        if not stop:
            idle_rounds = 0
            steps = 0
            while steps < drain and idle_rounds < 2:
                before = len(trace)
                for w in range(N):
                    settle(w)
                    if state.get(w) == 'ready':
                        do_run(w, 3); steps += 3
                for w in range(N): settle(w)
                if not any(state.get(w) == 'ready' for w in range(N)):
                    break
                progressed = any(t not in ('blocked', 'noop') for t in trace[before:])
                idle_rounds = 0 if progressed else idle_rounds + 1
        for w in range(N): settle(w)
        flush_claims()
        # outcome of the `with parallel.fork` statement in the session process
        blocked = any(state.get(w) == 'ready' for w in range(N)) or state.get(0) == 'dead'
        outcome = 'blocked'
        if not blocked or state.get(0) in ('failed',):
            try:
                msg = _recv(res_r, timeout=90.)
                outcome = 'returns' if msg[0] == 'returns' else 'raised:%s:%s' % (msg[1], msg[2])
            except (EOFError, TimeoutError):
                outcome = 'no-result'
        survivors = []
        if outcome.startswith('raised:_Injected'):
            # the parent body raised: `_fork` must have SIGKILLed every child (they would otherwise wait for the scheduler forever)
            t_end = time.time() + 3.
            pend = [pids[w] for w in range(1, N) if w in pids and state.get(w) in ('ready', 'pending')]
            while pend and time.time() < t_end:
                pend = [p_ for p_ in pend if _alive(p_)]
                if pend: time.sleep(0.01)
            survivors = pend
        return dict(trace=trace, claims=claims, outcome=outcome, events=executed, states=[state.get(w) for w in range(N)], survivors=survivors)
    finally:
        try:
            os.killpg(spid, signal.SIGKILL)
        except ProcessLookupError:
            pass
        for pid in set(pids.values()) | {spid}:
            try:
                os.kill(pid, signal.SIGKILL)
            except ProcessLookupError:
                pass
        try:
            os.waitpid(spid, 0)
        except ChildProcessError:
            pass
        for p in to_w: os.close(p[1])
        for p in from_w: os.close(p[0])
        os.close(res_r)
