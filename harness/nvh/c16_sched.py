"""C16 helper: drive the REAL `parallel.range.__next__` / `parallel.fork` from real forked processes under a deterministic
turn-taking scheduler, at the granularity of the Lean model's micro steps.

A *session* process is forked from the harness.  It creates `rng = parallel.range(n)`, replaces `rng._lock` and `rng._index`
by thin wrappers around the real `multiprocessing.Lock` / `RawValue` that (1) wait for the scheduler's permission before
every operation, (2) perform the real operation (lock acquisition is a non-blocking attempt, so that "blocked" is an
observable outcome instead of a hang), (3) report what happened.  Then it runs

    with parallel.maxprocs(N), parallel.fork(N) as procid:
        for i in rng:  <one sync point 'next', record claim>

so that process creation, exit codes, killing of children and the final verdict are those of the real `_fork`/`_wait`.
The harness (scheduler) executes a schedule `s<w>` / `k<w>` / `x<w>` event by event and returns the trace of operation
names, the claims, and the outcome of the `with` statement ("returns" / "raised:<msg>" / "blocked").
"""
import os, sys, signal, select, pickle, struct, time, errno


def _send(fd, obj):
    b = pickle.dumps(obj)
    os.write(fd, struct.pack('<I', len(b)) + b)


def _readn(fd, n, timeout):
    buf = b''
    t_end = time.time() + timeout
    while len(buf) < n:
        r, _, _ = select.select([fd], [], [], max(0., t_end - time.time()))
        if not r:
            raise TimeoutError
        chunk = os.read(fd, n - len(buf))
        if not chunk:
            raise EOFError
        buf += chunk
    return buf


def _recv(fd, timeout=10.):
    n, = struct.unpack('<I', _readn(fd, 4, timeout))
    return pickle.loads(_readn(fd, n, timeout))


class _Injected(Exception):
    pass


class _Chan:
    """worker side of the turn protocol"""

    def __init__(self, rfd, wfd):
        self.rfd, self.wfd = rfd, wfd

    def turn(self):
        _send(self.wfd, ('ready', os.getpid()))
        cmd = _recv(self.rfd, timeout=60.)
        if cmd == 'raise':
            raise _Injected('injected fault')
        assert cmd == 'go'

    def report(self, op):
        _send(self.wfd, ('did', op))


CHAN = [None]


class _SyncLock:
    def __init__(self, real):
        self.real = real

    def __enter__(self):
        while True:
            CHAN[0].turn()
            ok = self.real.acquire(False)
            CHAN[0].report('acquire' if ok else 'blocked')
            if ok:
                return self

    def __exit__(self, etype, evalue, tb):
        if etype is None or etype is StopIteration:
            try:
                CHAN[0].turn()
            except _Injected:
                self.real.release()
                raise
            self.real.release()
            CHAN[0].report('release-stop' if etype is StopIteration else 'release')
        else:
            self.real.release()  # unwinding because of an injected exception: no sync point
        return False

    # in case the code under test calls these directly
    def acquire(self, *a, **k):
        self.__enter__(); return True

    def release(self):
        self.__exit__(None, None, None)


class _SyncValue:
    def __init__(self, real):
        object.__setattr__(self, 'real', real)

    @property
    def value(self):
        CHAN[0].turn()
        v = self.real.value
        CHAN[0].report('get:%d' % v)
        return v

    @value.setter
    def value(self, v):
        CHAN[0].turn()
        self.real.value = v
        CHAN[0].report('set:%d' % v)


def _session(N, n, to_w, from_w, res_w):
    """runs in the session process (worker 0) and, after parallel.fork, in its children"""
    devnull = os.open(os.devnull, os.O_WRONLY)
    os.dup2(devnull, 1); os.dup2(devnull, 2)
    from nutils import parallel
    import treelog
    try:
        with treelog.set(treelog.NullLog()), parallel.maxprocs(N):
            rng = parallel.range(n)
            rng._lock = _SyncLock(rng._lock)
            rng._index = _SyncValue(rng._index)
            width = []
            with parallel.fork(N) as procid:
                CHAN[0] = _Chan(to_w[procid][0], from_w[procid][1])
                _send(from_w[procid][1], ('hello', os.getpid()))
                try:
                    for i in rng:
                        CHAN[0].turn()
                        CHAN[0].report('next:%d' % i)
                except BaseException:
                    _send(from_w[procid][1], ('failed', os.getpid()))
                    raise
                _send(from_w[procid][1], ('done', os.getpid()))
        _send(res_w, ('returns',))
    except BaseException as e:
        try:
            _send(res_w, ('raised', type(e).__name__, str(e)))
        finally:
            os._exit(3)
    os._exit(0)


def run_schedule(N, n, events, drain=400):
    """execute `events` (list of 's<w>'/'k<w>'/'x<w>') then a round-robin drain; returns dict(trace, claims, outcome, events)
    where events is the list actually executed (schedule + drain) so that the model can be run on exactly the same list"""
    to_w = [os.pipe() for _ in range(N)]
    from_w = [os.pipe() for _ in range(N)]
    res_r, res_w = os.pipe()
    sys.stdout.flush(); sys.stderr.flush()
    spid = os.fork()
    if spid == 0:
        try:
            os.setpgid(0, 0)
            _session(N, n, to_w, from_w, res_w)
        finally:
            os._exit(4)
    os.close(res_w)
    for p in to_w: os.close(p[0])
    for p in from_w: os.close(p[1])
    pids = {}
    state = {}          # w -> 'ready' | 'done' | 'failed' | 'dead'
    trace, claims, executed = [], [], []

    def pump(w):
        """read messages of worker w until it is at a sync point or finished"""
        while True:
            try:
                msg = _recv(from_w[w][0])
            except EOFError:
                state[w] = 'dead'; return
            if msg[0] == 'hello':
                pids[w] = msg[1]
            elif msg[0] == 'ready':
                state[w] = 'ready'; return
            elif msg[0] in ('done', 'failed'):
                state[w] = msg[0]; return

    try:
        for w in range(N):
            pump(w)

        def do(ev):
            kind, w = ev[0], int(ev[1:])
            executed.append(ev)
            if w >= N or state.get(w) != 'ready':
                trace.append('noop'); return
            if kind == 's':
                _send(to_w[w][1], 'go')
                try:
                    msg = _recv(from_w[w][0])
                except EOFError:
                    state[w] = 'dead'; trace.append('died'); return
                assert msg[0] == 'did', msg
                trace.append(msg[1])
                if msg[1].startswith('set:'):
                    claims.append((w, int(msg[1][4:]) - 1))
                pump(w)
            elif kind == 'k':
                os.kill(pids[w], signal.SIGKILL)
                state[w] = 'dead'; trace.append('kill')
            elif kind == 'x':
                _send(to_w[w][1], 'raise')
                trace.append('raise')
                pump(w)
                if state[w] == 'ready':   # must not happen: the exception was swallowed
                    state[w] = 'ready'
            else:
                raise ValueError(ev)

        stop = False
        for ev in events:
            do(ev)
            if ev[0] in 'kx' and int(ev[1:]) == 0 and trace[-1] != 'noop':
                stop = True; break    # parent gone: `_fork` kills the children / nobody waits; no further comparison
        if not stop:
            idle_rounds = 0
            k = 0
            while k < drain and idle_rounds < 2:
                progressed = False
                for w in range(N):
                    if state.get(w) == 'ready':
                        do('s%d' % w); k += 1
                        if trace[-1] not in ('blocked', 'noop'):
                            progressed = True
                if not any(state.get(w) == 'ready' for w in range(N)):
                    break
                idle_rounds = 0 if progressed else idle_rounds + 1
        # outcome of the `with parallel.fork` statement in the session process
        blocked = any(state.get(w) == 'ready' for w in range(N)) or state.get(0) == 'dead'
        outcome = 'blocked'
        if not blocked or state.get(0) in ('failed',):
            try:
                msg = _recv(res_r, timeout=20.)
                outcome = 'returns' if msg[0] == 'returns' else 'raised:%s:%s' % (msg[1], msg[2])
            except (EOFError, TimeoutError):
                outcome = 'no-result'
        return dict(trace=trace, claims=claims, outcome=outcome, events=executed, states=[state.get(w) for w in range(N)])
    finally:
        try:
            os.killpg(spid, signal.SIGKILL)
        except ProcessLookupError:
            pass
        for pid in set(pids.values()) | {spid}:
            try:
                os.kill(pid, signal.SIGKILL)
            except ProcessLookupError:
                pass
        try:
            os.waitpid(spid, 0)
        except ChildProcessError:
            pass
        for p in to_w: os.close(p[1])
        for p in from_w: os.close(p[0])
        os.close(res_r)
