"""C17 — structural identity and hashing are injective and stable.

Tie: (M) mechanism correspondence.  Python values are translated *by introspection only* (type, module, qualname,
`_args`, dataclass fields, `ndarray.tobytes()`, ...) into the `Value` syntax of `lean/NutilsVerif/Model/C17.lean`; the
Lean driver computes `nhash sha1` (SHA-1 implemented in Lean) and the harness compares it byte for byte with the real
`nutils.types.nutils_hash`.  `Props/C17.lean` proves on that model: injectivity up to `Equiv` (collision reduction to
SHA-1), stability under `Equiv`, argument-route independence, width independence of canonical integer array data and
uniqueness in every reachable state of the intern table.

Property oracle on the real code (independent of the model): a canonical structural key `key(v)` (Python re-statement
of `Equiv`): different keys must give different hashes, equal keys equal hashes, in this process, in subprocesses under
other PYTHONHASHSEEDs and after pickling; interned values with equal keys must be one object while alive.
For construction routes whose result the introspective `key` cannot judge (it reads `_args` / `bytes` *after* the real
canonicalisation) the oracle is the generated *assignment* itself: see `c17_grid.py` (memory representation grid of
`arraydata`, call-spelling grid of Immutable/Singleton signatures, keyword orders of `cache.function`).
"""
import os, sys, io, gc, math, pickle, hashlib, subprocess, weakref, collections, dataclasses, inspect, types as pytypes, json, random
import numpy
from .common import Infra, scratch_dir
from . import c17_grid as G


def hx(b):
    return 'x' + bytes(b).hex()


# ---------------------------------------------------------------- test classes (defined once, at import)

def _source_identified(a, b):
    return a + 2 * b


def _load_nutils():
    from nutils import types
    return types


T = _load_nutils()


class ImmA(T.Immutable):
    def __init__(self, a, b=4, c='z'):
        self.a, self.b, self.c = a, b, c


class ImmV1(T.Immutable, version=1):
    def __init__(self, a, b=4, c='z'):
        pass


# a redefinition of ImmA under the same module.qualname with a bumped version (what `version=` is for)
ImmA_v5 = T.ImmutableMeta('ImmA', (T.Immutable,), {'__init__': ImmA.__init__, '__qualname__': 'ImmA', '__module__': __name__}, version=5)


class ImmVar(T.Immutable):
    def __init__(self, a, *rest):
        pass


class ImmKw(T.Immutable):
    def __init__(self, a, *, k=1, l=2):
        pass


class ImmOpts(T.Immutable):
    def __init__(self, *rest, k0=1, **opts):
        pass


class SingOpts(T.Singleton):
    def __init__(self, *rest, k0=1, **opts):
        pass


class SingA(T.Singleton):
    def __init__(self, a, b=4):
        self.a, self.b = a, b


class SingB(T.Singleton):
    def __init__(self, a, b=4):
        self.a, self.b = a, b


class DcA(T.DataClass):
    a: object
    b: object = 4
    c: object = 'z'


class DcB(T.DataClass):
    a: object
    b: object = 4
    c: object = 'z'


class DcSub(DcA):
    d: object = None


class Outer1:
    class Foo(T.Immutable):
        def __init__(self, a):
            pass

    class Bar(T.DataClass):
        a: object


class Outer2:
    class Foo(T.Immutable):
        def __init__(self, a):
            pass

    class Bar(T.DataClass):
        a: object


@dataclasses.dataclass(frozen=True)
class StdDc:
    x: object
    y: object = 0


@dataclasses.dataclass(frozen=True)
class StdDc2:
    x: object
    y: object = 0


Pt = collections.namedtuple('Pt', 'x y')
Pt3 = collections.namedtuple('Pt3', 'x y z')


class MyInt(int):
    pass


class MyStr(str):
    pass


class PlainA:
    pass


class PlainB:
    pass


class Unhashable:
    pass


class ListSub(list):
    pass


IMM_CLASSES = [ImmA, ImmV1, SingA, SingB, Outer1.Foo, Outer2.Foo]
DC_CLASSES = [DcA, DcB, DcSub, Outer1.Bar, Outer2.Bar]


# ---------------------------------------------------------------- describe: Python value -> neutral tree (introspection only)

class Ctx:
    """`special` maps id(obj) -> a Python value that the object is *specified* to hash like
    (hashable_function wrappers, solver method objects, ...), or ('opaque', bytes)."""

    def __init__(self):
        self.special = {}
        self.keep = []

    def alias(self, obj, like):
        self.special[id(obj)] = like
        self.keep.append(obj)
        return obj


def modqual(t):
    return (t.__module__ + '.' + t.__qualname__).encode()


NPKIND = dict(b=bool, i=int, f=float, c=complex)


class _Item(tuple):
    """('pair', k, v) or ('counted', n, item): a piece of a preimage, never confused with a user tuple"""


def _is_item(k, tag):
    return type(k) is _Item and tuple.__getitem__(k, 0) == tag


def describe(o, ctx):
    """returns (ctor, atoms, children, ordered) with ctor one of the model's constructors"""
    sp = ctx.special.get(id(o))
    if sp is not None:
        if isinstance(sp, tuple) and len(sp) == 2 and sp[0] == 'opaque' and isinstance(sp[1], bytes):
            return ('opaque', [sp[1]], [], True)
        return describe(sp, ctx)
    t = type(o)
    if t.__module__ == 'nutils_poly' and t.__name__ == 'MulVar':
        # external extension type: documented hash is sha1 of its qualified member name
        name = next(n for n in ('Left', 'Right', 'Both') if getattr(t, n) == o)
        return ('opaque', [('MulVar.' + name).encode()], [], True)
    if isinstance(o, T.Immutable):
        return ('immutable', [modqual(t), t._version], list(o._args), True)
    if isinstance(o, T.DataClass):
        return ('dclass', [modqual(t)], [getattr(o, n) for n in t.__signature__.parameters], True)
    if isinstance(o, T.frozendict):
        return ('frozendict', [modqual(t)], [_Item(('pair', k, v)) for k, v in o.items()], False)
    if isinstance(o, T.frozenmultiset):
        cnt = collections.Counter(iter(o))
        return ('frozenmultiset', [modqual(t)], [_Item(('counted', n, k)) for k, n in cnt.items()], False)
    if isinstance(o, numpy.generic):
        k = o.dtype.kind
        if k in NPKIND:
            return ('npscalar', [ord(k)], [NPKIND[k](o)], True)
        return ('npscalar', [ord(k)], [None], True)
    if o is None:
        return ('none', [], [], True)
    if o is Ellipsis:
        return ('ellipsis', [], [], True)
    if t is type:
        return ('type', [o.__name__.encode()], [], True)
    if t is bool:
        return ('bool', [o], [], True)
    if t is int:
        return ('int', [o], [], True)
    if t is float:
        return ('float', [o], [], True)
    if t is complex:
        return ('complex', [o], [], True)
    if t is str:
        return ('str', [o.encode()], [], True)
    if t is bytes:
        return ('bytes', [o], [], True)
    if t is tuple:
        return ('tuple', [], list(o), True)
    if t is list:
        return ('list', [], list(o), True)
    if t is dict:
        return ('dict', [], [_Item(('pair', k, v)) for k, v in o.items()], False)
    if t is set:
        return ('set', [], list(o), False)
    if t is frozenset:
        return ('frozenset', [], list(o), False)
    if issubclass(t, io.BufferedIOBase) and o.seekable():
        pos = o.tell(); o.seek(0); content = o.read(); o.seek(pos)
        return ('bufio', [t.__name__.encode(), pos, content], [], True)
    if t is pytypes.MethodType:
        return ('method', [], [o.__self__, o.__name__], True)
    if t is numpy.ndarray:
        return ('ndarray', [list(o.shape), o.dtype.str.encode(), o.tobytes()], [], True)
    if dataclasses.is_dataclass(t):
        return ('dataclass', [t.__name__.encode()], [(f.name, getattr(o, f.name)) for f in dataclasses.fields(t)], False)
    if hasattr(o, '__getnewargs__'):
        return ('newargs', [t.__name__.encode()], list(o.__getnewargs__()), True)
    return ('unsupported', [t.__name__.encode()], [], True)


def float_repr_spec(x):
    # Python's repr is the shortest string that round-trips; the model takes it as data.
    return repr(x).encode()


def tokens(o, ctx):
    """model syntax of the value (see lean/Drivers/C17.lean)"""
    out = []
    _tok(o, ctx, out)
    return ' '.join(out)


def _tok_item(item, ctx, out):
    if item[0] == 'pair':
        out.append('P'); _tok(item[1], ctx, out); _tok(item[2], ctx, out)
    else:
        out.append('Q%d' % item[1]); _tok(item[2], ctx, out)


def _tok(o, ctx, out):
    ctor, atoms, kids, _ = describe(o, ctx)
    n = len(kids)
    if ctor == 'none': out.append('N')
    elif ctor == 'ellipsis': out.append('E')
    elif ctor == 'bool': out.append('b1' if atoms[0] else 'b0')
    elif ctor == 'int': out.append('i%d' % atoms[0])
    elif ctor == 'float': out.append('f' + float_repr_spec(atoms[0]).hex())
    elif ctor == 'complex': out.append('c' + repr(atoms[0]).encode().hex())
    elif ctor == 'str': out.append('s' + atoms[0].hex())
    elif ctor == 'bytes': out.append('y' + atoms[0].hex())
    elif ctor == 'type': out.append('t' + atoms[0].hex())
    elif ctor in ('tuple', 'list', 'set', 'frozenset'):
        out.append(dict(tuple='T', list='L', set='S', frozenset='Z')[ctor] + str(n))
        for k in kids: _tok(k, ctx, out)
    elif ctor == 'dict':
        out.append('D%d' % n)
        for k in kids: _tok_item(k, ctx, out)
    elif ctor == 'bufio':
        out += ['O', hx(atoms[0]), str(atoms[1]), hx(atoms[2])]
    elif ctor == 'method':
        out.append('M'); _tok(kids[0], ctx, out); _tok(kids[1], ctx, out)
    elif ctor == 'ndarray':
        out.append('A%d' % len(atoms[0])); out += [str(d) for d in atoms[0]]; out += [hx(atoms[1]), hx(atoms[2])]
    elif ctor == 'dataclass':
        out += ['K%d' % n, hx(atoms[0])]
        for name, v in kids: _tok((name, v), ctx, out)
    elif ctor == 'newargs':
        out += ['G%d' % n, hx(atoms[0])]
        for k in kids: _tok(k, ctx, out)
    elif ctor == 'immutable':
        out += ['U%d' % n, hx(atoms[0]), str(atoms[1])]
        for k in kids: _tok(k, ctx, out)
    elif ctor == 'dclass':
        out += ['V%d' % n, hx(atoms[0])]
        for k in kids: _tok(k, ctx, out)
    elif ctor == 'frozendict':
        out += ['W%d' % n, hx(atoms[0])]
        for k in kids: _tok_item(k, ctx, out)
    elif ctor == 'frozenmultiset':
        out += ['X%d' % n, hx(atoms[0])]
        for k in kids: _tok_item(k, ctx, out)
    elif ctor == 'opaque':
        out += ['H', hx(atoms[0])]
    elif ctor == 'npscalar':
        out.append('n%d' % atoms[0]); _tok(kids[0], ctx, out)
    elif ctor == 'unsupported':
        out += ['?', hx(atoms[0])]
    else:
        raise Infra('describe: unknown ctor %r' % ctor)


def fkey(x):
    return 'nan' if x != x else x.hex()


def key(o, ctx):
    """canonical structural key = the intended identification (Python statement of `Equiv` after `norm`);
    raises KeyError/TypeError where hashing is specified to fail"""
    ctor, atoms, kids, ordered = describe(o, ctx)
    if ctor == 'npscalar':
        if chr(atoms[0]) not in NPKIND: raise KeyError(chr(atoms[0]))
        return key(kids[0], ctx)
    if ctor == 'unsupported':
        raise TypeError(atoms[0])
    if ctor == 'float': a = (fkey(atoms[0]),)
    elif ctor == 'complex': a = (fkey(atoms[0].real), fkey(atoms[0].imag))
    elif ctor == 'bufio': a = (atoms[0], str(atoms[1]).encode() + atoms[2])
    elif ctor == 'ndarray': a = (','.join(map(str, atoms[0])) + atoms[1].decode(), atoms[2])
    else: a = tuple(atoms)
    if ctor in ('dict', 'frozendict'):
        ks = sorted(repr((key(k, ctx), key(v, ctx))) for _, k, v in kids)
    elif ctor == 'frozenmultiset':
        ks = sorted(repr((n, key(k, ctx))) for _, n, k in kids)
    elif ctor == 'dataclass':
        ks = sorted(repr(key((name, v), ctx)) for name, v in kids)
    elif ordered:
        ks = [key(k, ctx) for k in kids]
    else:
        ks = sorted(repr(key(k, ctx)) for k in kids)
    return (ctor, a, tuple(ks))


def supported_domain(o, ctx, names=None):
    """well-formedness on the Python side: multiplicities < 10000, no NUL in class names; collects (tag, ctor)"""
    if names is None: names = {}
    ctor, atoms, kids, _ = describe(o, ctx)
    ok = True
    if ctor in ('bufio', 'dataclass', 'newargs', 'immutable', 'dclass', 'frozendict', 'frozenmultiset'):
        tag = atoms[0] + (b':%d' % atoms[1] if ctor == 'immutable' else b'')
        ok &= b'\0' not in tag
        names.setdefault(tag, set()).add(ctor)
    elif ctor not in ('opaque', 'npscalar', 'unsupported'):
        names.setdefault(BUILTIN_TAG[ctor], set()).add(ctor)
    if ctor == 'opaque': ok &= b'\0' not in atoms[0]
    if ctor == 'bufio': ok = False       # documented ambiguity, outside the supported domain
    for k in kids:
        if _is_item(k, 'pair'):
            ok &= supported_domain(k[1], ctx, names)[0] and supported_domain(k[2], ctx, names)[0]
        elif _is_item(k, 'counted'):
            ok &= k[1] < 10000 and supported_domain(k[2], ctx, names)[0]
        elif ctor == 'dataclass':
            ok &= supported_domain(k[1], ctx, names)[0]
            names.setdefault(b'tuple', set()).add('tuple'); names.setdefault(b'str', set()).add('str')
        else:
            ok &= supported_domain(k, ctx, names)[0]
    return ok, names


BUILTIN_TAG = dict(none=b'NoneType', ellipsis=b'ellipsis', bool=b'bool', int=b'int', float=b'float', complex=b'complex', str=b'str',
                   bytes=b'bytes', type=b'type', tuple=b'tuple', list=b'list', dict=b'dict', set=b'set', frozenset=b'frozenset',
                   method=b'method', ndarray=b'ndarray')


def clash_free(n1, n2):
    allk = set(n1) | set(n2)
    return all(len(n1.get(k, set()) | n2.get(k, set())) <= 1 for k in allk)


# ---------------------------------------------------------------- generators

INTS = [0, 1, -1, 2, 10, 255, 256, -128, 2**31, 2**63 - 1, -2**63, 2**64, 10**30, -10**30, 12, 3]
FLOATS = [0.0, -0.0, 1.0, -1.0, 0.1, 0.5, 1e300, 1e-300, 5e-324, float('inf'), float('-inf'), float('nan'), 2.0, 1e16, 123456789.125, 1/3]
STRS = ['', 'a', 'b', 'ab', '1', 'True', 'None', 'tuple', 'int', 'a\0b', '\0', 'é', '日本', 'hashable_function', 'x' * 70, 'spam', 'eggs']
BYTES = [b'', b'a', b'ab', b'1', b'\0', b'a\0b', b'\xff\xfe', bytes(range(40)), b'tuple\0', b'int']
NPINT = [numpy.int8, numpy.int16, numpy.int32, numpy.int64]
NPUINT = [numpy.uint8, numpy.uint16, numpy.uint32, numpy.uint64]
NPFLOAT = [numpy.float16, numpy.float32, numpy.float64]
TYPES = [bool, int, float, complex, str, bytes, tuple, list, dict, set, frozenset, type(None), PlainA, PlainB, numpy.float64, numpy.int64]
DTYPES = ['<i8', '<i4', '>i4', '<i2', '|i1', '|u1', '<u4', '<f8', '<f4', '>f8', '|b1', '<c16', '<u8']


def gen_scalar(rng):
    r = rng.random()
    if r < .08: return None
    if r < .12: return Ellipsis
    if r < .2: return rng.choice([True, False])
    if r < .4: return rng.choice(INTS) if rng.random() < .6 else rng.randint(-1000, 1000)
    if r < .55: return rng.choice(FLOATS) if rng.random() < .7 else rng.randint(-64, 64) / 8
    if r < .6: return complex(rng.choice(FLOATS[:8]), rng.choice(FLOATS[:8]))
    if r < .75: return rng.choice(STRS)
    if r < .83: return rng.choice(BYTES)
    if r < .88: return rng.choice(TYPES)
    if r < .93:
        t = rng.choice(NPINT); info = numpy.iinfo(t)
        return t(rng.choice([0, 1, -1, info.min, info.max, rng.randint(-100, 100)]))
    if r < .96: return rng.choice(NPFLOAT)(rng.choice([0.0, -0.0, 1.0, 0.5, 0.1, float('inf'), 3.0]))
    if r < .98: return numpy.bool_(rng.random() < .5)
    return rng.choice([numpy.complex64, numpy.complex128])(complex(rng.choice([0., 1., .5]), rng.choice([0., -1.])))


def gen_hashable(rng, depth):
    """a Python-hashable supported value (may be used as set element / dict key / Immutable argument)"""
    r = rng.random()
    if depth <= 0 or r < .45:
        return gen_scalar(rng)
    n = rng.choice([0, 1, 1, 2, 2, 3, 4, 6])
    if r < .62: return tuple(gen_hashable(rng, depth - 1) for _ in range(n))
    if r < .68: return frozenset(gen_hashable(rng, depth - 1) for _ in range(n))
    if r < .73: return T.frozendict({gen_hashable(rng, depth - 1): gen_hashable(rng, depth - 1) for _ in range(n)})
    if r < .78: return T.frozenmultiset([gen_hashable(rng, depth - 1) for _ in range(n)] * rng.choice([1, 1, 2]))
    if r < .84:
        cls = rng.choice(IMM_CLASSES)
        if cls in (ImmA, ImmV1): return cls(*[gen_hashable(rng, depth - 1) for _ in range(rng.randint(1, 3))])
        if cls in (SingA, SingB): return cls(*[gen_hashable(rng, depth - 1) for _ in range(rng.randint(1, 2))])
        return cls(gen_hashable(rng, depth - 1))
    if r < .9:
        cls = rng.choice(DC_CLASSES)
        na = 1 if cls in (Outer1.Bar, Outer2.Bar) else rng.randint(1, 4 if cls is DcSub else 3)
        return cls(*[gen_hashable(rng, depth - 1) for _ in range(na)])
    if r < .93: return T.arraydata(gen_array(rng, native=True))
    if r < .95: return rng.choice([StdDc, StdDc2])(gen_hashable(rng, depth - 1), gen_hashable(rng, depth - 1))
    if r < .97: return rng.choice([Pt(gen_hashable(rng, depth - 1), gen_hashable(rng, depth - 1)), MyInt(rng.randint(-5, 5)), MyStr(rng.choice(STRS))])
    if r < .985: return getattr(rng.choice([ImmA(rng.randint(0, 3)), SingA(rng.randint(0, 3))]), rng.choice(['__str__', '__reduce__']))
    return ImmVar(*[gen_hashable(rng, depth - 1) for _ in range(rng.randint(1, 3))])


def gen_array(rng, native=False):
    dt = rng.choice(['<i8', '<f8', '|b1', '<c16'] if native else DTYPES)
    shape = rng.choice([(), (0,), (1,), (2,), (3,), (2, 3), (3, 2), (6,), (1, 6), (2, 1, 3), (0, 2), (12,), (1, 2)])
    n = int(numpy.prod(shape))
    kind = numpy.dtype(dt).kind
    if kind == 'b': data = [rng.random() < .5 for _ in range(n)]
    elif kind == 'u': data = [rng.randint(0, 100) for _ in range(n)]
    elif kind == 'i': data = [rng.randint(-100, 100) for _ in range(n)]
    elif kind == 'f': data = [rng.randint(-64, 64) / 8 for _ in range(n)]
    else: data = [complex(rng.randint(-4, 4), rng.randint(-4, 4)) for _ in range(n)]
    a = numpy.array(data, dtype=dt).reshape(shape)
    r = rng.random()
    if not native and a.ndim >= 1 and a.shape[0] >= 2 and r < .2: a = a[::2]                # non-contiguous view
    elif not native and a.ndim == 2 and r < .4: a = numpy.asfortranarray(a)                # Fortran order
    elif not native and a.ndim == 2 and r < .5: a = a.T
    return a


def gen_value(rng, depth=3):
    """any value nutils_hash may be called with (incl. unhashable-by-Python containers and failing ones)"""
    r = rng.random()
    if r < .5: return gen_hashable(rng, depth)
    n = rng.choice([0, 1, 2, 2, 3, 5, 7])
    if r < .6: return [gen_value(rng, depth - 1) for _ in range(n)]
    if r < .68: return {gen_hashable(rng, depth - 1): gen_value(rng, depth - 1) for _ in range(n)}
    if r < .74: return {gen_hashable(rng, depth - 1) for _ in range(n)}
    if r < .82: return gen_array(rng)
    if r < .86: return tuple(gen_value(rng, depth - 1) for _ in range(n))
    if r < .89:
        f = io.BytesIO(rng.choice(BYTES + [b'05', b'5'])); f.seek(rng.choice([0, 0, 1, 10])); return f
    if r < .92: return rng.choice(NPUINT)(rng.randint(0, 5)) if rng.random() < .5 else rng.choice([numpy.str_('a'), numpy.bytes_(b'a'), numpy.datetime64('2020-01-01')])
    if r < .95: return rng.choice([Unhashable(), object(), (lambda: 0), ListSub([1]), collections.OrderedDict(a=1), range(3), bytearray(b'a'), memoryview(b'a')])
    if r < .97: return (gen_hashable(rng, 1), rng.choice([Unhashable(), numpy.uint8(1)]), gen_hashable(rng, 1))
    return StdDc([gen_value(rng, depth - 1)], {1: gen_value(rng, depth - 1)})


def variants(v, rng, ctx):
    """adversarial near misses of a value: must all differ from `v` under the intended identification
    unless they are re-spellings (then their keys coincide, which the oracle handles)."""
    out = []
    t = type(v)
    if t in (bool, int, float) or isinstance(v, (numpy.integer, numpy.floating)):
        try:
            x = int(v) if float(v) == int(v) else None
        except (OverflowError, ValueError, TypeError):
            x = None
        if x is not None and abs(x) < 2**31:
            out += [x, float(x), bool(x) if x in (0, 1) else x + 1, numpy.int64(x), numpy.int32(x), numpy.float64(x), numpy.float32(x),
                    str(x), str(x).encode(), repr(float(x)), (x,), [x], complex(x, 0), -x if x else -0.0]
        if t is float and math.isfinite(v):
            out += [math.nextafter(v, math.inf), math.nextafter(v, -math.inf), numpy.float64(v), -v]
    elif t is str:
        out += [v.encode(), v + '\0', '\0' + v, v + ' ', (v,), MyStr(v), [v], v.upper() if v.upper() != v else v + 'x']
    elif t is bytes:
        try: out.append(v.decode())
        except UnicodeDecodeError: pass
        out += [v + b'\0', bytearray(v) and v + b' ', (v,)]
    elif t in (tuple, list):
        L = list(v)
        out += [list(L) if t is tuple else tuple(L), tuple(L[::-1]), tuple(L + [None]), tuple(L[:-1]), (tuple(L),)]
        if len(L) >= 2:
            out += [((L[0],),) + tuple(L[1:]), (L[0], tuple(L[1:])), (tuple(L[:-1]), L[-1]), (tuple(L[:-1]) + ((L[-1],),))]
        try: out += [frozenset(L), T.frozenmultiset(L), Pt(*L) if len(L) == 2 else ImmVar(0, *L), ImmA(*L[:3]) if 1 <= len(L) <= 3 else None]
        except TypeError: pass
    elif t in (set, frozenset):
        L = list(v)
        out += [tuple(L), T.frozenmultiset(L), frozenset(L) if t is set else set(L), frozenset(L + [None]), frozenset(L + ['extra']), frozenset(L[:-1]), frozenset(L[1:]), T.frozenmultiset(L + L)]
    elif t is dict or isinstance(v, T.frozendict):
        items = list(v.items())
        out += [tuple(items), frozenset(items) if all(_py_hashable(i) for i in items) else None, dict(items[::-1]), dict(items[:-1]), dict(items[1:]), dict(items + [('extra', None)]),
                {val: k for k, val in items if _py_hashable(val)}, T.frozendict(v) if t is dict and all(_py_hashable(val) for _, val in items) else dict(v)]
    elif t is numpy.ndarray:
        out += [v.reshape(-1), v.reshape(v.shape[::-1]) if v.ndim else v.reshape(1), v.reshape(v.shape + (1,)), v.tobytes(), v.tolist() if v.ndim else (v.item(),)]
        if v.dtype.itemsize in (4, 8) and v.dtype.kind in 'iuf':
            out += [v.view('<i%d' % v.dtype.itemsize), v.view('<u%d' % v.dtype.itemsize), v.view('<f%d' % v.dtype.itemsize), v.astype(v.dtype.newbyteorder()), v.byteswap()]
        if v.dtype.kind in 'iu': out += [v.astype('<i8'), v.astype('<i4'), v.astype('<f8')]
        if v.dtype.kind in 'biuf' and v.dtype.byteorder != '>' and v.dtype != numpy.float16 and v.dtype.itemsize != 2 or v.dtype.kind == 'c':
            try: out.append(T.arraydata(v))
            except ValueError: pass
        if v.size: w = v.copy(); w.flat[rng.randrange(v.size)] = (not w.flat[0]) if v.dtype.kind == 'b' else w.flat[0] + 1; out.append(w)
    elif isinstance(v, T.Immutable) and not isinstance(v, T.arraydata):
        args = v._args
        for cls in IMM_CLASSES:
            if cls is not t:
                try: out.append(cls._new(*args))
                except TypeError: pass
        out += [args, (t.__name__,) + args, Pt3(t.__module__, t.__qualname__, args)]
    elif isinstance(v, T.DataClass):
        args = tuple(getattr(v, n) for n in t.__signature__.parameters)
        for cls in DC_CLASSES:
            if cls is not t:
                try: out.append(cls(*args))
                except TypeError: pass
        out += [args, dict(zip(t.__signature__.parameters, args))]
    elif isinstance(v, T.frozenmultiset):
        L = list(v)
        out += [T.frozenmultiset(L + L[:1]) if L else T.frozenmultiset([None]), frozenset(L), tuple(L), T.frozenmultiset(set(L)), T.frozenmultiset(L[:-1]), T.frozenmultiset(L + ['extra'])]
    elif isinstance(v, T.arraydata):
        a = numpy.asarray(v)
        out += [a, (v.dtype, v.shape, v.bytes), T.arraydata(a.reshape(-1)), T.arraydata(a.astype(complex)) if a.dtype.kind != "c" else None]
    elif dataclasses.is_dataclass(v):
        out += [StdDc2(v.x, v.y) if t is StdDc else StdDc(v.x, v.y), (v.x, v.y), t(v.y, v.x), {'x': v.x, 'y': v.y}, Pt(v.x, v.y)]
    return [o for o in out if o is not None]


def respell(v, rng, depth=3):
    """another construction route for the *same* value (equal key): dict/set insertion order, numpy scalars, keyword
    arguments, Fortran-order / strided array views, shuffled multiset operands; returns None when there is no other route"""
    t = type(v)
    sub = (lambda x: (lambda y: x if y is None else y)(respell(x, rng, depth - 1))) if depth > 0 else (lambda x: x)
    if t is bool: return numpy.bool_(v)
    if t is int: return numpy.int64(v) if -2**63 <= v < 2**63 and rng.random() < .7 else (numpy.int16(v) if -2**15 <= v < 2**15 else None)
    if t is float: return numpy.float64(v)
    if t is complex: return numpy.complex128(v)
    if isinstance(v, (numpy.integer,)): return int(v)
    if isinstance(v, numpy.floating) and v.dtype.itemsize <= 8: return float(v)
    if t is tuple: return tuple(sub(x) for x in v)
    if t is list: return [sub(x) for x in v]
    if t is dict: return {k: sub(val) for k, val in reversed(list(v.items()))}
    if t is set: return set(reversed(sorted(v, key=lambda x: rng.random())))
    if t is frozenset: return frozenset(sorted(v, key=lambda x: rng.random()))
    if isinstance(v, T.frozendict): return T.frozendict(dict(reversed(list(v.items()))))
    if isinstance(v, T.frozenmultiset):
        L = list(v); rng.shuffle(L); return T.frozenmultiset(L)
    if t is numpy.ndarray:
        if v.ndim == 2 and rng.random() < .5: return numpy.asfortranarray(v) if v.flags.c_contiguous else numpy.ascontiguousarray(v)
        w = numpy.empty(v.shape[:-1] + (2 * v.shape[-1],), dtype=v.dtype)[..., ::2] if v.ndim else numpy.empty((), dtype=v.dtype)
        w[...] = v
        return w
    if isinstance(v, T.arraydata):
        a = numpy.asarray(v)
        if not a.size: return None
        if a.dtype.kind == 'i' and a.size and abs(a).max() < 100: return T.arraydata(a.astype(rng.choice(['|i1', '<i2', '<i4', '<u8' if a.min() >= 0 else '<i4'])))
        if a.dtype.kind == 'f' and a.size: return T.arraydata(a.astype('<f4')) if (a.astype('<f4') == a).all() else T.arraydata(a.tolist())
        return T.arraydata(a.tolist())
    if isinstance(v, T.Immutable) and t in (ImmA, ImmV1, SingA, SingB):
        names = list(inspect.signature(t).parameters)
        return t(**{n: sub(a) if _py_hashable(a) else a for n, a in zip(names, v._args)})
    if isinstance(v, T.DataClass):
        names = list(t.__signature__.parameters)
        kw = {n: getattr(v, n) for n in names}
        return t(**dict(reversed(list(kw.items()))))
    if dataclasses.is_dataclass(v) and t in (StdDc, StdDc2): return t(y=sub(v.y), x=sub(v.x))
    return None


def _py_hashable(o):
    try: hash(o); return True
    except TypeError: return False


ADVERSARIAL = [
    (1, True), (1, 1.0), (True, 1.0), (0, False), (0.0, -0.0), ('a', b'a'), ('', b''), ((), []), ((), frozenset()), ([], {}), (set(), frozenset()),
    (((1,), 2), (1, (2,))), (((1, 2),), (1, 2)), ((1, 2), (12,)), (('ab',), ('a', 'b')), ((b'ab',), (b'a', b'b')),
    (None, 'None'), (None, ()), (Ellipsis, '...'), (int, 'int'), (int, float), (PlainA, PlainB),
    ({1: 2}, {2: 1}), ({1: 2}, ((1, 2),)), ({'a': 1, 'b': 2}, {'a': 2, 'b': 1}), ({1: {2: 3}}, {1: ((2, 3),)}),
    (frozenset([1, 2]), frozenset([(1, 2)])), (frozenset([frozenset([1]), 2]), frozenset([1, frozenset([2])])),
    (1e16, 10**16), (float('nan'), 'nan'), (float('inf'), float('-inf')), (0.1, numpy.float32(0.1)), (1 + 0j, 1), (1j, complex(0, -1)),
    (2**64, 0), (-1, 2**64 - 1), (10, '10'), ('1', 1),
]


def builtin_corpus(rng):
    ad = list(ADVERSARIAL)
    ad += [(frozenset(range(6)), frozenset(range(7))), (set('abcdefg'), set('abcdefh')), ({i: i for i in range(6)}, {i: i for i in range(7)}),
           (dict.fromkeys('abcdef', 0), dict.fromkeys('abcdeg', 0)), (tuple(range(9)), tuple(range(8)) + (9,)), (list(range(30)), list(range(29)) + [0]),
           (T.frozenmultiset(range(6)), T.frozenmultiset(range(7))), (T.frozendict({i: i for i in range(6)}), T.frozendict({i: i for i in range(5)})),
           (T.frozenmultiset(['a'] * 10000), T.frozenmultiset(['a'] * 1000)), (T.frozenmultiset(['a'] * 12345), T.frozenmultiset(['a'] * 1234)),
           (io.BufferedReader(io.BytesIO(b'abc')), io.BytesIO(b'abc')),
           ('x' * 70, 'x' * 69 + 'y'), (bytes(range(80)), bytes(range(79)) + b'\0'), (10**40, 10**40 + 1), (ImmVar(*range(7)), ImmVar(*range(6), 7)),
           (numpy.arange(40), numpy.arange(40) + (numpy.arange(40) == 39))]
    A = numpy.arange(6)
    ad += [(A.reshape(2, 3), A.reshape(3, 2)), (A, A.astype('<i4')), (A.astype('<i4'), A.astype('>i4')), (A, A.astype(float)), (A, A.tobytes()),
           (A.reshape(1, 6), A.reshape(6, 1)), (numpy.array(5), 5), (numpy.array([5]), numpy.array(5)), (numpy.zeros(0), numpy.zeros((0, 3))),
           (numpy.array([1, 2], dtype='<i8').view('<f8'), numpy.array([1, 2], dtype='<i8')), (numpy.array([True, False]), numpy.array([1, 0], dtype='|i1')),
           (numpy.arange(12).reshape(1, 12), numpy.arange(12).reshape(12)), (numpy.array([0.0]), numpy.array([-0.0]))]
    ad += [(ImmA(1), ImmA_v5(1)), (ImmA(1), ImmV1(1)), (ImmA(1), (1, 4, 'z', ())), (ImmA(1, 2), ImmA(1, 2, 'y')), (Outer1.Foo(1), Outer2.Foo(1)), (Outer1.Bar(1), Outer2.Bar(1)),
           (DcA(1), DcB(1)), (DcA(1), DcSub(1)), (DcA(1), ImmA(1)), (SingA(1), SingB(1)), (ImmA((1,), 2), ImmA(1, (2,))), (ImmVar(1, 2), ImmVar(1, (2,))),
           (ImmVar(1, 2), ImmVar((1, 2))), (ImmKw(1, k=2), ImmKw(1, l=2)), (ImmKw(1, k=2, l=3), ImmKw(1, k=3, l=2)),
           (T.frozendict({1: 2}), {1: 2}), (T.frozendict({1: 2}), T.frozendict({2: 1})), (T.frozenmultiset([1, 1, 2]), T.frozenmultiset([1, 2, 2])),
           (T.frozenmultiset([1, 1]), T.frozenmultiset([1])), (T.frozenmultiset([1, 2]), frozenset([1, 2])), (T.frozenmultiset([(1, 2)]), T.frozenmultiset([1, 2])),
           (T.frozenmultiset(['a'] * 11), T.frozenmultiset(['a'] * 1)), (T.frozenmultiset([T.frozenmultiset([1]), 2]), T.frozenmultiset([1, T.frozenmultiset([2])])),
           (T.frozendict({1: T.frozendict({2: 3})}), T.frozendict({1: ((2, 3),)})),
           (T.arraydata([1, 2]), T.arraydata([1., 2.])), (T.arraydata([[1, 2]]), T.arraydata([1, 2])), (T.arraydata([True]), T.arraydata([1])),
           (T.arraydata([1, 2]), numpy.array([1, 2])), (StdDc(1, 2), StdDc2(1, 2)), (StdDc(1, 2), StdDc(2, 1)), (StdDc(1, 2), Pt(1, 2)), (Pt(1, 2), (1, 2)),
           (Pt(1, 2), Pt3(1, 2, 3)), (MyInt(1), 1), (MyStr('a'), 'a'), (ImmA(1).__str__, ImmA(2).__str__), (ImmA(1).__str__, ImmA(1).__repr__),
           (ImmA(1).__str__, (ImmA(1), '__str__'))]
    return ad


# ---------------------------------------------------------------- real-code adapters

def real_hash(v):
    try:
        h = T.nutils_hash(v)
    except Exception as e:
        return 'err|' + type(e).__name__
    if not isinstance(h, bytes):
        return 'nonbytes|' + type(h).__name__
    return 'ok|' + h.hex()


def spec_outcome(v, ctx):
    try:
        key(v, ctx); return 'ok'
    except KeyError: return 'err|KeyError'
    except TypeError: return 'err|TypeError'


# ---------------------------------------------------------------- nutils object corpus (deterministic given an rng)

def nutils_corpus(rng, small=True):
    """real library values: evaluables (commutative operand orders), topologies, transforms, references, samples, points"""
    from nutils import mesh, function, evaluable, element, transform, transformseq, elementseq, points, sample
    out = []
    a = evaluable.Argument('a', (evaluable.constant(3),), float)
    b = evaluable.Argument('b', (evaluable.constant(3),), float)
    c = evaluable.constant(numpy.arange(3.))
    terms = [a, b, c, evaluable.sin(a), evaluable.multiply(a, b)]
    rng.shuffle(terms)
    x, y, z = terms[:3]
    pairs = [
        ('add-comm', evaluable.add(x, y), evaluable.add(y, x)),
        ('mul-comm', evaluable.multiply(x, y), evaluable.multiply(y, x)),
        ('add-nested-comm', evaluable.add(evaluable.add(x, y), z), evaluable.add(z, evaluable.add(y, x))),
        ('mul-nested-comm', evaluable.multiply(evaluable.multiply(x, y), z), evaluable.multiply(z, evaluable.multiply(y, x))),
        ('const-width', evaluable.constant(numpy.arange(4, dtype='<i4')), evaluable.constant(numpy.arange(4, dtype='<i8'))),
        ('const-list', evaluable.constant([1, 2, 3]), evaluable.constant(numpy.array([1, 2, 3], dtype='|i1'))),
        ('kw-pos', evaluable.Argument('q', (evaluable.constant(2),), float), evaluable.Argument(name='q', shape=(evaluable.constant(2),))),
        ('sinc-default', evaluable.Sinc(a), evaluable.Sinc(a, n=0)),
        ('eig-default', evaluable.InsertAxis(a, evaluable.constant(2)), evaluable.InsertAxis(length=evaluable.constant(2), func=a)),
    ]
    n = rng.choice([1, 2, 3])
    topo, geom = mesh.rectilinear([numpy.linspace(0, 1, n + 1)] * rng.choice([1, 2]))
    topo2, geom2 = mesh.rectilinear([numpy.linspace(0, 1, n + 1)] * topo.ndims)
    pairs += [('topo-rebuild-transforms', topo.transforms, topo2.transforms), ('topo-rebuild-references', topo.references, topo2.references),
              ('sample-rebuild', topo.sample('gauss', 2), topo2.sample('gauss', 2)),
              ('boundary-rebuild', topo.boundary.transforms, topo2.boundary.transforms),
              ('refined-rebuild', topo.refined.transforms, topo2.refined.transforms),
              ('points-kw', points.CoordsWeightsPoints(T.arraydata([[.5]]), T.arraydata([1.])), points.CoordsWeightsPoints(weights=T.arraydata([1.]), coords=T.arraydata(numpy.array([[.5]], dtype='<f4')))),
              ('simplexref', element.getsimplex(2), element.TriangleReference()),
              ('tensorref', element.getsimplex(1) * element.getsimplex(1), element.TensorReference(element.LineReference(), element.LineReference()))]
    singles = [topo.transforms, topo.references, topo.boundary.references, topo.sample('gauss', 1), topo.sample('bezier', 2), topo.sample('gauss', 2).bind(geom).as_evaluable_array,
               topo.integral((geom ** 2).sum(-1), degree=2).as_evaluable_array, topo.sample('gauss', 2).integral(topo.basis('std', degree=1)).as_evaluable_array, element.getsimplex(3), transform.Identity(2) if hasattr(transform, 'Identity') else None,
               transformseq.IndexTransforms(1, 3), topo.refined.references, topo.interfaces.transforms, topo.interfaces.opposites]
    distinct = [('add-vs-mul', evaluable.add(x, y), evaluable.multiply(x, y)), ('add-xy-vs-xz', evaluable.add(x, y), evaluable.add(x, z)),
                ('add-xx-vs-x', evaluable.Add(T.frozenmultiset([x, x])), evaluable.Add(T.frozenmultiset([x, y]))),
                ('topo-n-vs-n+1', topo.transforms, mesh.rectilinear([numpy.linspace(0, 1, n + 2)] * topo.ndims)[0].transforms),
                ('interfaces-sides', topo.interfaces.transforms, topo.interfaces.opposites) if n > 1 else None,
                ('sample-degree', topo.sample('gauss', 2), topo.sample('gauss', 4)),
                ('const-int-vs-float', evaluable.constant([1, 2]), evaluable.constant([1., 2.])),
                ('arg-name', evaluable.Argument('a', (), float), evaluable.Argument('b', (), float)),
                ('arg-dtype', evaluable.Argument('a', (), float), evaluable.Argument('a', (), int))]
    return pairs, [s for s in singles if s is not None], [d for d in distinct if d is not None]


# ---------------------------------------------------------------- subprocess entry: hashes of a deterministic corpus

def stable_corpus(seed, n):
    rng = random.Random(seed)
    vals = []
    for i in range(n):
        v = gen_value(rng, 3)
        vals.append(v)
    strs = ['k%d' % i for i in range(12)]
    vals += [set(strs), frozenset(strs), {s: i for i, s in enumerate(strs)}, T.frozendict({s: i for i, s in enumerate(strs)}),
             T.frozenmultiset(strs + strs[:3]), {frozenset(strs[:3]): set(strs[3:6])}, StdDc(set(strs), frozenset(strs)),
             ImmA(frozenset(strs)), DcA(frozenset(strs), T.frozendict({s: s for s in strs}))]
    nrng = random.Random(seed + 1)
    try:
        pairs, singles, distinct = nutils_corpus(nrng)
        vals += [p[1] for p in pairs] + [p[2] for p in pairs] + singles
    except Exception as e:
        vals.append('nutils corpus failed: %s' % type(e).__name__)   # reported by the main process as an outcome
    return vals


def sub_main():
    seed, n = int(sys.argv[1]), int(sys.argv[2])
    mode = sys.argv[3] if len(sys.argv) > 3 else 'corpus'
    if mode == 'corpus':
        for v in stable_corpus(seed, n):
            print(real_hash(v))
    elif mode == 'intern-order':
        # hash of "the same" constructor call, with or without an ==-equal-but-different value built before it
        from nutils import evaluable
        first = sys.argv[4]
        keep = []
        try:
            arg = evaluable.Argument('a', (evaluable.constant(3),), float)
            if first == 'float-first': keep.append(evaluable.Sinc(arg, 1.0))
            if first == 'bool-first': keep.append(evaluable.Sinc(arg, True))
        except Exception as e:
            arg = None
        try:
            p = evaluable.Sinc(arg, 1)
            print(real_hash(p)); print(type(p.n).__name__)
        except Exception as e:
            print('exc|' + type(e).__name__); print('-')
        keep2 = []
        if first == 'float-first': keep2.append(DcA(1.0))
        if first == 'bool-first': keep2.append(DcA(True))
        d = DcA(1)
        print(real_hash(d)); print(type(d.a).__name__)


# ---------------------------------------------------------------- the check

def _spawn(procs, args, env=None):
    """background python subprocess in its own session (killed by process group in `run`'s finally clause)"""
    p = subprocess.Popen([sys.executable, '-c', 'import nvh.c17 as m; m.sub_main()'] + list(args), env=env, stdout=subprocess.PIPE, stderr=subprocess.PIPE, text=True, start_new_session=True)
    procs.append(p)
    return p


def run(c):
    procs = []
    try:
        _run(c, procs)
    finally:
        import signal
        for p in procs:
            if p.poll() is None:
                try: os.killpg(p.pid, signal.SIGKILL)
                except Exception: pass
                try: p.kill(); p.wait(timeout=10)
                except Exception: pass


def _run(c, procs):
    from nutils import evaluable, cache as ncache, _util as nutil, solver, function
    c.rule = ('values: random nested builtin / numpy / nutils.types values (scalars from fixed adversarial pools, containers of depth <= 3, arrays of 13 dtypes '
              'and 13 shapes incl. views), each with structured near-miss variants (type confusion, regrouped nesting, container swap, dtype/shape/byte-order '
              'changes, class swap); real nutils evaluables/topologies/samples; a case is one value (digest correspondence) or one pair (collision/stability oracle); '
              'non-trivial = not a bare scalar; distinct by canonical structural key; systematic grids: arraydata over every b/i/u/f/c dtype x both byte orders x '
              'memory layouts x adversarial values with byte-reversed siblings (case = one array, distinct by dtype/shape/layout/values); generated Immutable/Singleton '
              'signatures (positional-or-keyword, defaults, *args, keyword-only, **kwargs) x assignments x call spellings incl. permuted keyword orders '
              '(case = one spelling, non-trivial = at least two keywords); cache.function calls with permuted keywords')
    c.assumptions += ['SHA-1 is collision-free on the byte strings fed to it (theorems are a reduction to this)',
                      'Python float/complex repr and int->str are taken from CPython (model takes the strings as data)',
                      'supported domain excludes: same-named classes hashed by __name__ only (namedtuple/stdlib dataclass/plain type objects), '
                      'seekable buffered files (pos/content ambiguity), multiplicities >= 10000 in frozenmultiset, numpy longdouble, classes as values of Immutable subclasses',
                      'threads do not construct interned objects concurrently (the weak table is not locked)']
    # NVH_C17_SKIP_BUILD=1 is a development switch (mutation testing of the Python side only); never set by ./check
    broken = [] if os.environ.get('NVH_C17_SKIP_BUILD') == '1' else c.build_and_audit()
    if os.environ.get('NVH_C17_SKIP_BUILD') != '1':
        ok, out = c.build(['NutilsVerif.Model.C17.Wire'])     # parser / request handler used by the driver script
        if not ok: broken.append('lake build of the driver library Model/C17/Wire.lean failed: ' + out[-800:])
    c.log('built and audited')
    quick = c.tier == 'quick'
    rng = c.rng
    ctx = Ctx()
    req = []          # all driver requests, answered in one batch
    slots = {}        # name -> (start, count)

    def add(name, lines):
        slots[name] = (len(req), len(lines)); req.extend(lines)

    # ------------------------------------------------------------ intern histories first (small heap: gc.collect() is cheap)
    intern_runs = []
    for cls_kind in ['dc', 'sing', 'arraydata', 'evaluable'] * (2 if quick else 20):
        try:
            intern_runs.append(run_intern_history(rng, cls_kind, 40 if quick else 120))
        except Exception as e:
            c.failing_input('interned-construction-raises:' + cls_kind, 'constructing / dropping interned values raises %s' % type(e).__name__, dict(cls=cls_kind, error=repr(e)[:500]))
    c.log('intern histories run: %d' % len(intern_runs))

    # ------------------------------------------------------------ corpus
    NV = 500 if quick else 12000
    values = []
    for pr in builtin_corpus(rng):
        values += list(pr)
    base = [gen_value(rng, 3) for _ in range(NV)]
    respelled = []
    for v in base:
        values.append(v)
        if rng.random() < .35:
            try:
                w = respell(v, rng)
            except Exception as e:
                raise Infra('respell failed on %r: %r' % (v, e))
            if w is not None:
                respelled.append((len(values) - 1, len(values))); values.append(w)
        if rng.random() < (.5 if quick else .3):
            try:
                vs = variants(v, rng, ctx)
            except Exception as e:
                raise Infra('variant generator failed on %r: %r' % (v, e))
            rng.shuffle(vs)
            values += vs[:3]
    # aliases with specified hashes
    hf1 = ctx.alias(T.hashable_function('ident-1')(lambda a: a), ('hashable_function', 'ident-1'))
    hf2 = ctx.alias(T.hashable_function(('ident', 2))(lambda a: -a), ('hashable_function', ('ident', 2)))
    script = 'def f(a):\n    return a + %d\n' % rng.randint(0, 99)
    uf = ctx.alias(nutil.function(script), ('opaque', script.encode('utf-8')))
    wc = ctx.alias(ncache.WrapperCache(), ('opaque', b'nutils.cache.WrapperCache\0'))
    la = {'atol': 1e-8, 'solver': 'direct'}
    meths = [ctx.alias(solver.Direct(**la), ('Direct', la)), ctx.alias(solver.Newton(**la), ('Newton', la))]
    m = solver.LinesearchNewton(**la); ctx.alias(m, ('LinesearchNewton', m.strategy, m.failrelax, m.relax0, m.linargs)); meths.append(m)
    mm = solver.Minimize(**la); ctx.alias(mm, ('Minimize', mm.rampup, mm.rampdown, mm.failrelax, mm.linargs)); meths.append(mm)
    hf3 = ctx.alias(T.hashable_function(_source_identified), ('hashable_function', inspect.getsource(_source_identified)))
    aliased = [hf1, hf2, hf3, uf, wc] + meths
    try:
        from nutils import mesh
        topo_, geom_ = mesh.rectilinear([numpy.linspace(0, 1, 3)])
        u_ = function.dotarg('u', topo_.basis('std', degree=1)); v_ = function.dotarg('v', topo_.basis('std', degree=1))
        s1 = solver.System(topo_.integral(u_ * v_, degree=2), trial='u', test='v')
        s2 = solver.System(topo_.integral(u_ ** 2, degree=2), trial='u')
        for s_ in (s1, s2):
            ctx.alias(s_, ('System', s_.trials, s_._System__value if s_.is_symmetric else s_._System__block_residual)); aliased.append(s_)
        c.count('alias:System', 2)
    except Exception as e:
        c.failing_input('nutils-construction-raises:System', 'building a solver.System raises %s' % type(e).__name__, dict(error=repr(e)[:500]))
    values += aliased + [(hf1, 1), ImmA(hf1), ('hashable_function', 'ident-1'), 'ident-1', ('ident', 2), script, script.encode(), ('Direct', la), la]
    nrng = random.Random(rng.random())
    try:
        npairs, nsingles, ndistinct = nutils_corpus(nrng)
    except Exception as e:
        # on the unchanged tree these standard constructions never raise: an exception is an outcome of the real code
        import traceback
        c.failing_input('nutils-construction-raises', 'building standard nutils values (evaluables, topologies, samples, points) raises %s' % type(e).__name__,
                        dict(error=repr(e)[:500], traceback=traceback.format_exc()[-1500:]))
        npairs, nsingles, ndistinct = [], [], []
    nut_values = [p[1] for p in npairs] + [p[2] for p in npairs] + nsingles + [d[1] for d in ndistinct] + [d[2] for d in ndistinct]
    values += nut_values

    c.log('corpus generated: %d values' % len(values))
    # ------------------------------------------------------------ stream 1: digest correspondence on every value
    toks = []
    for v in values:
        try:
            toks.append(tokens(v, ctx))
        except Infra:
            raise
        except Exception as e:
            raise Infra('translator failed on %r: %r' % (type(v), e))
    add('hash', ['hash|' + t for t in toks])
    add('cname', ['cname|' + t for t in toks[:60]])

    # ------------------------------------------------------------ stream 2 requests: pairs for the Lean-side decision of Equiv (cross-check of `key`)
    pair_idx = []
    for _ in range(150 if quick else 2500):
        i = rng.randrange(len(values)); j = rng.randrange(len(values)) if rng.random() < .5 else min(len(values) - 1, i + rng.randint(1, 3))
        pair_idx.append((i, j))
    pair_idx += [(2 * k, 2 * k + 1) for k in range(len(builtin_corpus(random.Random(0))))]
    pair_idx += respelled[:100 if quick else 2000]
    add('pair', ['pair|%s|%s' % (toks[i], toks[j]) for i, j in pair_idx])

    # ------------------------------------------------------------ sha1 self-test of the Lean implementation (padding boundaries)
    sha_in = [bytes(rng.randrange(256) for _ in range(n)) for n in [0, 1, 54, 55, 56, 57, 63, 64, 65, 118, 119, 120, 128, 200, 1000]]
    add('sha1', ['sha1|' + b.hex() for b in sha_in])

    # ------------------------------------------------------------ stream: argument canonicalisation (bind)
    bind_cases = gen_bind_cases(rng, 120 if quick else 3000)
    add('bind', ['bind|%s|%s|%s' % (' '.join(n if d is None else '%s:%d' % (n, d) for n, d in ps), ' '.join(map(str, pos)), ' '.join('%s=%d' % kv for kv in kw))
                 for ps, pos, kw in bind_cases])

    # ------------------------------------------------------------ stream: canonical integer array data
    canon_cases = gen_canon_cases(rng, 80 if quick else 2000)
    add('canon', ['canon|%s|%d|%s' % (sg, w, ' '.join(it.hex() for it in items)) for sg, w, items, _ in canon_cases])

    canonbo_cases = gen_canon_cases(rng, 120 if quick else 3000, byteorders='<>')
    add('canonbo', ['canonbo|%s|%s|%d|%s' % (sg, mem_order(arr), w, ' '.join(it.hex() for it in items)) for sg, w, items, arr in canonbo_cases])

    # ------------------------------------------------------------ stream: canonical keyword tuple of Immutable (sorted kwargs)
    kwcanon_cases = gen_kwcanon_cases(rng, 80 if quick else 2000)
    add('kwcanon', ['kwcanon|' + ' '.join('x%s=%d' % (n.encode().hex(), v) for n, v in bound) for cls, order, bound in kwcanon_cases])

    # ------------------------------------------------------------ stream: intern histories (run above; the model is asked for the identities)
    add('intern', ['intern|' + ' '.join(r['events']) for r in intern_runs])

    # ------------------------------------------------------------ stream: cache.function keys
    ckey_cases = gen_ckey_cases(rng, ctx, 12 if quick else 200)
    add('ckey', ['ckey|%s|%s|%s' % (fid.hex(), tokens(tuple(a), ctx), tokens(dict(k), ctx)) for fid, a, k, _ in ckey_cases])

    # subprocess streams run while the Lean driver works: stability across PYTHONHASHSEEDs, construction-history dependence
    nsub = 2 if quick else 6
    ncorp = 150 if quick else 1500
    seeds = ['0', '1', '12345', '4294967295', '77', '31337', '99', '5'][:nsub + 1]
    cseed = rng.randrange(10**6)
    stab_procs = [_spawn(procs, [str(cseed), str(ncorp)], env=dict(os.environ, PYTHONHASHSEED=s)) for s in seeds]
    order_procs = {first: _spawn(procs, ['0', '0', 'intern-order', first]) for first in ('none', 'float-first', 'bool-first')}

    c.log('driver requests: %d' % len(req))
    ans = c.model(req)

    def got(name):
        s, n = slots[name]; return ans[s:s + n]

    c.log('driver answered')
    # ------------------------------------------------------------ evaluate stream 1
    nbad = 0; hashes = []
    for v, t, a in zip(values, toks, got('hash')):
        r = real_hash(v)
        hashes.append(r)
        ctor = describe(v, ctx)[0]
        c.count('value:' + ctor); c.count('real:' + r.split('|')[0] + ('' if r.startswith('ok') else ':' + r.split('|')[1]))
        try: k = repr(key(v, ctx))
        except (KeyError, TypeError): k = None
        c.case(('v', k if k is not None else t), nontrivial=ctor not in ('none', 'ellipsis', 'bool', 'int', 'float', 'complex', 'str', 'bytes', 'type'))
        c.sample(dict(stream='digest', value=repr(v)[:120], model=a[:60], real=r[:60]))
        if a == 'bad-request':
            raise Infra('driver rejected the translation of %r: %s' % (v, t[:200]))
        if a.split('|')[:2] != r.split('|')[:2]:
            nbad += 1
            c.count('digest-mismatch:' + ctor)
            if nbad <= 5:
                c.extra.setdefault('digest_mismatches', []).append(dict(value=repr(v)[:300], tokens=t[:400], model=a, real=r))
        else:
            c.traces += 1
    c.obligation('corr:nutils_hash-digest', nbad == 0, 'correspondence', '%d values, %d mismatches' % (len(values), nbad))
    digest_broken = nbad
    def _cn(v):
        try: return _real_constname(evaluable, v)
        except Infra: raise
        except Exception as e: return 'exc|' + type(e).__name__
    nb = sum(1 for v, a in zip(values[:60], got('cname')) if a != ('err' if not real_hash(v).startswith('ok') else _cn(v)))
    c.obligation('corr:add_constant-name', nb == 0, 'correspondence', '60 values')
    if nb: c.broken_no_input('corr:add_constant-name', 'evaluable builder names constants differently from c<nutils_hash hex>', dict(n=nb))
    nb = sum(1 for b, a in zip(sha_in, got('sha1')) if hashlib.sha1(b).hexdigest() != a)
    c.obligation('selftest:lean-sha1', nb == 0, 'correspondence', '%d messages around the padding boundaries' % len(sha_in))
    if nb: raise Infra('Lean SHA-1 disagrees with hashlib')

    # ------------------------------------------------------------ stream 2: property oracle — collisions and instabilities on the real code
    by_hash = {}; by_key = {}
    infos = []
    for v, r in zip(values, hashes):
        try:
            k = repr(key(v, ctx)); spec = 'ok'
        except KeyError: k = None; spec = 'err|KeyError'
        except TypeError: k = None; spec = 'err|TypeError'
        dom, names = supported_domain(v, ctx)
        infos.append((k, spec, dom, names))
        if spec != 'ok' or not dom:
            c.count('outside-domain' if spec == 'ok' else 'spec-error')
            # the specified exception type must be the real one
            if spec != 'ok' and r.split('|')[:2] != spec.split('|'):
                c.count('error-outcome-mismatch')
                c.broken_no_input('corr:error-branch', 'value specified to raise %s but real outcome is %s' % (spec, r), dict(value=repr(v)[:300], real=r, spec=spec))
            continue
        if not r.startswith('ok'):
            c.failing_input('supported-value-unhashable:' + describe(v, ctx)[0], 'nutils_hash fails (%s) on a supported value' % r, dict(value=repr(v)[:400], real=r))
            continue
        by_hash.setdefault(r, []).append((k, v, names))
        by_key.setdefault(k, []).append((r, v))
    ncoll = 0
    for r, lst in by_hash.items():
        ks = {}
        for k, v, names in lst: ks.setdefault(k, (v, names))
        if len(ks) > 1:
            items = list(ks.items())
            for (k1, (v1, n1)) in items[:1]:
                for (k2, (v2, n2)) in items[1:]:
                    if not clash_free(n1, n2):
                        c.count('documented:name-clash-collision'); continue
                    ncoll += 1
                    c.failing_input('collision:%s/%s' % tuple(sorted([describe(v1, ctx)[0], describe(v2, ctx)[0]])),
                                    'two different values share a nutils hash', dict(a=repr(v1)[:400], b=repr(v2)[:400], hash=r, key_a=k1[:400], key_b=k2[:400]))
    nunst = 0
    for k, lst in by_key.items():
        hs = {r for r, _ in lst}
        if len(hs) > 1:
            nunst += 1
            va = lst[0][1]; vb = next(v for r, v in lst if r != lst[0][0])
            c.failing_input('route-dependent-hash:' + describe(va, ctx)[0], 'the same value has different hashes depending on how it was built',
                            dict(a=repr(va)[:400], b=repr(vb)[:400], hashes=sorted(hs), key=k[:400]))
    c.count('distinct-hashes', len(by_hash)); c.count('distinct-keys', len(by_key))
    c.obligation('prop:no-collision', ncoll == 0, 'oracle', '%d supported values, %d distinct keys, pairwise' % (sum(map(len, by_hash.values())), len(by_key)))
    c.obligation('prop:same-key-same-hash', nunst == 0, 'oracle', '%d keys' % len(by_key))
    if digest_broken and not any(v[2].startswith(('collision', 'route-dependent', 'supported-value-unhashable')) for v in c.violations):
        mm = c.extra.get('digest_mismatches', [{}])[0]
        c.broken_no_input('corr:nutils_hash-digest', 'model digest and real digest differ on %d values, no collision / instability found in the corpus' % digest_broken, mm)

    # cross-check of the Python key against the Lean decision procedure and model-level equality
    nb = 0
    for (i, j), a in zip(pair_idx, got('pair')):
        ki, si, di, ni = infos[i]; kj, sj, dj, nj = infos[j]
        if a == 'err':
            if si == 'ok' and sj == 'ok': nb += 1
            continue
        if si != 'ok' or sj != 'ok':
            nb += 1; continue
        f = dict(x.split('=') for x in a.split('|'))
        same = ki == kj
        c.count('pair:equiv' if same else 'pair:different')
        if (f['equiv'] == '1') != same:
            nb += 1; c.extra.setdefault('pair_mismatch', []).append(dict(a=repr(values[i])[:200], b=repr(values[j])[:200], model=a, key_equal=same))
        if f['wf'] == '1' and f['clashfree'] == '1' and (f['eq'] == '1') != (f['equiv'] == '1'):
            nb += 1; c.extra.setdefault('pair_mismatch', []).append(dict(a=repr(values[i])[:200], b=repr(values[j])[:200], model=a, theorem='violated?'))
        if (f['wf'] == '1') != (di and dj) and not (describe(values[i], ctx)[0] == 'bufio' or describe(values[j], ctx)[0] == 'bufio' or _has_bufio(values[i], ctx) or _has_bufio(values[j], ctx)):
            c.count('pair:wf-domain-disagree')
    c.obligation('corr:equiv-decision', nb == 0, 'exploration', '%d pairs: Lean equivB vs Python key; model eq <-> equiv on wf clash-free pairs' % len(pair_idx))
    if nb: c.broken_no_input('corr:equiv-decision', 'Python statement of the identification and the Lean Equiv decision disagree', c.extra.get('pair_mismatch', [{}])[0])

    # documented collisions outside the supported domain: the model predicts them (theorems nameclash_collision / bufio_collision); record that they are real
    P1 = collections.namedtuple('P', 'x y'); P2 = collections.namedtuple('P', 'r phi'); TT = collections.namedtuple('tuple', 'x y')
    fa = io.BytesIO(b'05'); fa.seek(1); fb = io.BytesIO(b'5'); fb.seek(10)
    doc = {'namedtuple-same-name': (P1(1, 2), P2(1, 2)), 'namedtuple-called-tuple': (TT(1, 2), (1, 2)), 'bufio-pos-content': (fa, fb),
           'type-by-name-only': (numpy.bool_, bool), 'hashable_function-vs-tuple': (hf1, ('hashable_function', 'ident-1'))}
    for name, (x, y) in doc.items():
        same_real = real_hash(x) == real_hash(y)
        c.count('documented-limit:%s:%s' % (name, 'collides' if same_real else 'distinct'))
        c.obligation('limit:' + name, True, 'exploration', 'real code %s; outside the supported domain (see notes/C17.md)' % ('collides' if same_real else 'does not collide'))

    # NaN data in a non-native representation (float32, big-endian float64, complex64): the truncation test of arraydata compares with
    # `numpy.equal` (nan != nan) and refuses it, while the native float64 array with the same NaN is accepted.  A refusal, not a wrong
    # hash: recorded as a limit (no verdict); if it is accepted the value must be the canonical one.
    nan_out = {}
    for dt in ('<f4', '>f8' if sys.byteorder == 'little' else '<f8', '<c8'):
        try:
            adn = T.arraydata(numpy.array([float('nan'), 1.0], dtype=dt))
            nan_out[dt] = 'accepted' if adn is T.arraydata(numpy.array([float('nan'), 1.0], dtype=complex if dt.endswith('c8') else float)) else 'accepted-other-object'
        except ValueError:
            nan_out[dt] = 'ValueError'
        except Exception as e:
            nan_out[dt] = 'exc:' + type(e).__name__
        c.count('documented-limit:arraydata-nan-nonnative:%s:%s' % (dt, nan_out[dt]))
    if 'accepted-other-object' in nan_out.values():
        c.failing_input('arraydata-representation-dependent:nan', 'arraydata of NaN data in a non-native representation is accepted but is not the canonical object', dict(outcomes=nan_out))
    c.obligation('limit:arraydata-nan-nonnative', True, 'exploration', 'real code: %r; refusal of NaN in non-native dtypes is outside the hash property (see notes/C17.md)' % nan_out)

    c.log('collision / stability oracle done')
    # ------------------------------------------------------------ stream 3: stability across processes / hash seeds, pickle, routes
    outs = []
    for s, p in zip(seeds, stab_procs):
        o, e = p.communicate(timeout=900)
        if p.returncode != 0:
            raise Infra('stability subprocess failed (seed %s): %s' % (s, e[-1500:]))
        outs.append(o.split('\n')[:-1])
    here = outs[0]      # reference: the first subprocess (all start from the same empty intern tables)
    nb = 0
    for s, o in zip(seeds[1:], outs[1:]):
        if len(o) != len(here): raise Infra('stability subprocess produced %d lines, expected %d' % (len(o), len(here)))
        for idx, (x, y) in enumerate(zip(o, here)):
            if x != y:
                nb += 1
                v = stable_corpus(cseed, ncorp)[idx]
                c.failing_input('unstable-across-processes:' + describe(v, ctx)[0], 'nutils_hash of the same value differs between processes / PYTHONHASHSEED values',
                                dict(value=repr(v)[:400], hashseed=s, here=y, there=x, corpus_seed=cseed, index=idx))
    c.count('stability:values', len(here)); c.count('stability:processes', len(seeds))
    c.obligation('prop:stable-across-hashseeds', nb == 0, 'oracle', '%d values x %d processes' % (len(here), len(seeds)))

    c.log('subprocess stability done')
    # pickle round trip + identity of interned values; routes for real nutils pairs
    nb = 0; npk = 0
    for v, r in zip(values, hashes):
        if not r.startswith('ok') or isinstance(v, io.IOBase) or _uses_alias(v, ctx) or has_nonnative_array(v, ctx):
            continue
        try:
            w = pickle.loads(pickle.dumps(v))
        except Exception:
            c.count('pickle:not-picklable'); continue
        npk += 1
        r2 = real_hash(w)
        try:
            same_value = key(w, ctx) == key(v, ctx)
        except (KeyError, TypeError):
            same_value = False
        if not same_value:
            # pickle itself does not preserve the value: e.g. one NaN object occurring twice comes back as two NaN objects,
            # which a Counter / set / dict no longer merges
            c.count('pickle:value-not-preserved-by-pickle'); continue
        if r2 != r:
            nb += 1
            c.failing_input('pickle-changes-hash:' + describe(v, ctx)[0], 'hash differs after a pickle round trip', dict(value=repr(v)[:400], before=r, after=r2))
        if isinstance(v, (T.Singleton, T.DataClass)) and w is not v and py_eq_faithful(v, ctx):
            nb += 1
            c.failing_input('pickle-breaks-interning:' + type(v).__mro__[1].__name__, 'unpickling an interned value while the original is alive yields another object', dict(value=repr(v)[:400]))
    c.obligation('prop:pickle-roundtrip', nb == 0, 'oracle', '%d values' % npk)
    nb = 0
    for name, x, y in npairs:
        hx_, hy_ = real_hash(x), real_hash(y)
        c.count('nutils-pair:' + name)
        if hx_ != hy_ or not hx_.startswith('ok'):
            nb += 1; c.failing_input('route-dependent-hash:nutils:' + name, 'two constructions of the same nutils value hash differently', dict(pair=name, a=repr(x)[:300], b=repr(y)[:300], ha=hx_, hb=hy_))
        if isinstance(x, (T.Singleton, T.DataClass)) and x is not y:
            nb += 1; c.failing_input('interned-not-identical:nutils:' + name, 'two constructions of the same interned nutils value are different objects', dict(pair=name, a=repr(x)[:300]))
    for name, x, y in ndistinct:
        c.count('nutils-distinct:' + name)
        if real_hash(x) == real_hash(y):
            nb += 1; c.failing_input('collision:nutils:' + name, 'different nutils values share a hash', dict(pair=name, a=repr(x)[:300], b=repr(y)[:300]))
    c.obligation('prop:nutils-values-routes', nb == 0, 'oracle', '%d equal pairs, %d distinct pairs' % (len(npairs), len(ndistinct)))

    # ------------------------------------------------------------ bind correspondence + route independence on real classes
    nb = 0
    for (ps, pos, kw), a in zip(bind_cases, got('bind')):
        out = real_bind(ps, pos, kw)
        c.count('bind:' + out.split('|')[0])
        if out.split('|')[0] != a.split('|')[0] or (out.startswith('ok') and out != a):
            nb += 1; c.extra.setdefault('bind_mismatch', []).append(dict(params=ps, pos=pos, kw=kw, model=a, real=out))
        c.case(('bind', tuple(ps), tuple(pos), tuple(kw)), nontrivial=bool(kw))
    c.obligation('corr:argument-canonicalisation', nb == 0, 'correspondence', '%d generated signatures/calls (inspect.Signature.bind + apply_defaults via argument_canonicalizer)' % len(bind_cases))
    if nb: c.broken_no_input('corr:argument-canonicalisation', 'bind model and argument_canonicalizer disagree', c.extra['bind_mismatch'][0])
    nb = route_stream(c, rng, 150 if quick else 3000)
    c.obligation('prop:kw-vs-positional', nb == 0, 'oracle', 'Immutable / Singleton / DataClass test classes, every split of positional/keyword/defaulted arguments')

    # ------------------------------------------------------------ canonical integer data
    nb = 0
    for (sg, w, items, arr), a in list(zip(canon_cases, got('canon'))) + list(zip(canonbo_cases, got('canonbo'))):
        if a == 'bad-request': raise Infra('driver rejected a canon request: %s %r' % (arr.dtype.str, arr.tolist()))
        ad = None
        try:
            ad = T.arraydata(arr); out = 'ok|' + ad.bytes.hex()
        except ValueError:
            out = 'err|ValueError'
        except Exception as e:
            out = 'exc|' + type(e).__name__
        c.count('canon:' + out.split('|')[0] + ':' + arr.dtype.str)
        c.case(('canon', arr.dtype.str, arr.tobytes()), nontrivial=arr.size > 0)
        if out != a:
            nb += 1
            # oracle: values must survive (exact ints)
            c.extra.setdefault('canon_mismatch', []).append(dict(dtype=arr.dtype.str, values=arr.tolist(), model=a, real=out))
        if ad is not None and ad.dtype is not int:
            nb += 1
            c.failing_input('arraydata-not-canonical-int', 'arraydata of integer data is not stored as native int (collides with / differs from the same integers in another dtype)',
                            dict(dtype=arr.dtype.str, values=arr.tolist(), stored_dtype=repr(ad.dtype)))
        elif out.startswith('ok') and numpy.asarray(ad).tolist() != arr.tolist():
            nb += 1
            c.failing_input('arraydata-changes-values', 'arraydata holds other integers than the array it was built from', dict(dtype=arr.dtype.str, values=arr.tolist(), stored=numpy.asarray(ad).tolist()))
        elif out.startswith('ok'):
            same = T.arraydata(numpy.array(arr.tolist(), dtype='<i8').reshape(arr.shape)) if all(-2**63 <= int(x) < 2**63 for x in arr.reshape(-1).tolist()) else None
            if same is not None and (same is not ad or real_hash(same) != real_hash(ad)):
                c.failing_input('arraydata-width-dependent', 'arraydata of the same integers in another integer width is a different value', dict(dtype=arr.dtype.str, values=arr.tolist()))
                nb += 1
    c.obligation('corr:arraydata-canonical-int', nb == 0, 'correspondence', '%d integer arrays of 8 dtypes incl. uint64 overflow + %d arrays of 14 dtypes of both byte orders (memory-order items, model canonIntsBO)' % (len(canon_cases), len(canonbo_cases)))
    if nb and not any('arraydata' in v[2] for v in c.violations):
        c.broken_no_input('corr:arraydata-canonical-int', 'canonical bytes of arraydata differ from the model', c.extra['canon_mismatch'][0])

    # ------------------------------------------------------------ intern histories
    nb = 0
    for r, a in zip(intern_runs, got('intern')):
        tr = a.split('|')[0].split()
        c.case(('intern', r['cls'], tuple(r['events'])), nontrivial=True)
        c.count('intern:' + r['cls']); c.count('intern:events', len(r['events']))
        if r['identity_failure']:
            nb += 1
            c.failing_input('intern-not-unique:' + r['cls'], 'two live structurally equal values of an interned type are different objects (or a new value aliases a live different one)',
                            dict(cls=r['cls'], events=r['events'], detail=r['identity_failure']))
        elif tr != r['expected_trace']:
            nb += 1
            c.broken_no_input('corr:intern-table', 'identity trace of the intern-table model differs from the harness bookkeeping', dict(cls=r['cls'], events=r['events'], model=tr, harness=r['expected_trace']))
        elif r['leak']:
            nb += 1
            c.broken_no_input('corr:intern-table-weak', 'an interned object survives the loss of its last reference (table not weak)', dict(cls=r['cls'], events=r['events'], detail=r['leak']))
        else:
            c.traces += 1
    c.obligation('corr:intern-table', nb == 0, 'correspondence', '%d histories of construct/del/gc on DataClass, Singleton, arraydata, evaluable' % len(intern_runs))

    # ------------------------------------------------------------ cache.function keys
    nb = 0
    for (fid, a_, k_, real), a in zip(ckey_cases, got('ckey')):
        c.count('ckey')
        if real != a:
            nb += 1; c.extra.setdefault('ckey_mismatch', []).append(dict(funcid=fid.decode(), args=repr(a_)[:200], kwargs=repr(k_)[:200], model=a, real=real))
    c.obligation('corr:cache.function-key', nb == 0, 'correspondence', '%d calls (file name of the cache entry)' % len(ckey_cases))
    if nb: c.broken_no_input('corr:cache.function-key', 'cache file name differs from the model key', c.extra['ckey_mismatch'][0])

    # ------------------------------------------------------------ canonical keyword tuple (sorted kwargs) of Immutable / Singleton
    nb = 0
    for (cls, order, bound), a in zip(kwcanon_cases, got('kwcanon')):
        if a == 'bad-request': raise Infra('driver rejected a kwcanon request: %r' % (bound,))
        try:
            o = cls(**dict(order)); real = 'ok|' + ' '.join('x%s=%d' % (n.encode().hex(), v) for n, v in o._args[-1])
            if len(o._args) != 1: real = 'args|' + repr(o._args)[:200]
        except Exception as e:
            real = 'exc|' + type(e).__name__
        c.case(('kwcanon', cls.__name__, tuple(order)), nontrivial=len(order) >= 2); c.count('kwcanon:n=%d' % min(len(order), 6))
        if real != a:
            nb += 1; c.extra.setdefault('kwcanon_mismatch', []).append(dict(cls=cls.__name__, keywords=repr(order), model=a, real=real))
            # specification oracle: the same assignment written in sorted keyword order must be the same value
            try:
                o2 = cls(**dict(sorted(order)))
                if not (o == o2 and real_hash(o) == real_hash(o2)) or (cls is SingOpts and o is not o2):
                    c.failing_input('route-dependent:' + cls.__mro__[1].__name__, 'the same keyword arguments in another order give a different value / hash / object',
                                    dict(cls='class %s: def __init__(self, *rest, k0=1, **opts)' % cls.__name__, keywords=repr(order), sorted_keywords=repr(sorted(order)), args=repr(o._args)[:300], args_sorted=repr(o2._args)[:300]))
            except Exception:
                pass
        else:
            c.traces += 1
    c.obligation('corr:kwargs-canonicalisation', nb == 0, 'correspondence', '%d calls with up to 9 keywords (keyword-only + **kwargs, unicode names) vs model kwCanon' % len(kwcanon_cases))
    if nb and not any(v[2].startswith('route-dependent') for v in c.violations):
        c.broken_no_input('corr:kwargs-canonicalisation', 'canonical keyword tuple of Immutable differs from the model (sorted by name)', c.extra['kwcanon_mismatch'][0])

    # ------------------------------------------------------------ systematic grids (specification oracles on the real code, see c17_grid.py)
    nb = G.arraydata_grid(c, rng, 16 if quick else 150, evaluable)
    c.obligation('prop:arraydata-representation-independent', nb == 0, 'oracle',
                 'every b/i/u/f/c dtype x both byte orders x memory layouts x adversarial values (+ byte-reversed siblings): native encoding of the exact values, identity with the canonical construction, no shared identity/hash between different data')
    nb = G.signature_grid(c, rng, 140 if quick else 279, 3 if quick else 12, 10 if quick else 16)
    c.obligation('prop:spelling-independent-construction', nb == 0, 'oracle',
                 'generated Immutable/Singleton signatures (positional-or-keyword, defaults, *args, keyword-only, **kwargs): every spelling of one assignment (split, omitted defaults, permuted keywords) is one value/object, also after pickling; different assignments differ')
    nb = G.cache_kwargs_routes(c, rng, 16 if quick else 300, scratch_dir())
    c.obligation('prop:cache-key-keyword-order', nb == 0, 'oracle', 'cache.function with keyword-only and **kwargs parameters: permuted keywords hit one entry, other assignments another')
    c.log('grids done')

    # ------------------------------------------------------------ interning key vs hash identification (construction-history dependence)
    intern_key_stream(c, order_procs)

    for b in broken:
        c.broken_no_input('proof', b, dict(detail=b))


def _walk(v, ctx):
    """all Python sub-objects of a value as seen by `describe`"""
    yield v
    ctor, atoms, kids, _ = describe(v, ctx)
    for k in kids:
        if _is_item(k, 'pair'):
            yield from _walk(k[1], ctx); yield from _walk(k[2], ctx)
        elif _is_item(k, 'counted'):
            yield from _walk(k[2], ctx)
        elif ctor == 'dataclass':
            yield from _walk(k[1], ctx)
        elif ctor == 'npscalar':
            pass
        else:
            yield from _walk(k, ctx)


def _uses_alias(v, ctx):
    return any(id(o) in ctx.special for o in _walk(v, ctx))


def has_nonnative_array(v, ctx):
    # NumPy itself converts non-native byte order to native when unpickling: such arrays change dtype (hence hash) in a round trip
    return any(type(o) is numpy.ndarray and o.dtype.byteorder == '>' for o in _walk(v, ctx))


def py_eq_faithful(v, ctx):
    """Python equality of the construction arguments coincides with the hash identification: no NaN (nan != nan) and no
    bound methods of non-interned objects (compared by identity of __self__) anywhere inside"""
    for o in _walk(v, ctx):
        if isinstance(o, (float, numpy.floating)) and o != o: return False
        if isinstance(o, (complex, numpy.complexfloating)) and o != o: return False
        if type(o) is pytypes.MethodType: return False
    return True


def _has_bufio(v, ctx):
    ctor, atoms, kids, _ = describe(v, ctx)
    if ctor == 'bufio': return True
    for k in kids:
        if type(k) is _Item:
            if _has_bufio(k[2], ctx) or (k[0] == 'pair' and _has_bufio(k[1], ctx)): return True
        elif ctor == 'dataclass':
            if _has_bufio(k[1], ctx): return True
        elif _has_bufio(k, ctx): return True
    return False


def _real_constname(evaluable, v):
    cls = getattr(evaluable, '_BlockTreeBuilder', None)
    if cls is None: raise Infra('evaluable._BlockTreeBuilder not found')
    b = cls.__new__(cls)
    b._globals = {}
    return b.add_constant(v).py_expr


# ---------------------------------------------------------------- bind

def gen_bind_cases(rng, n):
    cases = []
    names = ['a', 'b', 'c', 'd', 'e']
    for _ in range(n):
        k = rng.randint(0, 4)
        ps = []
        seen_default = False
        for i in range(k):
            d = rng.randint(10, 19) if (seen_default or rng.random() < .4) else None
            seen_default |= d is not None
            ps.append((names[i], d))
        vals = [rng.randint(0, 9) for _ in range(k)]
        npos = rng.randint(0, k)
        pos = vals[:npos]
        kw = []
        for i in range(npos, k):
            if ps[i][1] is None or rng.random() < .6:
                kw.append((names[i], vals[i]))
        rng.shuffle(kw)
        r = rng.random()
        if r < .1: pos = pos + [rng.randint(0, 9)]                      # too many
        elif r < .2 and npos: kw.append((names[rng.randrange(npos)], 5))   # multiple values
        elif r < .3: kw.append(('zz', 1))                               # unexpected
        elif r < .4 and kw: kw.pop()                                    # possibly missing
        cases.append((ps, pos, kw))
    return cases


def real_bind(ps, pos, kw):
    params = [inspect.Parameter(n, inspect.Parameter.POSITIONAL_OR_KEYWORD, default=inspect.Parameter.empty if d is None else d) for n, d in ps]
    canon = T.argument_canonicalizer(inspect.Signature(params))
    try:
        args, kwargs = canon(*pos, **dict(kw))
    except TypeError:
        return 'err|TypeError'
    if kwargs: return 'kwargs|' + repr(kwargs)
    return 'ok|' + ' '.join(map(str, args))


def route_stream(c, rng, n):
    nb = 0
    for _ in range(n):
        cls = rng.choice([ImmA, ImmV1, SingA, DcA, DcB, DcSub])
        names = list(inspect.signature(cls).parameters)
        defaults = {p.name: p.default for p in inspect.signature(cls).parameters.values() if p.default is not inspect.Parameter.empty}
        vals = {nm: (defaults[nm] if nm in defaults and rng.random() < .4 else gen_hashable(rng, 1)) for nm in names}
        ref = cls(*[vals[nm] for nm in names])
        npos = rng.randint(0, len(names))
        kws = [nm for nm in names[npos:] if not (nm in defaults and vals[nm] is defaults[nm] and rng.random() < .7)]
        rng.shuffle(kws)
        try:
            alt = cls(*[vals[nm] for nm in names[:npos]], **{nm: vals[nm] for nm in kws})
        except Exception as e:
            nb += 1; c.failing_input('route-rejected:' + cls.__name__, 'equivalent keyword/positional call is rejected: %r' % e, dict(cls=cls.__name__, values=repr(vals), npos=npos, kws=kws)); continue
        c.case(('route', cls.__name__, npos, tuple(kws)), nontrivial=bool(kws)); c.count('route:' + cls.__mro__[1].__name__)
        h1, h2 = real_hash(ref), real_hash(alt)
        bad = h1 != h2 or not h1.startswith('ok')
        if isinstance(ref, T.Immutable): bad |= not (ref == alt and hash(ref) == hash(alt) and ref._args == alt._args)
        if isinstance(ref, (T.Singleton, T.DataClass)): bad |= ref is not alt
        if bad:
            nb += 1
            c.failing_input('route-dependent:' + cls.__mro__[1].__name__, 'keyword vs positional construction gives a different value / hash / object',
                            dict(cls=cls.__name__, values=repr(vals)[:300], npos=npos, kws=kws, h1=h1, h2=h2))
    return nb


# ---------------------------------------------------------------- canonical ints

def mem_order(arr):
    """'>' if the items of `arr` are stored most significant byte first"""
    bo = arr.dtype.byteorder
    return '>' if bo == '>' or (bo == '=' and sys.byteorder == 'big') else '<'


def gen_canon_cases(rng, n, byteorders='<'):
    cases = []
    dts = ['|i1', '<i2', '<i4', '<i8', '|u1', '<u2', '<u4', '<u8']
    if '>' in byteorders: dts += [d.replace('<', '>') for d in dts if d[0] == '<']
    for _ in range(n):
        dt = rng.choice(dts)
        info = numpy.iinfo(dt)
        k = rng.choice([0, 1, 2, 3, 5])
        pool = [0, 1, info.min, info.max, info.max // 2 + 1, rng.randint(info.min, info.max), rng.randint(-3, 3) if info.min < 0 else rng.randint(0, 3)]
        if len(byteorders) > 1: pool += G.int_pool(rng, numpy.dtype(dt).kind, numpy.dtype(dt).itemsize)     # byte-asymmetric patterns and their byte-reversed siblings
        vals = [rng.choice(pool) for _ in range(k)]
        arr = numpy.array(vals, dtype=dt)
        if k >= 2 and rng.random() < .3: arr = arr.reshape(1, k)
        w = arr.dtype.itemsize
        items = [arr.reshape(-1)[i:i + 1].tobytes() for i in range(arr.size)]     # memory order of each item
        cases.append(('s' if arr.dtype.kind == 'i' else 'u', w, items, arr))
    return cases


# ---------------------------------------------------------------- canonical keyword tuple

KW_NAMES = list(dict.fromkeys(G.EXTRA_NAMES + ['aa', 'ab', 'ba', 'B', 'Z', 'z9', 'k', 'k1', 'k_', '\u00e4', '\u00df', '\uff5a', '\U0001d465', '\u65e5\u672c', 'x' * 40]))


def gen_kwcanon_cases(rng, n):
    """(class, keywords in the caller's order, items as `BoundArguments.kwargs` lists them: keyword-only parameter first, then the collected ones in the caller's order)"""
    cases = []
    for _ in range(n):
        cls = rng.choice([ImmOpts, SingOpts])
        names = rng.sample(KW_NAMES, rng.choice([0, 1, 2, 2, 3, 3, 4, 5, 6, 8]))
        order = [(nm, rng.randint(2, 99)) for nm in names]
        if rng.random() < .5: order.insert(rng.randrange(len(order) + 1), ('k0', rng.randint(2, 99)))
        k0 = dict(order).get('k0', 1)
        bound = [('k0', k0)] + [(nm, v) for nm, v in order if nm != 'k0']
        cases.append((cls, order, bound))
    return cases


# ---------------------------------------------------------------- intern histories

def run_intern_history(rng, kind, nev):
    """drives the real class with construct / del / gc events and keeps the bookkeeping the model is compared with.
    model events: `c<k>` construct value with key k (kept alive in a slot), `d<i>` object i loses its last slot."""
    from nutils import evaluable
    keys = list(range(5))
    if kind == 'dc':
        make = lambda k: DcA(('intern-test', k), (k, 'x'))
    elif kind == 'sing':
        make = lambda k: SingA(a=('intern-test', k))
    elif kind == 'arraydata':
        make = lambda k: T.arraydata(numpy.arange(k + 1, dtype=rng.choice(['<i4', '<i8', '<u4'])) + 123456)
    else:
        base = evaluable.Argument('intern-test', (evaluable.constant(2),), float)
        make = lambda k: evaluable.add(evaluable.multiply(base, evaluable.constant(float(k))), base) if k % 2 else evaluable.Sinc(base, k)
    slots = {}            # slot -> (obj, model id)
    events = []; expected = []
    wref = {}             # model id -> weakref
    nextid = 0
    live_key = {}         # key -> model id (harness bookkeeping = specification of the table)
    failure = None; leak = None
    for _ in range(nev):
        r = rng.random()
        if r < .6 or not slots:
            k = rng.choice(keys); s = rng.randrange(6)
            # a slot being overwritten first loses its object
            if s in slots:
                mid = slots.pop(s)[1]
                if not any(m2 == mid for o2, m2 in slots.values()):
                    gc.collect()
                    events.append('d%d' % mid); expected.append('-')
                    live_key = {kk: m for kk, m in live_key.items() if m != mid}
                    if wref[mid]() is not None and leak is None: leak = 'object %d still alive after its last reference was dropped' % mid
            obj = make(k)
            if k in live_key:
                mid = live_key[k]
                if wref[mid]() is not obj and failure is None:
                    failure = 'construct key %d: expected the live object %d, got another object' % (k, mid)
            else:
                mid = nextid; nextid += 1; live_key[k] = mid
                for o2, m2 in slots.values():
                    if o2 is obj and failure is None: failure = 'construct key %d: new value is the live object %d of another key' % (k, m2)
                o2 = None
                wref[mid] = weakref.ref(obj)
            events.append('c%d' % k); expected.append(str(mid))
            slots[s] = (obj, mid)
            del obj
        elif r < .9:
            s = rng.choice(list(slots)); mid = slots.pop(s)[1]
            if not any(m2 == mid for o2, m2 in slots.values()):
                gc.collect()
                events.append('d%d' % mid); expected.append('-')
                live_key = {kk: m for kk, m in live_key.items() if m != mid}
                if wref[mid]() is not None and leak is None: leak = 'object %d still alive after its last reference was dropped' % mid
        else:
            gc.collect()
    slots.clear(); gc.collect()
    return dict(cls=kind, events=events, expected_trace=expected, identity_failure=failure, leak=leak)


# ---------------------------------------------------------------- cache.function keys

def gen_ckey_cases(rng, ctx, n):
    from nutils import cache as ncache
    import pathlib
    d = os.path.join(scratch_dir(), 'c17cache'); os.makedirs(d, exist_ok=True)
    cases = []

    @ncache.function
    def f0(a, b=2, *, k=None, l=1):
        return 0

    @ncache.function(version=3)
    def f3(a, b=2, *, k=None, l=1):
        return 0

    for _ in range(n):
        f, ver = rng.choice([(f0, 0), (f3, 3)])
        a = gen_hashable(rng, 2); b = gen_hashable(rng, 1)
        kw = {}
        if rng.random() < .5: kw['k'] = gen_hashable(rng, 1)
        if rng.random() < .5: kw['l'] = gen_hashable(rng, 1)
        route = rng.choice(['pos', 'kw', 'default'])
        sub = os.path.join(d, '%d' % len(cases)); os.makedirs(sub)
        with ncache.caching(cache=True, cachedir=sub) if _caching_is_ctx(ncache) else _enable_cache(ncache, sub):
            try:
                if route == 'pos': f(a, b, **kw)
                elif route == 'kw': f(b=b, a=a, **kw)
                else: f(a, **kw); b = 2
                err = None
            except Exception as e:
                err = 'exc|%s' % type(e).__name__
        files = [x for x in os.listdir(sub) if not x.startswith('.')]
        real = err or (files[0] if len(files) == 1 else 'files:%r' % files)
        fid = ('%s.%s:%d' % (f.__module__, f.__qualname__, ver)).encode()
        kwfull = dict(k=kw.get('k', None), l=kw.get('l', 1))
        cases.append((fid, [a, b], kwfull, real))
    return cases


def _caching_is_ctx(ncache):
    return True


def _enable_cache(ncache, sub):
    raise Infra('cache.caching is not a context manager')


# ---------------------------------------------------------------- interning key (Python ==) vs hash identification

def intern_key_stream(c, order_procs):
    """Values that are == as dictionary keys (1 == 1.0 == True, 0.0 == -0.0) are conflated by the intern tables although
    nutils_hash distinguishes them: the hash of `C(1)` then depends on which ==-equal instance happens to be alive."""
    res = {}
    for first, p in order_procs.items():
        try:
            o, e = p.communicate(timeout=600)
        except subprocess.TimeoutExpired:
            raise Infra('intern-order subprocess timed out')
        if p.returncode != 0:
            raise Infra('intern-order subprocess failed: ' + e[-1500:])
        res[first] = o.split()
    base = res['none']
    dep = {k: v for k, v in res.items() if v != base}
    # the other direction: arguments that are hash-identical but not == (NaN objects) are not interned together
    n1, n2 = float('nan'), float('nan')
    d1, d2 = DcA(('nan-test', n1)), DcA(('nan-test', n2))
    nan_split = d1 is not d2 and real_hash(d1) == real_hash(d2)
    c.count('intern-key:nan-split' if nan_split else 'intern-key:nan-shared')
    res['nan'] = ['DcA((.., nan)) is DcA((.., nan)) with two NaN objects: %s; equal hashes: %s' % (d1 is d2, real_hash(d1) == real_hash(d2))]
    c.count('intern-key:history-dependent' if dep else 'intern-key:history-independent')
    known = c.match_known('intern-key-python-equality') is not None
    c.obligation('prop:hash-independent-of-construction-history', (not dep) or known, 'oracle',
                 'evaluable.Sinc(arg, 1) and a DataClass C(1), built after C(1.0) / C(True) or alone, in separate processes'
                 + (' [history dependence observed: exactly the open known finding intern-key-python-equality, reported as KNOWN-FINDING]' if dep and known else ''))
    # every open entry of known_findings.json for C17 is re-run from its recorded minimal input (above: `D(1)` built after
    # `D(1.0)` / `D(True)` resp. alone, each in a fresh process) and reported; silent once it no longer reproduces
    for entry in c.findings:
        if entry.get('status') != 'open': continue
        if entry.get('signature') == 'intern-key-python-equality':
            c.report_known_still_failing(entry, bool(dep))
        else:
            c.log('note: open known finding %r has no recorded input in nvh/c17.py (not re-run)' % entry.get('id'))
            c.count('known_finding_without_recorded_input')
    if dep:
        c.failing_input('intern-key-python-equality',
                        'interned types key their table on Python == of the arguments (1 == 1.0 == True): the object and nutils hash obtained from `C(1)` depend on whether an ==-equal instance of another type is alive',
                        dict(outputs=res, minimal="class D(types.DataClass): a: object;  x = D(1.0); nutils_hash(D(1)) == nutils_hash(D(1.0)) != nutils_hash(D(1)) in a fresh process",
                             nutils_instance='evaluable.Sinc(arg, 1) built after evaluable.Sinc(arg, True) is the bool instance (n=True, hash of the bool variant); same for evaluable.Transpose(f, (1, 0)) after (True, False), IdentifierDerivativeTarget(1, ()) after (1.0, ())'))
