"""C18 — disk memoisation is transparent and crash-tolerant.

Ties (see notes/C18.md):
 (X) the `except` tuples guarding `pickle.load` are extracted from src/nutils/cache.py on every run into
     lean/NutilsVerif/Generated/C18.lean; `Props/C18.lean` proves they contain every class a truncated pickle raises.
 (M) the REAL `cache.function` decorator and REAL `cache.Recursion` subclasses are driven with generated histories
     (complete calls, processes really killed after k bytes of the dump, transient exceptions, partial iterations) and
     compared event by event (outcome, executions of the wrapped function, replayed log, exact file bytes, `resume`
     arguments) with the Lean model (`Drivers/C18.lean`), about which `Props/C18.lean` proves the unbounded statements.
 (H) the pickle hypotheses H0-H3 of the theorems are validated by fault enumeration on the real pickle: EVERY
     truncation point of realistic payloads x protocols must raise a class of the caught tuple (read from the source).
The specification oracle for failing inputs is the uncached call / uncached iteration (`cache.disable()`), and
"at most one process inside the wrapped function" for the concurrency streams.
"""
import os, sys, io, ast, pickle, hashlib, itertools, signal, time, builtins, collections, contextlib, shutil, subprocess, select, resource
import numpy, treelog
from .common import Infra, scratch_dir
from nutils import cache, types

Level = treelog.proto.Level
ERRMAP = {'EOFError': 'eof', 'UnpicklingError': 'unpickling', 'IndexError': 'index'}

# =============================================================================================== source extraction (X)


def _handler_names(h):
    if h.type is None:
        return ['BaseException']
    elts = h.type.elts if isinstance(h.type, ast.Tuple) else [h.type]
    return [e.attr if isinstance(e, ast.Attribute) else e.id if isinstance(e, ast.Name) else ast.dump(e) for e in elts]


def extract_caught(src):
    """names of the exception classes that guard `pickle.load` in cache.function (wrapper) and Recursion.__iter__"""
    tree = ast.parse(src)
    out = {}
    for fn in ast.walk(tree):
        if isinstance(fn, ast.FunctionDef) and fn.name in ('wrapper', '__iter__'):
            for node in ast.walk(fn):
                if isinstance(node, ast.Try) and any(isinstance(n, ast.Call) and getattr(n.func, 'attr', None) == 'load' for s in node.body for n in ast.walk(s)):
                    out.setdefault('fn' if fn.name == 'wrapper' else 'rec', []).extend(n for h in node.handlers for n in _handler_names(h))
    return out


def resolve_classes(names):
    res = []
    for n in names:
        k = getattr(pickle, n, None) or getattr(builtins, n, None)
        if isinstance(k, type) and issubclass(k, BaseException):
            res.append(k)
    return tuple(res)


def lean_caught(names):
    allc = any(n in ('Exception', 'BaseException') for n in names)
    errs = [ERRMAP[n] for n in names if n in ERRMAP]
    if any(n in ('PickleError',) for n in names): errs.append('unpickling')
    return allc, list(dict.fromkeys(errs))


def model_caught(names):
    allc, errs = lean_caught(names)
    return 'eof unpickling index other' if allc else ' '.join(errs)


def generated_lean(names, lines):
    def one(tag, ns):
        allc, errs = lean_caught(ns)
        return ('/-- `except` classes around `pickle.load` in %s: %s -/\n' % (tag, ', '.join(ns)) +
                'def caught%s : List LoadErr := [%s]\n' % (tag, ', '.join('.' + e for e in errs)) +
                '/-- a catch-all (`Exception`/`BaseException`/bare except) is listed -/\n'
                'def caught%sAll : Bool := %s\n' % (tag, 'true' if allc else 'false'))
    return ('import NutilsVerif.Model.C18\n/-! generated from src/nutils/cache.py by harness/nvh/c18.py on every run -- do not edit -/\n'
            'namespace NutilsVerif.C18.Gen\nopen NutilsVerif.C18\n\n' + one('Fn', names.get('fn', [])) + '\n' + one('Rec', names.get('rec', [])) +
            '\nend NutilsVerif.C18.Gen\n')


# =============================================================================================== canonical forms, logging

def canon(v):
    if isinstance(v, numpy.ndarray):
        w = numpy.ascontiguousarray(v).astype(v.dtype.newbyteorder('='))  # numpy's pickle may normalise the byte order of non-contiguous arrays
        return ('nd', w.dtype.str, w.shape, w.tobytes())
    if isinstance(v, (numpy.generic,)):
        return ('ng', v.dtype.str, v.tobytes())
    if isinstance(v, float):
        return ('f', v.hex())
    if isinstance(v, complex):
        return ('c', v.real.hex(), v.imag.hex())
    if isinstance(v, (bool, int, str, bytes, type(None))):
        return (type(v).__name__, v)
    if isinstance(v, bytearray):
        return ('bytearray', bytes(v))
    if isinstance(v, (tuple, list)):
        return (type(v).__name__,) + tuple(canon(x) for x in v)
    if isinstance(v, (set, frozenset)):
        return (type(v).__name__,) + tuple(sorted((canon(x) for x in v), key=repr))
    if isinstance(v, (dict, types.frozendict)):
        return (type(v).__name__,) + tuple(sorted(((canon(k), canon(x)) for k, x in v.items()), key=repr))
    if isinstance(v, BaseException):
        return ('exc', type(v).__name__, canon(v.args))
    if isinstance(v, treelog.RecordLog):
        return ('RecordLog', canon(v._messages))
    if isinstance(v, treelog.proto.Data):
        return ('Data', v.name, v.data, v.type)
    if isinstance(v, Level):
        return ('Level', v.name)
    if isinstance(v, types.arraydata):
        return ('arraydata', v.dtype.__name__ if isinstance(v.dtype, type) else str(v.dtype), v.shape, v.bytes)
    if isinstance(v, types.Immutable):
        return ('imm', type(v).__qualname__, canon(v._args))
    if isinstance(v, types.frozenmultiset):
        return ('frozenmultiset',) + tuple(sorted((canon(x) for x in v), key=repr))
    from nutils import topology, function
    if isinstance(v, topology.Topology):
        return ('topo', type(v).__qualname__, len(v), v.ndims, tuple(v.spaces), tuple(str(r) for r in v.references), tuple(repr(t) for t in v.transforms))
    if isinstance(v, function.Array):
        return ('function.Array', tuple(v.shape), str(v.dtype), repr(v))
    if v is Ellipsis:
        return ('Ellipsis',)
    if type(v).__name__ == 'attributes':
        return ('attributes', canon(dict(v.__dict__)))
    return ('opaque', type(v).__qualname__, repr(v))


class Recorder:
    """treelog logger: user-visible messages with their context path; `[cache.*]` debug lines kept apart as a trace"""

    def __init__(self):
        self.events, self.ctx, self.trace = [], [], []

    def pushcontext(self, title): self.ctx.append(title)
    def popcontext(self): self.ctx.pop()
    def recontext(self, title): self.ctx[-1] = title

    def write(self, msg, level):
        if level == Level.debug and isinstance(msg, str) and msg.startswith('[cache.'):
            self.trace.append(msg.split('] ', 1)[1])
        else:
            self.events.append((tuple(self.ctx), canon(msg), level.name))


class Transient(BaseException):
    'environment-injected exception (KeyboardInterrupt-like)'


class Imm(types.Immutable):
    def __init__(self, a, b):
        self.a, self.b = a, b


# =============================================================================================== payloads + wrapped functions

KINDS = ['small', 'none', 'scalars', 'nested', 'arrays', 'nutypes', 'exception', 'sets', 'deep', 'bigarray', 'topo', 'manylogs']
SMALL_KINDS = ['small', 'none', 'scalars', 'nested', 'arrays', 'nutypes', 'exception', 'deep', 'manylogs']


def payload(kind, seed):
    r = numpy.random.RandomState(seed * 7919 + sum(map(ord, kind)))
    if kind == 'small': return ('spam', seed)
    if kind == 'none': return None
    if kind == 'scalars': return (2**70 + seed, -seed, float('nan'), float('inf'), -0.0, 1e-300, 'é€\U0001f600' * (1 + seed % 3), b'\x00\xff' * (seed % 5), bytearray(b'ab'), True, None, 3+4j, Ellipsis)
    if kind == 'nested': return {'a': [1, (2, [3, {'b': (seed,)}])], seed: {'k' * (1 + seed % 40): [[]] * 3}, (1, 2): 'x' * (seed % 300)}
    if kind == 'arrays': return (r.randint(-5, 5, size=(2, 3)).astype(float), r.randint(0, 2, size=4).astype(bool), numpy.arange(seed % 7), numpy.zeros((0, 3)),
                                 numpy.array(1.5), (r.randint(0, 9, 3) + 1j * r.randint(0, 9, 3)), numpy.arange(6, dtype='>i2').reshape(3, 2).T, numpy.float32(seed))
    if kind == 'nutypes': return (types.frozendict({'a': seed, 'b': (1, 2)}), types.arraydata(r.randint(0, 9, size=(2, 2))), Imm(seed, (1, 'x')), types.frozenmultiset([1, 1, seed]), types.frozenarray(numpy.arange(3.)))
    if kind == 'exception': return (ValueError('bad %d' % seed), KeyError(seed), RuntimeError())
    if kind == 'sets': return (frozenset('abc'[: 1 + seed % 3]), {1, 2, seed}, frozenset(['alpha', 'be', 'gamma' * 2, str(seed)]))
    if kind == 'deep':
        v = seed
        for i in range(40): v = (v,) if i % 2 else [v]
        return v
    if kind == 'bigarray': return r.randint(0, 255, size=1100 + seed % 50).astype(float)   # more than one 8 KiB buffer block of BufferedRandom: a SIGKILL leaves a partial write
    if kind == 'manylogs': return [seed] * 3
    if kind == 'topo':
        from nutils import mesh
        topo, geom = mesh.rectilinear([2 + seed % 2, 2])
        return (topo, geom, topo.boundary['left'])
    raise ValueError(kind)


def emit_logs(kind, seed):
    treelog.info('computing', kind, seed)
    with treelog.context('inner %d' % seed):
        treelog.user('x=%d' % seed)
        with treelog.context('deeper'):
            treelog.warning('wé')
    if kind == 'manylogs':
        for i in treelog.iter.fraction('loop', range(30)):
            treelog.info('step', i)
            treelog.infodata('d%d.bin' % i, bytes(range(i)))
    if seed % 2:
        treelog.error('odd seed')


STATE = dict(transient=False, calls=0, inner_cache=[], gate=None, raise_det=False)


@cache.function
def inner_cached(x):
    return x + 1


def _body(kind, seed):
    STATE['calls'] += 1
    STATE['inner_cache'].append(cache.caching.current)
    emit_logs(kind, seed)
    inner_cached(seed)  # must run uncached inside (cache is disabled while computing)
    if STATE['gate']: STATE['gate'](kind, seed)
    if STATE['transient']:
        raise Transient()
    if kind == 'raise':
        raise ValueError('deterministic failure %d' % seed)
    return payload(kind, seed)


@cache.function
def fpay(kind, seed=0, *, opt=1):
    return _body(kind, seed)


@cache.function(version=3)
def fpos(a, b=5, *args, c=7, **kw):
    STATE['calls'] += 1
    treelog.info('fpos', a, b, args, c, sorted(kw))
    return (a, b, args, c, tuple(sorted(kw.items())))


def make_versioned(version, offset):
    def versioned(x):
        STATE['calls'] += 1
        return x + offset
    return cache.function(version=version)(versioned)


V0, V1 = make_versioned(0, 0), make_versioned(1, 100)


@cache.function
def other_name(kind, seed=0, *, opt=1):
    STATE['calls'] += 1
    return ('other', kind, seed)


def expected_key(func, version, args, kwargs):
    """independent recomputation of the cache file name (nutils_hash is trusted here: property C17)"""
    raw = getattr(func, '__wrapped__', func)
    h = hashlib.sha1(hashlib.sha1('{}.{}:{}'.format(raw.__module__, raw.__qualname__, version).encode()).digest())
    for a in args: h.update(types.nutils_hash(a))
    for hkv in sorted(hashlib.sha1(k.encode()).digest() + types.nutils_hash(v) for k, v in kwargs.items()): h.update(hkv)
    return h.hexdigest()


def uncached(kind, seed):
    """specification oracle: the call with caching disabled -> (outcome, log events)"""
    rec = Recorder()
    with treelog.set(rec), cache.disable():
        try:
            out = ('ret', canon(fpay(kind, seed)))
        except Exception as e:
            out = ('exc', type(e).__name__, str(e))
    return out, rec.events


def real_call(cachedir, kind, seed, func=None, args=None, kwargs=None):
    """one REAL call under cache.enable -> (outcome, executions of the wrapped function, log events, cache trace)"""
    rec = Recorder()
    n0 = STATE['calls']
    STATE['inner_cache'] = []
    with treelog.set(rec), cache.enable(cachedir):
        try:
            v = func(*args, **(kwargs or {})) if func else fpay(kind, seed)
            out = ('ret', canon(v))
        except Transient:
            out = ('intr',)
        except Exception as e:
            out = ('exc', type(e).__name__, str(e))
    return out, STATE['calls'] - n0, rec.events, rec.trace


class Killed(BaseException):
    'in-process stand-in for the death of the process inside pickle.dump'


class KillPickle:
    """stand-in for the `pickle` module: `dump` writes the first k bytes and the process dies (`die`: os._exit in a forked
    child; otherwise the BaseException `Killed` unwinds the call, which closes the file exactly like the kernel would)"""

    def __init__(self, k, only=None, die=True):
        self.k, self.only, self.die = k, only, die

    def __getattr__(self, name):
        return getattr(pickle, name)

    def dump(self, obj, f, *a, **kw):
        if self.only is not None and not f.name.endswith(self.only):
            return pickle.dump(obj, f, *a, **kw)
        data = pickle.dumps(obj, *a, **kw)
        f.write(data[:self.k])
        f.flush()
        if self.die:
            os._exit(17)
        raise Killed()


def forked(fn):
    """run fn() in a forked child that never returns into the harness; exit code 0 = fn returned, 4 = raised, 17 = killed in dump"""
    sys.stdout.flush(); sys.stderr.flush()
    pid = os.fork()
    if pid == 0:
        code = 3
        try:
            fn(); code = 0
        except BaseException:
            code = 4
        finally:
            os._exit(code)
    _, status = os.waitpid(pid, 0)
    return os.waitstatus_to_exitcode(status)


def killed_call(cachedir, kind, seed, k, fork):
    """the call dies after k bytes of its dump: really (forked child, os._exit) or in-process (exception at that point)"""
    def child():
        cache.pickle = KillPickle(k)
        with treelog.set(Recorder()), cache.enable(cachedir):
            fpay(kind, seed)
    if fork:
        return forked(child)
    cache.pickle = KillPickle(k, die=False)
    try:
        with treelog.set(Recorder()), cache.enable(cachedir):
            fpay(kind, seed)
        return 0
    except Killed:
        return 17
    except BaseException:
        return 4
    finally:
        cache.pickle = pickle


def set_mem_limit(gb):
    """soft address-space limit: unpickling garbage can ask for absurd allocations (a corrupted length field); with the limit
    that is a MemoryError inside the call instead of a machine-wide problem.  Lifted while the Lean driver runs."""
    soft, hard = resource.getrlimit(resource.RLIMIT_AS)
    resource.setrlimit(resource.RLIMIT_AS, (hard if gb is None else int(gb * 2**30), hard))


def guarded(fn, seconds=120, gb=4):
    """run fn() in a forked child with an address-space and time limit; returns its (picklable) result or ('guard', reason)"""
    r, w = os.pipe()
    sys.stdout.flush(); sys.stderr.flush()
    pid = os.fork()
    if pid == 0:
        code = 3
        try:
            os.close(r)
            set_mem_limit(gb)
            signal.alarm(seconds)
            data = pickle.dumps(fn())
            with os.fdopen(w, 'wb') as f: f.write(data)
            code = 0
        finally:
            os._exit(code)
    os.close(w)
    with os.fdopen(r, 'rb') as f: data = f.read()
    _, status = os.waitpid(pid, 0)
    rc = os.waitstatus_to_exitcode(status)
    if rc != 0 or not data:
        return ('guard', 'child exit %s' % rc)
    return pickle.loads(data)


def bytes_s(b):
    return ' '.join(map(str, b))


def file_show(b):
    """same rendering as `showFile` in the driver: long files by length and polynomial hash"""
    if len(b) <= 3000: return bytes_s(b)
    h = 0
    for x in b: h = (h * 257 + x + 1) % 1000000007
    return '#%d:%d' % (len(b), h)


def read(path):
    try:
        with open(path, 'rb') as f: return f.read()
    except FileNotFoundError:
        return b''


def write(path, data):
    with open(path, 'wb') as f: f.write(data)


class Ctx:
    """per-run state shared by the streams"""

    def __init__(self, c):
        self.c = c
        self.root = os.path.join(scratch_dir(), 'c18')
        shutil.rmtree(self.root, ignore_errors=True)
        os.makedirs(self.root)
        self.n = 0
        self.ref = {}
        self.forks = 0
        # calibrate: forks and file operations are 10-100x slower when the machine is loaded (several builders share it)
        t = time.time(); forked(lambda: None); forked(lambda: None); self.fork_cost = (time.time() - t) / 2
        self.max_forks = int(min(150 if c.tier == 'quick' else 6000, (8 if c.tier == 'quick' else 240) / max(self.fork_cost, 1e-3)))
        c.extra['fork_cost_s'] = round(self.fork_cost, 4); c.extra['max_forks'] = self.max_forks

    BUDGET = {  # seconds per stream: (quick, thorough); wall time is bounded whatever the load of the machine, the
        # number of cases done within the budget is reported (`budget-cut:*` counters say where a loop was cut short)
        'hypotheses': (8, 150), 'h3': (10, 60), 'truncation': (10, 150), 'histories': (14, 200), 'mixture': (4, 30),
        'recursion': (10, 170), 'rtrunc': (3, 40), 'concurrency': (10, 120), 'rconc': (5, 60), 'users': (5, 60)}

    def deadline(self, name):
        return time.time() + self.BUDGET[name][0 if self.c.tier == 'quick' else 1]

    def over(self, name, deadline):
        if time.time() > deadline:
            self.c.count('budget-cut:' + name)
            return True
        return False

    def model(self, reqs):
        set_mem_limit(None)
        try:
            return self.c.model(reqs)
        finally:
            set_mem_limit(8)

    def fork_budget(self):
        """True while real process kills are affordable; afterwards kills are injected in-process"""
        self.forks += 1
        return self.forks <= self.max_forks

    def newdir(self):
        self.n += 1
        d = os.path.join(self.root, 'd%d' % self.n)
        os.makedirs(d)
        return d

    def drop(self, d):
        shutil.rmtree(d, ignore_errors=True)

    def reference(self, kind, seed):
        """(D, uncached outcome, uncached log, key): the bytes the REAL decorator stores for this call"""
        if (kind, seed) not in self.ref:
            spec, slog = uncached(kind, seed)
            d = self.newdir()
            out, n, log, trace = real_call(d, kind, seed)
            files = os.listdir(d)
            D = read(os.path.join(d, files[0])) if len(files) == 1 else None
            self.ref[kind, seed] = ref = dict(D=D, spec=spec, slog=slog, files=files, first=(out, n, log, trace))
            # the very first call on a fresh cache directory is itself a case of the property
            if not check_completed(self, 'first-call', dict(stream='reference', payload=kind, pseed=seed), out, n, log, ref) or (spec[0] == 'ret' and not D):
                ref['D'] = None
            self.drop(d)
        return self.ref[kind, seed]


# =============================================================================================== stream H: pickle hypotheses

def load_outcome(path, data, caught, truncate_to=None):
    """what `pickle.load` does on a real file with this content, classified against the caught tuple"""
    if truncate_to is None:
        write(path, data)
    else:
        os.truncate(path, truncate_to)
    with open(path, 'r+b') as f:
        try:
            v = pickle.load(f)
        except caught as e:
            return 'caught', type(e).__name__
        except BaseException as e:
            return 'escaped', type(e).__name__ + ': ' + str(e)[:80]
    return 'loaded', v


def stream_hypotheses(X):
    c = X.c
    caught = X.caught_fn_classes
    thorough = c.tier == 'thorough'
    tmp = os.path.join(X.root, 'probe')
    nbad = 0; npoints = 0
    seeds = [0, 1] if not thorough else list(range(6))
    protos = [pickle.DEFAULT_PROTOCOL] + ([c.rng.choice([2, 3, 5])] if not thorough else [p_ for p_ in (2, 3, 4, 5) if p_ != pickle.DEFAULT_PROTOCOL])
    dl = X.deadline('hypotheses')
    for seed in seeds:
        for kind in KINDS:
            if seed != seeds[0] and X.over('hypotheses', dl): break
            rl = treelog.RecordLog()
            with treelog.set(rl):
                emit_logs(kind, seed)
            obj = (payload(kind, seed), rl)
            want = canon(obj)
            for proto in protos:
                if proto != protos[0] and X.over('hypotheses', dl): break
                D = pickle.dumps(obj, protocol=proto)
                # H3: deterministic within the process
                if pickle.dumps(obj, protocol=proto) != D:
                    c.count('info:second-dump-of-same-object-differs:' + kind)   # harmless: a result is dumped once, right after it was computed
                if pickle.dumps((payload(kind, seed), rl), protocol=proto) != D:   # what H3 is about: a fresh computation dumps the same bytes
                    c.count('H3:fresh-result-dumps-differently-while-equal-object-alive:' + kind)
                    if kind != 'topo':   # topologies: known (sharing of interned sub-objects), consequences are judged by stream_two_crashes
                        nbad += 1
                        c.broken_no_input('hyp:H3', 'two dumps of the same deterministic result differ within one process (%s)' % kind, dict(stream='hypotheses', payload=kind, pseed=seed, protocol=proto))
                if pickle.dumps(pickle.loads(D), protocol=proto) != D:
                    c.count('info:dump-of-loaded-copy-differs:' + kind)   # harmless: entries are never re-dumped from a loaded copy
                n = len(D)
                if n > 3000 and not (thorough and seed == 0):
                    ks = sorted(set(list(range(0, 300)) + list(range(n - 300, n)) + [c.rng.randrange(n) for _ in range(300)] + list(range(0, n, 4096)) + list(range(8191, n, 8192))))
                else:
                    ks = range(n)
                write(tmp, D)
                for k in sorted(ks, reverse=True):
                    res, info = load_outcome(tmp, None, caught, truncate_to=k)
                    npoints += 1
                    c.count('H2:' + (info if res == 'caught' else res))
                    if res != 'caught':
                        nbad += 1
                        c.failing_input('pickle-truncation-not-survivable:' + res,
                                        'a cache entry cut after %d of %d bytes (%s payload, protocol %d) %s instead of raising an exception of the caught tuple %s'
                                        % (k, n, kind, proto, 'loads silently' if res == 'loaded' else 'raises ' + str(info), [k_.__name__ for k_ in caught]),
                                        dict(stream='hypotheses', payload=kind, pseed=seed, protocol=proto, k=k, n=n, result=res, info=repr(info)[:200]))
                        break
                c.case(('H2', kind, seed, proto), nontrivial=True)
                # H1: a complete pickle followed by any tail loads the value
                for tail in (b'', D, D[: n // 2], b'\x00' * 7, bytes(c.rng.randrange(256) for _ in range(20)), b'.'):
                    res, v = load_outcome(tmp, D + tail, caught)
                    npoints += 1
                    if res != 'loaded' or canon(v) != want:
                        nbad += 1
                        c.failing_input('pickle-tail-not-ignored', 'a complete cache entry followed by a stale tail does not load the entry (%s, protocol %d): %s' % (kind, proto, res),
                                        dict(stream='hypotheses', payload=kind, pseed=seed, protocol=proto, tail=list(tail), result=res))
                c.count('H1:ok')
    c.obligation('hyp:H1-H2:real-pickle', nbad == 0, 'hypothesis', '%d load experiments on real files, caught tuple %s' % (npoints, [k.__name__ for k in caught]))
    # H0
    res, info = load_outcome(tmp, b'', caught)
    c.obligation('hyp:H0:empty-file', res == 'caught', 'hypothesis', str(info))
    if res != 'caught':
        c.failing_input('empty-cache-file-not-survivable', 'pickle.load of an empty cache file raises %s which is not in the caught tuple' % (info,), dict(stream='hypotheses', k=0))


def stream_h3_processes(X):
    """H3 across processes: same value, different PYTHONHASHSEED -> same bytes?  (exploration: sets are known to differ)"""
    c = X.c
    code = 'from nvh import c18\nc18._print_encodings()\n'
    outs = []
    ps = [subprocess.Popen([sys.executable, '-c', code], env=dict(os.environ, PYTHONHASHSEED=hs), stdout=subprocess.PIPE, stderr=subprocess.PIPE, text=True) for hs in ('1', '2')]
    for p in ps:
        try:
            so, se = p.communicate(timeout=900)
        except subprocess.TimeoutExpired:
            p.kill(); raise Infra('H3 subprocess timed out')
        if p.returncode != 0:
            raise Infra('H3 subprocess failed: ' + se[-500:])
        outs.append(dict(l.split() for l in so.splitlines()))
    X.rec_encodings = (bytes.fromhex(outs[0]['rec!alone']), bytes.fromhex(outs[0]['rec!equal-object-alive']))
    X.encodings = {seed: (bytes.fromhex(outs[0]['topo!%d!alone' % seed]), bytes.fromhex(outs[0]['topo!%d!equal-object-alive' % seed])) for seed in (0, 1)}
    differ = [k for k in KINDS if outs[0][k] != outs[1][k]]
    for k in KINDS:
        c.count('H3:across-processes:' + ('differs' if k in differ else 'same'))
    X.h3_differ = {k: (bytes.fromhex(outs[0][k]), bytes.fromhex(outs[1][k])) for k in differ}
    bad = [k for k in differ if k != 'sets']
    c.obligation('hyp:H3:deterministic-dump', not bad, 'hypothesis', 'payload kinds whose pickle differs between processes: %s (sets depend on PYTHONHASHSEED: documented assumption)' % differ)
    if bad:
        c.broken_no_input('hyp:H3', 'pickle of a deterministic payload differs between processes: %s' % bad, dict(kinds=bad))
    # exploration: two killed writers with different encodings of the same set-valued entry (cf. theorem h3_necessary)
    tmp = os.path.join(X.root, 'probe')
    for k_, (D1, D2) in X.h3_differ.items():
        def explore():
            stats = collections.Counter()
            want = canon(pickle.loads(D1))
            for m in range(1, len(D1)):
                for k in range(0, m, max(1, m // (8 if c.tier == 'thorough' else 3))):
                    try:
                        res, v = load_outcome(tmp, D2[:k] + D1[k:m], X.caught_fn_classes)
                    except MemoryError:
                        res, v = 'escaped', 'MemoryError'
                    stats[res if res != 'loaded' else ('loaded-right' if canon(v) == want else 'loaded-WRONG')] += 1
            return dict(stats)
        stats = guarded(explore, seconds=int(X.BUDGET['h3'][0 if c.tier == 'quick' else 1]) + 20)
        if isinstance(stats, dict):
            for s_, n in stats.items(): c.count('H3-violated-overlay:%s:%s' % (k_, s_), n)
        c.obligation('explore:H3-violated-overlays:' + k_, True, 'exploration', stats)


# =============================================================================================== stream T: every truncation point, end to end

def check_completed(X, what, replay, out, ncalls, log, ref, max_calls=1):
    """specification oracle for a completed call of fpay; returns True when it is fine"""
    c = X.c
    if out != ref['spec']:
        c.failing_input('function-not-transparent:' + what, 'memoised call returns %s but the uncached call returns %s (%s)' % (str(out)[:80], str(ref['spec'])[:80], what), replay)
        return False
    if log != ref['slog']:
        c.failing_input('function-log-not-replayed:' + what, 'memoised call shows a different log than the uncached call (%s)' % what, dict(replay, got=repr(log)[:300], want=repr(ref['slog'])[:300]))
        return False
    if ncalls > max_calls:
        c.failing_input('function-executed-more-than-once:' + what, 'wrapped function executed %d times in one call (%s)' % (ncalls, what), replay)
        return False
    return True


def stream_truncation(X):
    c = X.c
    thorough = c.tier == 'thorough'
    nbad = 0; npts = 0
    kinds = KINDS if thorough else ['small', 'scalars', 'arrays', 'nutypes', 'manylogs', 'bigarray', 'exception', 'topo']
    dl0 = X.deadline('truncation'); t0 = time.time()
    for ik, kind in enumerate(kinds):
        dl = t0 + (dl0 - t0) * (ik + 1) / len(kinds)   # every payload kind gets its share
        seed = c.rng.randrange(50)
        ref = X.reference(kind, seed)
        D = ref['D']
        if D is None:
            c.broken_no_input('corr:function:files', 'expected exactly one cache file after one call, got %s' % ref['files'], dict(kind=kind, seed=seed)); nbad += 1; continue
        d = X.newdir()
        path = os.path.join(d, ref['files'][0])
        n = len(D)
        if n > 1500 and not (thorough and kind != 'bigarray'):
            ks = sorted(set(list(range(0, 150)) + list(range(n - 150, n)) + [c.rng.randrange(n) for _ in range(150 if not thorough else 1500)] + list(range(8191, n, 8192)) + list(range(8192, n, 8192))))
        else:
            ks = list(range(n))
        # first and last bytes first, then the rest in random order, as far as the time budget goes
        edge = [k for k in ks if k < 12 or k >= n - 12]
        rest = [k for k in ks if not (k < 12 or k >= n - 12)]
        c.rng.shuffle(rest)
        ndone = 0
        for k in edge + rest:
            if ndone >= len(edge) + 20 and X.over('truncation', dl): break
            ndone += 1
            write(path, D[:k])
            out, ncalls, log, trace = real_call(d, kind, seed)
            npts += 1
            rep = dict(stream='truncation', payload=kind, pseed=seed, k=k, n=n)
            ok = check_completed(X, 'after-truncation', rep, out, ncalls, log, ref)
            if ok and (ncalls != 1 or read(path) != D or os.listdir(d) != ref['files']):
                ok = False
                c.broken_no_input('corr:function:truncation', 'after a truncated entry the model recomputes once and rewrites the full entry; the code did ncalls=%d, file %s' % (ncalls, 'differs' if read(path) != D else 'same'), rep)
            if ok and k % 7 == 0:
                out, ncalls, log, trace = real_call(d, kind, seed)
                ok = check_completed(X, 'hit-after-recovery', rep, out, ncalls, log, ref)
                if ok and ncalls != 0:
                    ok = False
                    c.broken_no_input('corr:function:hit', 'second call after recovery executed the function again', rep)
            c.case(('trunc', kind, k), nontrivial=True)
            if not ok:
                nbad += 1; break
        c.count('trunc:' + kind, ndone); c.count('trunc-of:' + kind, len(ks))
        X.drop(d)
    c.obligation('corr:function:every-truncation-point', nbad == 0, 'correspondence', '%d truncation points run through the real decorator' % npts)


def stream_mixture_exploration(X):
    """exploration (no verdict): a killed writer that was replacing an OLD-FORMAT failed entry `(log, True, None)` leaves
    `take k new ++ drop k old` with `old` not a prefix of `new` -- outside the hypotheses of the theorems.  What does the real
    code do with such files?  Runs in a child with an address-space and time limit (garbage can request huge allocations)."""
    c = X.c
    dl = X.deadline('mixture')
    for kind in (['small', 'arrays'] if c.tier == 'quick' else SMALL_KINDS):
        if kind != 'small' and X.over('mixture', dl): break
        seed = c.rng.randrange(30)
        ref = X.reference(kind, seed)
        if ref['D'] is None or ref['spec'][0] != 'ret': continue
        D = ref['D']
        rl = treelog.RecordLog()
        with treelog.set(rl): emit_logs(kind, seed)
        old = pickle.dumps((rl, True, None)) + b'\x00' * 40
        d = X.newdir()
        path = os.path.join(d, ref['files'][0])
        ks = sorted(set(c.rng.randrange(1, len(D)) for _ in range(25 if c.tier == 'quick' else 200)))

        def explore():
            stats = collections.Counter()
            for k in ks:
                write(path, D[:k] + old[k:])
                try:
                    out, n, log, trace = real_call(d, kind, seed)
                except MemoryError:
                    out = ('exc', 'MemoryError')
                stats['right' if out == ref['spec'] else 'WRONG-VALUE' if out[0] == 'ret' else 'raises ' + str(out[1])] += 1
            return dict(stats)
        stats = guarded(explore, seconds=int(X.BUDGET['mixture'][0 if c.tier == 'quick' else 1]) + 20)
        X.drop(d)
        if isinstance(stats, dict):
            for s_, n in stats.items(): c.count('mixture-over-old-format:' + s_, n)
            if stats.get('WRONG-VALUE'):
                c.failing_input('function-not-transparent:mixture-loads-wrong-value', 'a killed rewrite of an old-format entry left a file that loads silently as a wrong value (%s)' % kind,
                                dict(stream='mixture', payload=kind, pseed=seed, stats=stats))
        c.obligation('explore:mixture-over-old-format:' + kind, True, 'exploration', stats)


def screen_overlays(dirs, ms_of, rng, nrandom):
    """phase 1 of the two-crashes search (runs inside the guarded child): plain `pickle.load` on EVERY overlay
    `new[:k] + old[k:m]`; returns the (direction, k, m) whose load does anything else than raising EOFError/UnpicklingError
    (they "load" or fail inside a constructor: the candidates for the real code), most suspicious first, plus a random sample"""
    cands = []
    for new, old, tag in dirs:
        for m in ms_of(old):
            for k in range(1, m):
                try:
                    pickle.load(io.BytesIO(new[:k] + old[k:m])); rank = 0
                except (EOFError, pickle.UnpicklingError):
                    continue
                except MemoryError:
                    rank = 2
                except Exception:
                    rank = 1
                cands.append((rank, len(cands) % 7, tag, k, m))
    cands.sort()
    out = [(tag, k, m) for _, _, tag, k, m in cands]
    for new, old, tag in dirs:
        for m in ms_of(old):
            out += [(tag, rng.randrange(1, m), m) for _ in range(nrandom)]
    return out


def stream_two_crashes(X):
    """Two killed writers whose dumps of the SAME result differ (H3 fails): nutils topologies pickle 26 bytes longer when an
    equal topology is alive in the writing process (different sharing of interned sub-objects).  The files
    `take k new ++ drop k (take m old)` are reachable by two real kills; the REAL decorator is run on them (in a child
    with memory/time limits) and the uncached call is the oracle."""
    c = X.c
    for seed in (1, 0):
        _two_crashes_function(X, 'topo', seed)
    _two_crashes_recursion(X)


def _two_crashes_function(X, kind, seed):
    c = X.c
    import gc
    rl = treelog.RecordLog()
    with treelog.set(rl): emit_logs(kind, seed)
    ref = X.reference(kind, seed)
    if ref['D'] is None or ref['spec'][0] != 'ret':
        return
    if getattr(X, 'encodings', None):
        D1, D2 = X.encodings[seed]     # produced by fresh interpreters (stream_h3_processes): independent of what is alive in this process
    else:
        gc.collect()
        fresh = payload(kind, seed); D1 = pickle.dumps((fresh, rl)); del fresh; gc.collect()
        keep = payload(kind, seed); other = payload(kind, seed); D2 = pickle.dumps((other, rl)); del keep, other; gc.collect()
    c.count('two-crashes:encodings-' + ('differ' if D1 != D2 else 'equal'))
    # both must be entries the real decorator accepts as complete (value and log right, no execution)
    d = X.newdir()
    for D in (D1, D2):
        write(os.path.join(d, ref['files'][0]), D)
        out, n, log, trace = real_call(d, kind, seed)
        if out != ref['spec'] or log != ref['slog'] or n != 0:
            c.obligation('oracle:two-crashes', True, 'exploration', 'an encoding produced outside the decorator is not accepted as the entry (n=%d)' % n); X.drop(d); return
    X.drop(d)
    if D1 == D2:
        c.obligation('oracle:two-crashes', True, 'exploration', 'both writers dump the same %d bytes' % len(D1)); return
    d = X.newdir()
    path = os.path.join(d, ref['files'][0])
    budget = 7 if c.tier == 'quick' else 60
    dirs = ((D1, D2, 'short-over-long'), (D2, D1, 'long-over-short'))
    ms_of = (lambda old: (len(old) - 1, len(old) - 25)) if c.tier == 'quick' else (lambda old: (len(old) - 1, len(old) - 2, len(old) - 25, len(old) // 2))
    byname = {tag: (new, old) for new, old, tag in dirs}

    def explore():
        stats = collections.Counter(); bad = []
        t_end = time.time() + budget
        cands = screen_overlays(dirs, ms_of, c.rng, 20 if c.tier == 'quick' else 300)
        stats['screened-candidates'] = len(cands)
        for tag, k, m in cands:
            if time.time() > t_end: stats['budget-cut'] += 1; break
            if len(bad) >= 5 and stats['checked'] >= 40: break
            new, old = byname[tag]
            write(path, new[:k] + old[k:m])
            try:
                out, n, log, trace = real_call(d, kind, seed)
            except MemoryError:
                out = ('exc', 'MemoryError', '')
            r = 'right' if out == ref['spec'] else 'WRONG-VALUE' if out[0] == 'ret' else 'raises ' + str(out[1])
            stats[tag + ':' + r] += 1; stats['checked'] += 1
            if r != 'right' and len(bad) < 5: bad.append((tag, k, m, r, str(out[2:3])[:120]))
        return dict(stats), bad
    res = guarded(explore, seconds=budget + 60)
    X.drop(d)
    if not (isinstance(res, tuple) and isinstance(res[0], dict)):
        c.obligation('oracle:two-crashes', True, 'exploration', 'guarded child failed: %s' % (res,)); return
    stats, bad = res
    for s_, n in stats.items(): c.count('two-crashes:' + s_, n)
    c.case(('two-crashes', kind, seed), nontrivial=True)
    c.obligation('oracle:two-crashes', not bad, 'correspondence', dict(stats))
    if bad:
        tag, k, m, r, msg = bad[0]
        c.failing_input('two-killed-writers:entry-poisoned-by-uncaught-unpickling-exception',
                        'after two killed writers whose pickles of the same result differ (a topology pickles %d or %d bytes depending on whether an equal topology is alive in the process) '
                        'the entry `new[:%d] + old[%d:%d]` makes every later call %s instead of recomputing (cache.function neither truncates nor catches this exception)'
                        % (len(D1), len(D2), k, k, m, r), dict(stream='two-crashes', payload=kind, pseed=seed, direction=tag, k=k, m=m, outcome=r, message=msg, examples=bad, sizes=[len(D1), len(D2)]))


def _two_crashes_recursion(X):
    """the same for an item file of a topology-valued Recursion"""
    c = X.c
    budget = 7 if c.tier == 'quick' else 60
    ms_of = (lambda old: (len(old) - 1, len(old) - 25)) if c.tier == 'quick' else (lambda old: (len(old) - 1, len(old) - 2, len(old) - 25, len(old) // 2))
    if not getattr(X, 'rec_encodings', None) or X.rec_encodings[0] == X.rec_encodings[1]:
        c.obligation('oracle:two-crashes:recursion', True, 'exploration', 'no two encodings of the item file available'); return
    R1, R2 = X.rec_encodings
    obj = RecT0(TOPO_REC_SPEC, 'two-crashes')
    specrun = real_iter(None, obj, 4, enabled=False)
    d = X.newdir()
    real_iter(d, obj, 4)
    subs, files, names = rec_files(d, 3)
    path0 = os.path.join(d, subs[0], '0000')
    rdirs = ((R1, R2, 'short-over-long'), (R2, R1, 'long-over-short'))
    rbyname = {tag: (new, old) for new, old, tag in rdirs}

    def explore_rec():
        stats = collections.Counter(); bad = []
        t_end = time.time() + budget
        cands = screen_overlays(rdirs, ms_of, c.rng, 20 if c.tier == 'quick' else 300)
        stats['screened-candidates'] = len(cands)
        for tag, k, m in cands:
            if time.time() > t_end: stats['budget-cut'] += 1; break
            if len(bad) >= 5 and stats['checked'] >= 40: break
            new, old_ = rbyname[tag]
            write(path0, new[:k] + old_[k:m])
            r = real_iter(d, obj, 4)
            res = 'right' if (r['items'], r['fin']) == (specrun['items'], specrun['fin']) else 'WRONG-SEQUENCE' if r['fin'] == specrun['fin'] else ' '.join(r['fin'].split()[:2])
            stats[tag + ':' + res] += 1; stats['checked'] += 1
            if res != 'right' and len(bad) < 5: bad.append((tag, k, m, res))
        return dict(stats), bad
    res = guarded(explore_rec, seconds=budget + 60)
    X.drop(d)
    if not (isinstance(res, tuple) and isinstance(res[0], dict)):
        c.obligation('oracle:two-crashes:recursion', True, 'exploration', 'guarded child failed: %s' % (res,)); return
    stats, bad = res
    for s_, n in stats.items(): c.count('two-crashes:recursion:' + s_, n)
    c.case(('two-crashes-recursion',), nontrivial=True)
    c.obligation('oracle:two-crashes:recursion', not bad, 'correspondence', dict(stats))
    if bad:
        tag, k, m, r = bad[0]
        c.failing_input('two-killed-writers:recursion-item-poisoned-by-uncaught-unpickling-exception',
                        'after two killed writers whose pickles of the same item differ (%d / %d bytes) item file 0000 = `new[:%d] + old[%d:%d]` makes every later iteration end with %r instead of recomputing'
                        % (len(R1), len(R2), k, k, m, r), dict(stream='two-crashes-recursion', direction=tag, k=k, m=m, outcome=r, examples=bad))


# =============================================================================================== stream F: function histories vs model

def stream_function_histories(X):
    c = X.c
    NH = 120 if c.tier == 'quick' else 3000
    cases = []
    corpus = [('small', 5, 'illtyped', [('call',), ('call',)]), ('small', 3, 'empty', [('call',), ('call',)]), ('small', 3, 'empty', [('kill', 0), ('kill', 5), ('kill', 2), ('call',), ('call',)]),
              ('raise', 1, 'empty', [('call',), ('kill', 3), ('call',)]), ('arrays', 2, 'oldfail', [('call',), ('call',)]),
              ('small', 4, 'tail', [('kill', 1), ('call',)]), ('none', 0, 'empty', [('intr',), ('call',), ('sub',), ('disabled',)])]
    for kind, seed, init, evs in corpus:
        cases.append((kind, seed, init, evs))
    for _ in range(NH):
        kind = c.rng.choice(SMALL_KINDS + ['raise', 'raise'])
        seed = c.rng.randrange(30)
        init = c.rng.choice(['empty'] * 4 + ['prefix', 'prefix', 'complete', 'tail', 'oldok', 'oldfail', 'oldfail-long', 'illtyped'])
        evs = []
        for _ in range(c.rng.randint(1, 7)):
            e = c.rng.choice(['call', 'call', 'call', 'kill', 'kill', 'kill', 'intr', 'sub', 'disabled'])
            evs.append((e, None) if e == 'kill' else (e,))
        cases.append((kind, seed, init, evs))
    reqs, reals = [], []
    caught_s = model_caught(X.names.get('fn', []))
    dl = X.deadline('histories')
    for icase, (kind, seed, init, evs) in enumerate(cases):
        if icase >= 30 and X.over('histories', dl): break
        ref = X.reference(kind, seed)
        isexc = ref['spec'][0] == 'exc'
        if isexc:
            D = b''; key = expected_key(fpay, 0, (kind, seed), dict(opt=1))
            if ref['D'] is None: continue
        else:
            D = ref['D']; key = ref['files'][0] if ref['files'] else 'missing'
            if D is None:
                c.broken_no_input('corr:function:files', 'expected exactly one cache file after one call, got %s' % ref['files'], dict(kind=kind, seed=seed)); continue
        # log / value of an old-format entry: same value and log as the function produces (old caches are assumed right)
        rl = treelog.RecordLog()
        with treelog.set(rl): emit_logs(kind, seed)
        table = []
        if not isexc:
            table.append((D, 'e 1 1'))
            oldok = pickle.dumps((rl, False, payload(kind, seed)))
        else:
            oldok = pickle.dumps((rl, False, None))
        oldfail = pickle.dumps((rl, True, None))
        oldfail_long = pickle.dumps((rl, True, 'x' * (len(D) + 50)))
        illtyped = pickle.dumps((None if isexc else payload(kind, seed), c.rng.choice(['not a log', 7, None, ('write', 'x')])))   # unpickles fine, log component is no RecordLog
        if init == 'oldok' and isexc: init = 'empty'
        if init in ('prefix', 'complete', 'tail') and isexc: init = 'empty'
        file0 = {'empty': b'', 'prefix': D[:c.rng.randrange(len(D) + 1)] if D else b'', 'complete': D, 'tail': D + bytes(c.rng.randrange(256) for _ in range(c.rng.randint(1, 30))),
                 'oldok': oldok, 'oldfail': oldfail, 'oldfail-long': oldfail_long, 'illtyped': illtyped}[init]
        if init == 'oldok': table.append((oldok, 'o 1 0 1'))
        if init == 'oldfail': table.append((oldfail, 'o 1 1 9'))
        if init == 'oldfail-long': table.append((oldfail_long, 'o 1 1 9'))
        if init == 'illtyped': table.append((illtyped, 'j'))
        d = X.newdir()
        path = os.path.join(d, key)
        if init != 'empty' or c.rng.random() < .3:
            write(path, file0)
        # ---- run the history on the REAL code
        real = []; mev = []
        for i, e in enumerate(evs):
            if e[0] == 'kill':
                k = e[1] if e[1] is not None else c.rng.choice([0, 1, 2, max(0, len(D) - 1), len(D), len(D) + 3, c.rng.randrange(len(D) + 1), c.rng.randrange(len(D) + 1)])
                if (init.startswith('oldfail') or init == 'illtyped') and read(path) in (oldfail, oldfail_long, illtyped) and 0 < k < len(D):
                    k = c.rng.choice([0, len(D), len(D) + 3])   # a partial write over an old-format entry is a mixture outside the model: explored separately
                evs[i] = ('kill', k)
                code = killed_call(d, kind, seed, k, fork=X.fork_budget())
                real.append(('kill', code)); mev.append('k 0 %d' % k)
            elif e[0] == 'intr':
                STATE['transient'] = True
                try: out, n, log, trace = real_call(d, kind, seed)
                finally: STATE['transient'] = False
                real.append(('call', out, n, log, list(STATE['inner_cache']))); mev.append('i 0 1')
            elif e[0] == 'sub':
                if X.fork_budget():
                    code = forked(lambda: real_call(d, kind, seed))
                else:
                    code = 0; real_call(d, kind, seed)
                real.append(('sub', code)); mev.append('c 0')
            elif e[0] == 'disabled':
                before = read(path)
                rec = Recorder(); n0 = STATE['calls']
                with treelog.set(rec), cache.enable(d), cache.disable():
                    try: out = ('ret', canon(fpay(kind, seed)))
                    except Exception as ex: out = ('exc', type(ex).__name__, str(ex))
                real.append(('disabled', out, STATE['calls'] - n0, rec.events, read(path) == before)); mev.append(None)
            else:
                out, n, log, trace = real_call(d, kind, seed)
                real.append(('call', out, n, log, list(STATE['inner_cache']), trace))
                mev.append('c 0')
            real[-1] = real[-1] + (read(path), sorted(os.listdir(d)))
        f_s = 'exc 1 1' if isexc else 'ret 1 1'
        reqs.append('fn|%s|%s|%s|%s|%s|%s' % (';'.join('%s:%s' % (bytes_s(b), t) for b, t in table), caught_s, f_s, bytes_s(D), bytes_s(file0), ';'.join(m for m in mev if m)))
        reals.append((kind, seed, init, evs, real, mev, ref, key, file0))
        X.drop(d)
    ans = yield reqs   # one batched call of the Lean driver for all streams (see run)
    ndis = 0
    for (kind, seed, init, evs, real, mev, ref, key, file0), a, rq in zip(reals, ans, reqs):
        if a.startswith('bad-request'):
            raise Infra('C18 driver rejected a request: ' + rq[:200])
        mans = iter(a.split(';') if a else [])
        rep = dict(stream='function-histories', payload=kind, pseed=seed, init=init, events=evs, file0=list(file0), model=a[:2000])
        good_init = init in ('empty', 'prefix', 'complete', 'tail', 'oldok', 'oldfail', 'oldfail-long', 'illtyped')
        ok = True
        c.case((kind, seed, init, tuple(evs)), nontrivial=len(evs) > 1 or init != 'empty')
        c.count('fh:init:' + init); c.count('fh:kind:' + kind)
        c.sample(dict(stream='function-histories', payload=kind, pseed=seed, init=init, events=evs, entry_bytes=len(ref['D'] or b''), model=a[:160]), limit=3)
        for e, r, m in zip(evs, real, mev):
            fileb, files = r[-2], r[-1]
            c.count('fh:event:' + e[0])
            if files not in ([], [key]):
                ok = False
                c.broken_no_input('corr:function:key', 'cache directory holds %s, expected only the entry %s (key derivation / nested caching while computing)' % (files, key), rep); break
            if m is None:  # disabled call: pure specification
                _, out, n, log, unchanged = r[:5]
                if out != ref['spec'] or log != ref['slog'] or n != 1 or not unchanged:
                    ok = False
                    c.failing_input('disabled-cache-not-bypassed', 'call under cache.disable() did not simply run the function (ncalls=%d, file unchanged=%s)' % (n, unchanged), rep); break
                continue
            mo, mfile = next(mans).split('@')
            mo = mo.split()
            if mo[0] == 'crash' and mo[1] == 'other':
                c.count('fh:model-no-prediction')
                break
            if r[0] == 'call':
                out, n, log, inner = r[1:5]
                c.count('fh:real:' + out[0] + ':n%d' % n)
                # oracle
                if e[0] == 'call' and good_init:
                    if not check_completed(X, 'history', rep, out, n, log, ref):
                        ok = False; break
                # correspondence
                if mo[0] == 'ret': want = (ref['spec'] if ref['spec'][0] == 'ret' else None, int(mo[3]), ref['slog'])
                elif mo[0] == 'exc': want = (ref['spec'], int(mo[3]), ref['slog'])
                elif mo[0] == 'intr': want = (('intr',), 1, None)
                elif mo[0] == 'crash': want = (('exc', {'eof': 'EOFError', 'unpickling': 'UnpicklingError', 'index': 'IndexError'}[mo[1]]), 0, None)
                else: want = None
                got = (out if mo[0] != 'crash' else out[:2], n, log if want and want[2] is not None else None)
                if want is None or got != want:
                    ok = False
                    c.broken_no_input('corr:function:outcome', 'event %s: model says %s, code did %s with %d executions' % (e, ' '.join(mo), str(out)[:60], n), rep); break
                if any(x is not None for x in inner):
                    ok = False
                    c.broken_no_input('corr:function:disable-while-computing', 'the wrapped function ran with caching enabled (cache.caching.current=%s)' % inner, rep); break
            elif r[0] == 'kill':
                code = r[1]
                wantcode = {'killed': (17,) if ref['spec'][0] == 'ret' else (4,), 'ret': (0,), 'exc': (4,), 'crash': (4,)}.get(mo[0], ())
                if code not in wantcode:
                    ok = False
                    c.broken_no_input('corr:function:kill', 'event %s: model says %s, killed child exited with %d' % (e, ' '.join(mo), code), rep); break
            elif r[0] == 'sub':
                code = r[1]
                if code != 0 and e[0] == 'sub' and good_init:
                    ok = False
                    c.failing_input('function-not-transparent:subprocess', 'memoised call in a child process raised (exit %d)' % code, rep); break
            if bytes_s(fileb) != mfile.strip():
                ok = False
                # is it a failing input? run one more completed call and ask the oracle
                d = X.newdir(); write(os.path.join(d, key), fileb)
                out, n, log, trace = real_call(d, kind, seed); X.drop(d)
                if not (good_init and not check_completed(X, 'after-file-divergence', rep, out, n, log, ref)):
                    c.broken_no_input('corr:function:file', 'event %s: cache file content differs from the model (%d bytes vs %d)' % (e, len(fileb), len(mfile.split())), rep)
                break
            X.c.traces += 1
        ndis += not ok
    if c.counters.get('fh:model-no-prediction'):
        ndis += 1; c.broken_no_input('corr:function:model-domain', 'the idealised pickle of the model made no prediction for %d histories' % c.counters['fh:model-no-prediction'], {})
    c.obligation('corr:function:histories', ndis == 0, 'correspondence', '%d histories' % len(reals))


def stream_keys(X):
    """key derivation: canonicalised arguments, version, qualified name"""
    c = X.c
    ndis = 0
    d = X.newdir()
    groups = [
        (fpos, 3, [((1,), {}), ((1, 5), {}), ((), dict(a=1)), ((1,), dict(b=5, c=7)), ((), dict(c=7, b=5, a=1))], ((1, 5), dict(c=7))),
        (fpos, 3, [((1, 2, 3), dict(z=1, y=2)), ((1, 2, 3), dict(y=2, z=1, c=7))], ((1, 2, 3), dict(c=7, y=2, z=1))),
        (fpos, 3, [((2,), {}), ((), dict(a=2, b=5))], ((2, 5), dict(c=7))),
        (fpos, 3, [((1, 5), dict(c=8))], ((1, 5), dict(c=8))),
        (fpos, 3, [((1.0,), {})], ((1.0, 5), dict(c=7))),
        (fpos, 3, [((True,), {})], ((True, 5), dict(c=7))),
        (fpos, 3, [(((1,),), {})], (((1,), 5), dict(c=7))),
        (fpos, 3, [((numpy.arange(3),), {})], ((numpy.arange(3), 5), dict(c=7))),
    ]
    seen = {}
    for func, version, calls, (cargs, ckw) in groups:
        key = expected_key(func, version, cargs, ckw)
        want = None
        for i, (a, kw) in enumerate(calls):
            before = set(os.listdir(d))
            out, n, log, trace = real_call(d, None, None, func=func, args=a, kwargs=kw)
            rec = Recorder()
            with treelog.set(rec), cache.disable():
                spec = ('ret', canon(func(*a, **kw)))
            rep = dict(stream='keys', func=func.__name__, args=repr(a), kwargs=repr(kw))
            c.case(('key', func.__name__, repr(a), repr(kw)), nontrivial=True)
            if out != spec or log != rec.events:
                ndis += 1
                c.failing_input('function-not-transparent:arguments', 'memoised %s%r%r returns %s, uncached %s' % (func.__name__, a, kw, str(out)[:60], str(spec)[:60]), rep); continue
            new = set(os.listdir(d)) - before
            if (i == 0 and (new != {key} or n != 1)) or (i > 0 and (new or n != 0)):
                ndis += 1
                c.broken_no_input('corr:function:key', 'call %d of an equivalence class of argument spellings: new files %s (expected %s), executions %d' % (i, sorted(new), key if i == 0 else 'none', n), rep)
        if key in seen:
            raise Infra('harness: duplicate key group')
        seen[key] = 1
    # version and name are part of the key
    for func, version, spec in ((V0, 0, 7), (V1, 1, 107), (V0, 0, 7), (V1, 1, 107)):
        out, n, log, trace = real_call(d, None, None, func=func, args=(7,))
        c.case(('version', version), nontrivial=True)
        if out != ('ret', canon(spec)):
            ndis += 1
            c.failing_input('function-not-transparent:version', 'two versions of one function share a cache entry: version %d returns %s instead of %d' % (version, out, spec), dict(stream='keys', version=version))
    k0, k1 = expected_key(V0, 0, (7,), {}), expected_key(V1, 1, (7,), {})
    if not {k0, k1} <= set(os.listdir(d)):
        ndis += 1
        c.broken_no_input('corr:function:key', 'entries of the two versions are not where the key formula puts them', dict(stream='keys'))
    for func, spec in ((fpay, None), (other_name, ('other', 'small', 2))):
        out, n, log, trace = real_call(d, None, None, func=func, args=('small', 2))
        want = ('ret', canon(spec if spec else payload('small', 2)))
        if out != want:
            ndis += 1
            c.failing_input('function-not-transparent:name', 'two functions with equal arguments share a cache entry', dict(stream='keys', func=func.__name__))
    X.drop(d)
    c.obligation('corr:function:keys', ndis == 0, 'correspondence', 'argument canonicalisation, version, qualified name')


# =============================================================================================== stream R: Recursion histories

RSTATE = dict(next=0, fault=None, trace=[])
MOD = 1000003


def _num(v):
    if v is None: return 0
    if isinstance(v, tuple): return int(v[1])
    if isinstance(v, numpy.ndarray): return int(v[1])
    return int(v)


def _item_value(spec, hist, i):
    nitems, endkind, valkind, a, b = spec
    x = (a * sum(_num(h) * (j + 1) for j, h in enumerate(hist)) + b + i * i) % MOD
    if valkind == 'tuple' or valkind == 'tuple-noindex': return (i, x)
    if valkind == 'array': return numpy.array([i, x], dtype=float)
    if valkind == 'none' and i % 3 == 2: return None
    if valkind == 'topo': return payload('topo', i % 2)
    return x


def _generator(length, spec, history, index):
    nitems, endkind, valkind, a, b = spec
    h = list(history)
    i = index
    while True:
        RSTATE['next'] += 1
        if RSTATE['fault'] == i:
            treelog.info('about to be interrupted at', i)
            raise Transient()
        treelog.info('item', i)
        if STATE.get('rgate'): STATE['rgate'](i)
        if i % 2:
            with treelog.context('ctx %d' % i):
                treelog.user('len(history)=%d' % len(h))
        if nitems is not None and i >= nitems:
            if endkind == 'raise':
                raise ValueError('recursion fails at item %d' % i)
            treelog.warning('exhausted at', i)
            return
        v = _item_value(spec, h, i)
        yield v
        h = h + [v]
        if len(h) > length:
            h = h[1:]
        i += 1


class _RecIndexed:
    """style A: overrides resume_index"""
    def __init__(self, spec, tag):
        self.spec, self.tag = spec, tag

    def resume_index(self, history, index):
        RSTATE['trace'].append((canon(list(history)), index))
        return _generator(type(self).length, self.spec, history, index)


class _RecPlain:
    """style B: only `resume`; the position is recovered from the last value (tuples (i, x))"""
    def __init__(self, spec, tag):
        self.spec, self.tag = spec, tag

    def resume(self, history):
        index = history[-1][0] + 1 if history else 0
        RSTATE['trace'].append((canon(list(history)), index))
        return _generator(type(self).length, self.spec, history, index)


class RecA0(_RecIndexed, cache.Recursion, length=0): pass
class RecA1(_RecIndexed, cache.Recursion, length=1): pass
class RecA2(_RecIndexed, cache.Recursion, length=2): pass
class RecA3(_RecIndexed, cache.Recursion, length=3): pass
class RecB1(_RecPlain, cache.Recursion, length=1): pass
class RecB2(_RecPlain, cache.Recursion, length=2): pass
class RecT0(_RecIndexed, cache.Recursion, length=0): pass   # topology-valued items (stream_two_crashes)
RECS = [RecA0, RecA1, RecA2, RecA3, RecB1, RecB2]


TOPO_REC_SPEC = (2, 'stop', 'topo', 1, 0)


def _print_encodings():
    """run in a fresh interpreter (stream_h3_processes): the bytes fresh writers dump, incl. the two encodings of
    topology-valued entries (alone / while an equal topology object is alive in the process)"""
    import gc, tempfile
    for kind in KINDS:
        rl = treelog.RecordLog()
        with treelog.set(rl): emit_logs(kind, 1)
        print(kind, pickle.dumps((payload(kind, 1), rl)).hex())
    for seed in (0, 1):
        rl = treelog.RecordLog()
        with treelog.set(rl): emit_logs('topo', seed)
        gc.collect(); a = payload('topo', seed); print('topo!%d!alone' % seed, pickle.dumps((a, rl)).hex()); del a; gc.collect()
        keep = payload('topo', seed); b = payload('topo', seed); print('topo!%d!equal-object-alive' % seed, pickle.dumps((b, rl)).hex()); del keep, b; gc.collect()
    # item file 0 of a topology-valued Recursion, written by the real code
    for tag in ('alone', 'equal-object-alive'):
        keep = payload('topo', 0) if tag != 'alone' else None
        with tempfile.TemporaryDirectory() as d:
            real_iter(d, RecT0(TOPO_REC_SPEC, 'enc'), 1)
            print('rec!%s' % tag, rec_files(d, 1)[1][0].hex())
        del keep; gc.collect()


def real_iter(cachedir, obj, n, fault=None, killpickle=None, enabled=True, logger=None):
    """iterate a REAL Recursion object, taking at most n items; returns dict(items=[(value, log)], fin, finlog, resumed, ncomp)"""
    rec = logger or Recorder()
    RSTATE.update(next=0, fault=fault, trace=[])
    items = []; fin = 'closed'; finlog = None
    if killpickle: cache.pickle = killpickle
    try:
        with treelog.set(rec), (cache.enable(cachedir) if enabled else cache.disable()):
            it = iter(obj)
            mark = 0
            try:
                for _ in range(n):
                    mark = len(rec.events)
                    v = next(it)
                    items.append((canon(v), rec.events[mark:]))
            except StopIteration:
                fin = 'stopped'; finlog = rec.events[mark:]
            except Transient:
                fin = 'interrupted'; finlog = rec.events[mark:]
            except Killed:
                fin = 'killed'
            except Exception as e:
                fin = 'raised %s %s' % (type(e).__name__, e); finlog = rec.events[mark:]
            finally:
                it.close()
    finally:
        cache.pickle = pickle
        RSTATE['fault'] = None
    return dict(items=items, fin=fin, finlog=finlog, resumed=list(RSTATE['trace']), ncomp=RSTATE['next'], trace=rec.trace)


def rec_files(cachedir, nfiles):
    subs = sorted(os.listdir(cachedir))
    if not subs: return None, [b''] * nfiles, []
    sub = os.path.join(cachedir, subs[0])
    names = sorted(os.listdir(sub))
    return subs, [read(os.path.join(sub, '%04d' % i)) for i in range(nfiles)], names


def stream_recursion(X):
    c = X.c
    NH = 60 if c.tier == 'quick' else 1500
    caught_s = model_caught(X.names.get('rec', []))
    reqs, reals = [], []
    M = 7  # horizon for infinite sequences
    dl = X.deadline('recursion')
    for hno in range(NH):
        if hno >= 20 and X.over('recursion', dl): break
        cls = c.rng.choice(RECS)
        length = cls.length
        endkind = c.rng.choice(['stop', 'stop', 'raise', 'inf'])
        nitems = None if endkind == 'inf' else c.rng.randint(0, 6)
        valkind = 'tuple' if cls in (RecB1, RecB2) else c.rng.choice(['int', 'int', 'tuple', 'array', 'none'])
        spec = (nitems, endkind, valkind, c.rng.randint(1, 9), c.rng.randint(0, 99))
        obj = cls(spec, 'h%d-%d' % (c.seed, hno))
        horizon = M if nitems is None else nitems + 1
        # specification: the uncached iteration
        specrun = real_iter(None, obj, horizon + 2 if nitems is not None else horizon, enabled=False)
        if specrun['resumed'] != [(canon([]), 0)]:
            c.broken_no_input('corr:recursion:uncached', 'uncached iteration must call resume([]) once: %s' % specrun['resumed'], dict(spec=spec)); continue
        # reference bytes of every item file
        dref = X.newdir()
        real_iter(dref, obj, horizon + 2 if nitems is not None else horizon)
        _, Ds, names = rec_files(dref, horizon + 1)
        X.drop(dref)
        vals = [it[0] for it in specrun['items']]
        vid = {}
        for v in vals: vid.setdefault(v, len(vid) + 1)
        steps = ['i %d %d' % (vid[v], i) for i, v in enumerate(vals)]
        if nitems is not None:
            steps.append(('s %d' if endkind == 'stop' else 'x 1 %d') % len(vals))
        dumps = [bytes_s(Ds[i]) if Ds[i] else '-' for i in range(len(steps))]
        # events
        evs = []
        for _ in range(c.rng.randint(1, 6)):
            t = c.rng.choice(['take', 'take', 'take', 'kill', 'kill', 'intr'])
            if t == 'take': evs.append(('take', c.rng.randint(0, horizon + (1 if nitems is not None else 0))))
            elif t == 'kill':
                i = c.rng.randrange(len(steps)) if steps else 0
                n = len(Ds[i]) if i < len(Ds) else 0
                evs.append(('kill', i, c.rng.choice([0, 1, max(0, n - 1), n, n + 2, c.rng.randrange(n + 1), c.rng.randrange(n + 1)])))
            else: evs.append(('intr', c.rng.randrange(len(steps)) if steps else 0))
        evs.append(('take', horizon + (1 if nitems is not None else 0)))
        evs.append(('take', horizon + (1 if nitems is not None else 0)))
        d = X.newdir()
        real = []; mev = []
        for e in evs:
            if e[0] == 'take':
                r = real_iter(d, obj, e[1]); mev.append('t 0 %d' % e[1])
            elif e[0] == 'kill':
                _, i, k = e
                if X.fork_budget():
                    code = forked(lambda: real_iter(d, obj, i + 1, killpickle=KillPickle(k, only='/%04d' % i)))
                    r = dict(code=code)
                else:
                    r = real_iter(d, obj, i + 1, killpickle=KillPickle(k, only='/%04d' % i, die=False))
                mev.append('k 0 %d %d' % (i, k))
            else:
                r = real_iter(d, obj, e[1] + 1, fault=e[1]); mev.append('x 0 %d 1' % e[1])
            subs, files, names = rec_files(d, len(steps) + 1)
            r['files'] = files; r['names'] = names; r['subs'] = subs
            real.append(r)
        X.drop(d)
        reqs.append('rec|%d|%s|%s|%s|%s' % (length, caught_s, ';'.join(steps), ';'.join(dumps), ';'.join(mev)))
        reals.append((cls.__name__, spec, evs, real, specrun, vid, steps, Ds, obj))
    c.log('recursion: real runs done, %d forks so far' % X.forks)
    ans = yield reqs   # one batched call of the Lean driver for all streams (see run)
    c.log('recursion: model done')
    ndis = 0
    for (cname, spec, evs, real, specrun, vid, steps, Ds, obj), a, rq in zip(reals, ans, reqs):
        if a.startswith('bad-request'):
            raise Infra('C18 driver rejected a request: ' + rq[:300])
        c.case((cname, spec, tuple(evs)), nontrivial=True)
        c.count('rec:class:' + cname); c.count('rec:end:' + spec[1])
        if len(c.samples) < 5: c.sample(dict(stream='recursion', cls=cname, spec=spec, events=evs, model=a[:200]), limit=5)
        rep = dict(stream='recursion', cls=cname, spec=spec, events=evs, model=a[:3000])
        hkey_ok = True
        ok = True
        for e, r, m in zip(evs, real, a.split(';')):
            mm = dict(f.split('=', 1) for f in m.split('&'))
            c.count('rec:event:' + e[0])
            if mm['fin'].startswith('crash other'):
                c.count('rec:model-no-prediction'); break
            if 'items' in r:
                # ---- specification oracle: what a `take n` iteration must produce
                if e[0] == 'take':
                    n = e[1]
                    want_items = specrun['items'][:n]
                    want_fin = specrun['fin'] if n > len(specrun['items']) else 'closed'
                    if [x[0] for x in r['items']] != [x[0] for x in want_items] or r['fin'] != want_fin:
                        ok = False
                        c.failing_input('recursion-not-transparent', 'cached iteration yields %s items ending %r, the uncached iteration %s items ending %r (after a history of partial runs)'
                                        % (len(r['items']), r['fin'], len(want_items), want_fin), dict(rep, got=repr(r['items'])[:500], want=repr(want_items)[:500])); break
                    if [x[1] for x in r['items']] != [x[1] for x in want_items] or (want_fin != 'closed' and r['finlog'] != specrun['finlog']):
                        ok = False
                        c.failing_input('recursion-log-not-replayed', 'cached iteration shows different per-item log output than the uncached iteration', rep); break
                # ---- correspondence with the model
                got_items = ','.join('%d:%d' % (vid.get(v, 0), i) for i, (v, l) in enumerate(r['items']))
                fin = r['fin']
                mfin = mm['fin']
                fin_ok = (fin == mfin.split()[0]) or (fin.startswith('raised ValueError') and mfin == 'raised 1') or (fin == 'interrupted' and mfin == 'interrupted 1') \
                    or (mfin == 'killed' and fin in ('killed', 'closed')) or (mfin.startswith('interrupted') and fin in ('interrupted', 'closed'))
                want_res = '-' if not r['resumed'] else None
                if r['resumed']:
                    h, idx = r['resumed'][0]
                    want_res = '%s@%d' % (' '.join(str(vid.get(v, 0)) for v in h[1:]), idx)
                logs_ok = all(l == specrun['items'][i][1] for i, (v, l) in enumerate(r['items']) if i < len(specrun['items']))
                if got_items != mm['items'] or not fin_ok or len(r['resumed']) > 1 or want_res != mm['resumed'] or r['ncomp'] != int(mm['ncomp']) or not logs_ok:
                    ok = False
                    c.broken_no_input('corr:recursion:run', 'event %s: model %s; code items=%s fin=%s resumed=%s ncomp=%d logs_ok=%s' % (e, m[:200], got_items, fin, want_res, r['ncomp'], logs_ok), rep); break
            else:
                if r['code'] not in ((17, 0) if mm['fin'] == 'killed' else (0, 4) if mm['fin'].startswith(('stopped', 'raised', 'closed')) else ()):
                    ok = False
                    c.broken_no_input('corr:recursion:kill', 'event %s: model fin=%s, killed child exited with %d' % (e, mm['fin'], r['code']), rep); break
            mfiles = mm['files'].split(',')
            rfiles = [bytes_s(b) for b in r['files']]
            if [x.strip() for x in mfiles] != rfiles:
                ok = False
                bad = [i for i, (x, y) in enumerate(zip(mfiles, rfiles)) if x.strip() != y]
                # failing input?  one more full iteration decides
                c.broken_no_input('corr:recursion:files', 'event %s: item files %s differ from the model (lengths %s vs %s)' % (e, bad, [len(r['files'][i]) for i in bad], [len(mfiles[i].split()) for i in bad]), rep); break
            if r['subs'] is not None and (len(r['subs']) != 1 or r['subs'][0] != obj.__nutils_hash__.hex() or any(len(nm) != 4 for nm in r['names'])):
                ok = False
                c.broken_no_input('corr:recursion:layout', 'cache layout is not <dir>/<hash>/<0000..>: %s %s' % (r['subs'], r['names'][:5]), rep); break
            c.traces += 1
        ndis += not ok
    if c.counters.get('rec:model-no-prediction'):
        ndis += 1; c.broken_no_input('corr:recursion:model-domain', 'the idealised pickle of the model made no prediction for %d histories' % c.counters['rec:model-no-prediction'], {})
    c.obligation('corr:recursion:histories', ndis == 0, 'correspondence', '%d histories' % len(reals))

    # ---- every truncation point of every item file of a finite recursion (oracle: the uncached sequence; the state satisfies `Inv`)
    nbad = 0; npts = 0
    dl = X.deadline('rtrunc')
    for cls in ([RecA2, RecB1] if c.tier == 'quick' else RECS):
        if cls is not RecA2 and X.over('rtrunc', dl): break
        spec = (4, c.rng.choice(['stop', 'raise']), 'tuple' if cls in (RecB1, RecB2) else c.rng.choice(['int', 'array']), 3, 5)
        obj = cls(spec, 'trunc%d' % c.seed)
        specrun = real_iter(None, obj, 9, enabled=False)
        d = X.newdir()
        real_iter(d, obj, 9)
        subs, Ds, names = rec_files(d, 6)
        for i, D in enumerate(Ds):
            if not D: continue
            ks = range(len(D)) if c.tier == 'thorough' else sorted(set([0, 1, len(D) - 1] + [c.rng.randrange(len(D)) for _ in range(12)]))
            for k in ks:
                if npts >= 10 and X.over('rtrunc', dl): break
                write(os.path.join(d, subs[0], '%04d' % i), D[:k])
                r = real_iter(d, obj, 9)
                npts += 1
                want_res = [(('list',) + tuple([x[0] for x in specrun['items'][:i]][-cls.length:] if cls.length else []), i)]
                rep = dict(stream='recursion-truncation', cls=cls.__name__, spec=spec, item=i, k=k)
                c.case(('rtrunc', cls.__name__, i, k), nontrivial=True)
                if r['items'] != specrun['items'] or r['fin'] != specrun['fin']:
                    nbad += 1
                    c.failing_input('recursion-not-transparent', 'after truncating item file %d to %d bytes the iteration differs from the uncached one' % (i, k), rep); break
                _, Ds2, _ = rec_files(d, 6)
                if r['resumed'] != want_res or Ds2 != Ds:
                    nbad += 1
                    c.broken_no_input('corr:recursion:truncation', 'after truncating item file %d: resume called with %s (expected %s), files restored=%s' % (i, r['resumed'], want_res, Ds2 == Ds), rep); break
        # item files that unpickle without error but are ill-typed (what a garbage mixture can look like): must be recomputed
        for i, bad_item in enumerate([('no log', False, 1), (treelog.RecordLog(), 'no bool', 1), (treelog.RecordLog(), 1), 'x']):
            j = i % max(1, len([D for D in Ds if D]))
            write(os.path.join(d, subs[0], '%04d' % j), pickle.dumps(bad_item))
            r = real_iter(d, obj, 9)
            npts += 1
            c.case(('rilltyped', cls.__name__, i), nontrivial=True); c.count('rec:illtyped-item')
            if r['items'] != specrun['items'] or r['fin'] != specrun['fin']:
                nbad += 1
                c.failing_input('recursion-not-transparent:ill-typed-item-file', 'an item file that unpickles to %r (no (RecordLog, bool, value) triple) is not recomputed: iteration ends %r' % (bad_item if isinstance(bad_item, str) else type(bad_item[0]).__name__, r['fin'][:80]),
                                dict(stream='recursion-illtyped', cls=cls.__name__, spec=spec, item=j, content=repr(bad_item)[:80])); break
        X.drop(d)
    c.obligation('corr:recursion:truncation-points', nbad == 0, 'correspondence', '%d truncated item files' % npts)


# =============================================================================================== stream C: concurrent processes

GATES = {'acquiring lock': 'A', 'lock acquired': 'B', 'store': 'D'}


class GateLog(Recorder):
    """logger of a child process: reports the cache protocol points to the harness and waits for permission to go on"""

    def __init__(self, wfd, rfd):
        super().__init__()
        self.wfd, self.rfd = wfd, rfd

    def gate(self, tag):
        os.write(self.wfd, (tag + '\n').encode())
        if os.read(self.rfd, 1) != b'g':
            os._exit(9)

    def write(self, msg, level):
        if level == Level.debug and isinstance(msg, str) and msg.startswith('[cache.function'):
            t = msg.split('] ', 1)[1]
            if t in GATES:
                self.gate(GATES[t])
            elif t.startswith('load'):
                os.write(self.wfd, b'L\n')
            elif t.startswith('failed to load'):
                os.write(self.wfd, b'M\n')
        else:
            super().write(msg, level)


class Proc:
    def __init__(self, X, p, cachedir, kind, seed, ref):
        r1, w1 = os.pipe(); r2, w2 = os.pipe()
        sys.stdout.flush(); sys.stderr.flush()
        pid = os.fork()
        if pid == 0:
            code = 5
            try:
                os.close(r1); os.close(w2)
                log = GateLog(w1, r2)
                STATE['gate'] = lambda k_, s_: log.gate('C')
                STATE['calls'] = 0
                with treelog.set(log), cache.enable(cachedir):
                    try:
                        v = fpay(kind, seed)
                        res = 'ok' if ('ret', canon(v)) == ref['spec'] and log.events == ref['slog'] else 'WRONG'
                    except Exception as e:
                        res = 'ok' if ('exc', type(e).__name__, str(e)) == ref['spec'] else 'RAISED:' + type(e).__name__
                os.write(w1, ('done %s %d\n' % (res, STATE['calls'])).encode())
                code = 0
            finally:
                os._exit(code)
        os.close(w1); os.close(r2)
        self.pid, self.r, self.w, self.p = pid, r1, w2, p
        self.buf = b''
        self.at = None       # gate the process is waiting at
        self.state = 'start'  # start | gate | running | done | dead
        self.result = None

    def go(self):
        os.write(self.w, b'g'); self.state = 'running'; self.at = None

    def kill(self):
        os.kill(self.pid, signal.SIGKILL); os.waitpid(self.pid, 0); self.state = 'dead'; self.at = None

    def close(self):
        if self.state not in ('dead', 'reaped'):
            try: os.kill(self.pid, signal.SIGKILL)
            except ProcessLookupError: pass
            os.waitpid(self.pid, 0)
        for fd in (self.r, self.w):
            try: os.close(fd)
            except OSError: pass


def wait_msgs(procs, timeout):
    """messages (proc, text) that arrive within timeout; returns as soon as at least one arrived"""
    out = []
    live = [q for q in procs if q.state in ('start', 'running')]
    if not live: return out
    end = time.time() + timeout
    while not out:
        left = end - time.time()
        if left <= 0: break
        rd, _, _ = select.select([q.r for q in live], [], [], left)
        for q in live:
            if q.r in rd:
                data = os.read(q.r, 4096)
                if not data:
                    q.buf += b'EOF\n'
                q.buf += data
                while b'\n' in q.buf:
                    line, q.buf = q.buf.split(b'\n', 1)
                    out.append((q, line.decode()))
                if not data: live.remove(q)
    return out


def stream_concurrency(X):
    c = X.c
    NS = 5 if c.tier == 'quick' else 60
    long_t = max(20.0, 200 * X.fork_cost)
    short_t = min(1.0, max(0.15, 3 * X.fork_cost))
    ndis = 0; reqs = []; runs = []
    caught_s = model_caught(X.names.get('fn', []))
    dl = X.deadline('concurrency')
    for sno in range(NS):
        if sno >= 2 and X.over('concurrency', dl): break
        kind = c.rng.choice(['small', 'arrays', 'bigarray', 'raise', 'nutypes'])
        seed = c.rng.randrange(20)
        ref = X.reference(kind, seed)
        isexc = ref['spec'][0] == 'exc'
        D = b'' if isexc else ref['D']
        if ref['D'] is None: continue
        key = expected_key(fpay, 0, (kind, seed), dict(opt=1))
        np_ = c.rng.choice([2, 3, 3])
        WJ = 'W' if len(D) <= 1500 else 'J'   # byte-by-byte steps for small entries, the proved shortcut for big ones
        d = X.newdir()
        path = os.path.join(d, key)
        file0 = b'' if (isexc or c.rng.random() < .7) else D[:c.rng.randrange(len(D))]
        if file0: write(path, file0)
        procs = [Proc(X, p, d, kind, seed, ref) for p in range(np_)]
        acts = []          # model actions
        obs = []           # observation after each model action: dict(states)
        holder = None      # observed lock owner
        pending = set()    # released from gate A, not yet seen at gate B
        at_write = {}      # p -> True when at gate D (model actions deferred)
        infunc = set()
        viol = None
        log = []

        def handle(q, msg):
            nonlocal holder, viol
            if msg == 'B' and holder is not None and holder != q.p and procs[holder].state == 'running':
                # the holder was let go and may have released the lock already: its report can be behind this one
                dispatch(wait_msgs([procs[holder]], long_t))
            log.append((q.p, msg))
            if msg in ('A', 'B', 'C', 'D'):
                q.state = 'gate'; q.at = msg
                if msg == 'B':
                    pending.discard(q.p)
                    if holder is not None and holder != q.p and viol is None:
                        viol = 'process %d acquired the lock while process %d holds it' % (q.p, holder)
                    if holder is None: holder = q.p
                    acts.append('s %d' % q.p)
                elif msg == 'C':
                    infunc.add(q.p)
                    if len(infunc) > 1:
                        viol = 'INFUNC processes %s are inside the wrapped function at the same time' % sorted(infunc)
                    acts.append('s %d' % q.p)
                elif msg == 'D':
                    infunc.discard(q.p)
                    at_write[q.p] = True
            elif msg.startswith('done'):
                q.state = 'done'; q.result = msg.split()[1:]
                infunc.discard(q.p)
                if at_write.pop(q.p, None):
                    acts.append('%s %d %d' % (WJ, q.p, len(D))); acts.append('s %d' % q.p)
                else:
                    acts.append('s %d' % q.p)   # hit (from B) or raising function (from C)
                if holder == q.p: holder = None
            elif msg == 'EOF' and q.state != 'done':
                q.state = 'dead'

        def dispatch(msgs):
            # reports of different processes travel through different pipes: a release ('done') may be read in the same
            # batch as the acquisition it enabled, so releases are handled first
            for q, msg in sorted(msgs, key=lambda x: 0 if x[1].startswith('done') else 1): handle(q, msg)

        try:
            # everybody reaches gate A
            t_end = time.time() + long_t
            while any(q.state == 'start' for q in procs) and time.time() < t_end:
                dispatch(wait_msgs(procs, long_t))
            if any(q.at != 'A' for q in procs):
                raise Infra('concurrency: a child did not reach the first gate: %s' % log)
            for step in range(60):
                live = [q for q in procs if q.state == 'gate']
                running = [q for q in procs if q.state == 'running' and q.p not in pending]
                if not live and not pending and not running: break
                if live and not running:
                    q = c.rng.choice(live)
                    if c.rng.random() < .12:
                        at = q.at
                        q.kill(); log.append((q.p, 'KILL@' + at))
                        infunc.discard(q.p)
                        if at == 'D':
                            at_write.pop(q.p, None)
                            now = read(path)
                            base = obs_base = None
                            # how many bytes of the dump reached the disk before the process died (BufferedRandom flushes in blocks)
                            ks = [k for k in range(0, len(D) + 1) if now == D[:k] + prev_file[k:]]
                            if not ks:
                                viol = viol or 'FILE after a kill during store the file is not an overlay of the new entry over the old content'
                                kq = 0
                            else:
                                kq = ks[0]
                            acts.append('%s %d %d' % (WJ, q.p, kq)); acts.append('k %d' % q.p)
                        else:
                            acts.append('k %d' % q.p)
                        if holder == q.p: holder = None
                    else:
                        at = q.at
                        if at == 'A': pending.add(q.p)
                        if at == 'C': prev_file = read(path)
                        q.go()
                expect_progress = any(q.state == 'running' and q.p not in pending for q in procs) or (pending and holder is None)
                t0 = time.time()
                got = wait_msgs(procs, long_t if expect_progress else short_t)
                if os.environ.get('C18_DEBUG'): c.log('wait %.2fs expect=%s got=%s holder=%s pending=%s states=%s' % (time.time() - t0, bool(expect_progress), [(q.p, m) for q, m in got], holder, sorted(pending), [(q.state, q.at) for q in procs]))
                dispatch(got)
                # drain follow-up messages that are already there
                dispatch(wait_msgs(procs, 0.02))
                if viol and viol.startswith('INFUNC'): break
            if viol is None and any(q.state in ('gate', 'running') for q in procs) and not pending:
                pass
        finally:
            for q in procs: q.close()
        final = read(path)
        results = {q.p: (q.state, q.result) for q in procs}
        rep = dict(stream='concurrency', payload=kind, pseed=seed, nprocs=np_, file0=list(file0), log=log, actions=acts, results=results)
        c.case(('conc', kind, seed, tuple(log)), nontrivial=True)
        if len(c.samples) < 7: c.sample(dict(stream='concurrency', payload=kind, nprocs=np_, observed=log[:40], model_actions=acts[:40]), limit=7)
        c.count('conc:schedules'); c.count('conc:kills', sum(1 for _, m in log if str(m).startswith('KILL')))
        for q in procs:
            c.count('conc:proc:' + q.state)
        # ---- specification oracle
        if viol and viol.startswith('INFUNC'):
            ndis += 1
            c.failing_input('lock-not-exclusive', viol[7:], rep); X.drop(d); continue
        bad = [q.p for q in procs if q.state == 'done' and q.result[0] != 'ok']
        if bad:
            ndis += 1
            c.failing_input('concurrent-callers-wrong-value', 'concurrent callers %s obtained %s instead of the uncached result' % (bad, [results[p] for p in bad]), rep); X.drop(d); continue
        if viol:
            ndis += 1
            c.broken_no_input('corr:lock', viol, rep); X.drop(d); continue
        stuck = [q.p for q in procs if q.state not in ('done', 'dead')]
        if stuck:
            ndis += 1
            c.broken_no_input('corr:lock:progress', 'processes %s never finished (deadlock or lost wake-up): %s' % (stuck, log[-6:]), rep); X.drop(d); continue
        table = '' if isexc else '%s:e 1 1' % bytes_s(D)
        f_s = 'exc 1 1' if isexc else 'ret 1 1'
        reqs.append('par|%s|%s|%s|%s|%s|1|%d|%s' % (table, caught_s, f_s, bytes_s(D), bytes_s(file0), np_, ';'.join(acts)))
        runs.append((rep, procs, final, np_, D))
        X.drop(d)
    c.log('concurrency: real schedules done')
    ans = yield reqs   # one batched call of the Lean driver for all streams (see run)
    c.log('concurrency: model done (%d bytes of requests)' % sum(map(len, reqs)))
    for (rep, procs, final, np_, D), a, rq in zip(runs, ans, reqs):
        if a.startswith('bad-request'):
            raise Infra('C18 driver rejected a request: ' + rq[:300])
        last = dict(f.split('=', 1) for f in a.split(';')[-1].split('&')) if a else dict(procs=','.join(['idle'] * np_), file=bytes_s(rep['file0']), execs='0', holder='-')
        mprocs = last['procs'].split(',')
        ok = True
        nexec = 0
        for q, mp in zip(procs, mprocs):
            if q.state == 'done':
                nexec += int(q.result[1])
                want = 'done %s' % ('exc 1 1 1' if rep['payload'] == 'raise' else 'ret 1 1 %d' % int(q.result[1]))
                ok &= mp == want
            else:
                ok &= mp == 'dead'
        if not ok or last['holder'] != '-' or last['file'].strip() != file_show(final):
            ndis += 1
            c.broken_no_input('corr:lock:schedule', 'final state differs from the model: model procs=%s holder=%s file %d bytes; code %s file %d bytes'
                              % (last['procs'], last['holder'], len(last['file'].split()), rep['results'], len(final)), dict(rep, model=a[-1500:]))
        c.traces += 1
    c.obligation('corr:lock:schedules', ndis == 0, 'correspondence', '%d schedules of 2-3 real processes' % len(runs))



class RecGateLog(Recorder):
    """logger of a child that iterates a Recursion: reports lock/load/store per item; the generator itself gates"""

    def __init__(self, wfd, rfd):
        super().__init__()
        self.wfd, self.rfd = wfd, rfd

    def gate(self, tag):
        os.write(self.wfd, (tag + '\n').encode())
        if os.read(self.rfd, 1) != b'g':
            os._exit(9)

    def write(self, msg, level):
        if level == Level.debug and isinstance(msg, str) and msg.startswith('[cache.Recursion'):
            head, t = msg.split('] ', 1)
            item = head.rsplit('.', 1)[-1]
            tag = {'acquiring lock': 'A', 'lock acquired': 'B', 'store': 'S', 'load': 'L'}.get(t)
            if tag and item.isdigit():
                os.write(self.wfd, ('%s %d\n' % (tag, int(item))).encode())
        else:
            super().write(msg, level)


class RecProc(Proc):
    def __init__(self, p, cachedir, obj, n, want):
        r1, w1 = os.pipe(); r2, w2 = os.pipe()
        sys.stdout.flush(); sys.stderr.flush()
        pid = os.fork()
        if pid == 0:
            code = 5
            try:
                os.close(r1); os.close(w2)
                log = RecGateLog(w1, r2)
                STATE['rgate'] = lambda i: log.gate('C %d' % i)
                r = real_iter(cachedir, obj, n, logger=log)
                res = 'ok' if ([x[0] for x in r['items']], r['fin']) == want else 'WRONG'
                os.write(w1, ('done %s %d\n' % (res, r['ncomp'])).encode())
                code = 0
            finally:
                os._exit(code)
        os.close(w1); os.close(r2)
        self.pid, self.r, self.w, self.p = pid, r1, w2, p
        self.buf = b''; self.at = None; self.state = 'running'; self.result = None
        self.msgs = []


def stream_recursion_concurrency(X):
    """two real processes iterate the same Recursion; one is held inside `next(resume)` of item i (it owns the lock of
    item file i): the other must read the finished items and then wait, never compute item i at the same time"""
    c = X.c
    NS = 3 if c.tier == 'quick' else 30
    long_t = max(20.0, 200 * X.fork_cost)
    short_t = min(1.0, max(0.2, 3 * X.fork_cost))
    nbad = 0
    dl = X.deadline('rconc')
    for sno in range(NS):
        if sno >= 2 and X.over('rconc', dl): break
        cls = c.rng.choice([RecA1, RecA2, RecB1])
        nitems = c.rng.randint(3, 5)
        spec = (nitems, 'stop', 'tuple' if cls is RecB1 else 'int', c.rng.randint(1, 9), c.rng.randint(0, 99))
        obj = cls(spec, 'conc%d-%d' % (c.seed, sno))
        specrun = real_iter(None, obj, nitems + 2, enabled=False)
        want = ([x[0] for x in specrun['items']], specrun['fin'])
        hold = c.rng.randrange(nitems)          # item at which process 0 is held inside the generator
        kill = c.rng.random() < .4
        d = X.newdir()
        log = []
        viol = None
        procs = []
        rep = dict(stream='recursion-concurrency', cls=cls.__name__, spec=spec, hold=hold, kill=kill, log=log)

        def pump(timeout, until=None):
            """collect messages; returns True when `until(q, msg)` was seen"""
            end = time.time() + timeout
            hit = False
            while time.time() < end and not hit:
                got = wait_msgs([q for q in procs if q.state == 'running'], max(0.01, end - time.time()))
                for q, m in got:
                    log.append((q.p, m)); q.msgs.append(m)
                    if m.startswith('C'): q.state = 'gate'; q.at = m
                    if m.startswith('done'): q.state = 'done'; q.result = m.split()[1:]
                    if until and until(q, m): hit = True
                if not got: break
            return hit
        try:
            p0 = RecProc(0, d, obj, nitems + 2, want); procs.append(p0)
            # process 0 computes items 0..hold-1 and is then held inside next(resume) for item `hold`
            ok0 = True
            for i in range(hold + 1):
                ok0 &= pump(long_t, lambda q, m: q is p0 and m == 'C %d' % i)
                if i < hold: p0.go()
            if not ok0:
                raise Infra('recursion concurrency: process 0 did not reach item %d: %s' % (hold, log))
            p1 = RecProc(1, d, obj, nitems + 2, want); procs.append(p1)
            # process 1 must load items < hold and then wait for the lock of item `hold`
            pump(long_t, lambda q, m: q is p1 and m == 'A %d' % hold)
            pump(short_t)
            if 'B %d' % hold in p1.msgs:
                viol = 'process 1 acquired the lock of item file %d while process 0 computes that item' % hold
                pump(long_t, lambda q, m: q is p1 and m.startswith('C'))
                if p1.state == 'gate' and p1.at == 'C %d' % hold:
                    viol = 'INFUNC both processes are inside next(resume) for item %d at the same time' % hold
            if kill and not viol:
                p0.kill(); log.append((0, 'KILL'))
            # let everybody run to the end
            for _ in range(4 * nitems + 8):
                for q in procs:
                    if q.state == 'gate': q.go()
                if all(q.state in ('done', 'dead') for q in procs): break
                pump(long_t, lambda q, m: m.startswith('C') or m.startswith('done'))
        finally:
            for q in procs: q.close()
        c.case(('rconc', cls.__name__, spec, hold, kill), nontrivial=True); c.count('rconc:schedules'); c.count('rconc:kill' if kill else 'rconc:nokill')
        subs, files, names = rec_files(d, nitems + 1)
        X.drop(d)
        if viol and viol.startswith('INFUNC'):
            nbad += 1; c.failing_input('recursion-lock-not-exclusive', viol[7:], rep); continue
        bad = [q.p for q in procs if q.state == 'done' and q.result[0] != 'ok']
        if bad:
            nbad += 1; c.failing_input('recursion-concurrent-wrong-sequence', 'concurrent iterations %s yield a different sequence than the uncached one' % bad, rep); continue
        stuck = [q.p for q in procs if q.state not in ('done', 'dead')]
        if viol or stuck:
            nbad += 1; c.broken_no_input('corr:recursion:lock', viol or 'processes %s never finished' % stuck, rep); continue
        # items before `hold` were loaded by process 1, not recomputed; afterwards every item file is complete
        loaded = [m for m in p1.msgs if m.startswith('L ')]
        if [m for m in loaded[:hold]] != ['L %d' % i for i in range(hold)] or any(not f for f in files):
            nbad += 1; c.broken_no_input('corr:recursion:lock', 'process 1 did not load the finished items %s, or item files incomplete' % loaded, rep)
    c.obligation('corr:recursion:lock', nbad == 0, 'correspondence', '%d two-process schedules on the item-file lock' % NS)

# =============================================================================================== stream U: users of cache.function

def stream_users(X):
    c = X.c
    from nutils import mesh, function, solver
    nbad = 0
    n_el = 2 + c.rng.randrange(3)
    domain, geom = mesh.rectilinear([n_el])
    basis = domain.basis('std', degree=1)
    u = function.dotarg('u', basis)
    J = function.jacobian(geom)
    energy = domain.integral((function.grad(u, geom)**2).sum(-1) * J + u**2 * J - 2 * u * J, degree=2)
    sqr = domain.boundary['left'].integral(u**2 * function.jacobian(geom, 0), degree=2)
    with treelog.set(Recorder()):
        cons = solver.System(sqr, trial='u').solve_constraints(droptol=1e-10)
    users = [('System.solve_constraints', lambda: solver.System(sqr, trial='u').solve_constraints(droptol=1e-10)),
             ('System.solve', lambda: solver.System(energy, trial='u').solve(constrain=cons)),
             ('_with_solve.solve_withinfo', lambda: solver.newton('u', residual=energy.derivative('u'), constrain=cons['u']).solve_withinfo(1e-8))]
    import warnings
    dl = X.deadline('users')
    for name, fn in users:
        def runit(d, enabled=True):
            rec = Recorder()
            with treelog.set(rec), warnings.catch_warnings(), (cache.enable(d) if enabled else cache.disable()):
                warnings.simplefilter('ignore')
                try: out = ('ret', canon(fn()))
                except Exception as e: out = ('exc', type(e).__name__, str(e))
            return out, rec.events, rec.trace
        spec, slog, _ = runit(None, enabled=False)
        d = X.newdir()
        out, log, trace = runit(d)
        files = os.listdir(d)
        rep = dict(stream='users', user=name)
        if out != spec or log != slog:
            nbad += 1; c.failing_input('user-not-transparent:' + name, '%s under cache.enable differs from the uncached call' % name, rep); continue
        if len(files) != 1 or not any(t.startswith('store') for t in trace):
            nbad += 1; c.broken_no_input('corr:users', '%s is expected to store exactly one cache entry, found %s, trace %s' % (name, files, trace), rep); continue
        path = os.path.join(d, files[0]); D = read(path)
        ks = [None] + sorted(set([0, 1, len(D) - 1] + [c.rng.randrange(len(D)) for _ in range(4 if c.tier == 'quick' else 60)]))
        for ik, k in enumerate(ks):
            if ik >= 3 and X.over('users', dl): break
            if k is not None: write(path, D[:k])
            out, log, trace = runit(d)
            c.case(('user', name, k), nontrivial=True); c.count('users:' + name)
            rep = dict(stream='users', user=name, k=k, n=len(D))
            if out != spec or log != slog:
                nbad += 1; c.failing_input('user-not-transparent:' + name, '%s after cutting its cache entry to %s bytes differs from the uncached call' % (name, k), rep); break
            hit = any(t.startswith('load') for t in trace) and not any(t.startswith('store') for t in trace)
            if hit != (k is None) or read(path) != D:
                nbad += 1; c.broken_no_input('corr:users', '%s with entry cut to %s bytes: trace %s, file restored=%s' % (name, k, trace, read(path) == D), rep); break
        X.drop(d)
    if not hasattr(mesh.parsegmsh, '__wrapped__'):
        nbad += 1; c.broken_no_input('corr:users', 'mesh.parsegmsh is no longer wrapped by cache.function', dict(stream='users'))
    c.obligation('corr:users', nbad == 0, 'correspondence', 'System.solve, System.solve_constraints, newton.solve_withinfo end to end; parsegmsh decoration')


# =============================================================================================== main

def run(c):
    c.rule = ('function histories: random sequences over {complete call, call in a child process, child really killed after k bytes of the dump, transient '
              'exception in the wrapped function, call with caching disabled} on 10 payload kinds (incl. a deterministically raising function) x 7 initial file states '
              '(empty, proper prefix, complete, complete+stale tail, old 3-tuple format ok/fail); truncation: every byte offset of the stored entry of 8-12 payload '
              'kinds; recursion histories: random sequences over {take n, child killed at item i after k bytes, transient exception at item i} on Recursion '
              'subclasses of length 0-3 with finite/infinite/raising sequences; concurrency: 2-3 real processes stepped through lock/load/compute/store gates '
              'by random schedules incl. SIGKILL.  A case is non-trivial when it has more than one event or a non-empty initial state; distinct by its full data')
    c.assumptions += ['pickle hypotheses H0-H3 (Props/C18.lean `Hyps`/`RHyps`) hold for the entries written: validated by fault enumeration on the real pickle in every run, not proved',
                      'H3 (deterministic dump) is known to fail for set-valued results (PYTHONHASHSEED) and for nutils topologies (26 bytes longer when an equal topology is alive in the process); the reachable consequences are run through the real decorator by stream_two_crashes',
                      'a killed process leaves a prefix of its dump over the old content (no torn/zero-filled blocks, i.e. process crash, not power loss)',
                      'distinct (function, arguments) pairs use distinct files: injectivity of nutils_hash is property C17',
                      'flock semantics of the OS (exclusive, released on process death) are trusted; the msvcrt and fallback branches of _lock_file are not exercised (Linux)',
                      'mesh.parsegmsh needs meshio which is not installed: only its decoration by cache.function is checked']
    X = Ctx(c)
    src_path = os.path.join(os.environ.get('NUTILS_SRC', '/repo/src'), 'nutils', 'cache.py')
    if os.path.realpath(cache.__file__) != os.path.realpath(src_path):
        raise Infra('nutils.cache imported from %s, expected %s' % (cache.__file__, src_path))
    names = extract_caught(open(src_path).read())
    X.names = names
    ok_extract = bool(names.get('fn')) and bool(names.get('rec'))
    c.obligation('extract:caught-tuples', ok_extract, 'extraction', str(names))
    c.write_generated('C18.lean', generated_lean(names, None))
    X.caught_fn_classes = resolve_classes(names.get('fn', [])) or (EOFError, pickle.UnpicklingError, IndexError)
    X.caught_rec_classes = resolve_classes(names.get('rec', [])) or (EOFError, pickle.UnpicklingError, IndexError)
    c.extra['caught'] = names
    broken = c.build_and_audit()
    c.log('built and audited')
    set_mem_limit(8)

    only = os.environ.get('C18_ONLY')
    pending = []
    for st in (stream_hypotheses, stream_h3_processes, stream_truncation, stream_function_histories, stream_mixture_exploration, stream_two_crashes, stream_keys,
               stream_recursion, stream_concurrency, stream_recursion_concurrency, stream_users):
        if only and st.__name__ not in only.split(','): continue
        g = st(X)
        if g is not None:   # generator stream: first the REAL runs, later (after the batched model call) the comparison
            pending.append((st.__name__, g, next(g)))
        c.log('done', st.__name__, '(real part)' if g is not None else '')
    ans = X.model([r for _, _, reqs in pending for r in reqs])
    c.log('model answered %d requests' % len(ans))
    off = 0
    for name, g, reqs in pending:
        try:
            g.send(ans[off:off + len(reqs)])
        except StopIteration:
            pass
        off += len(reqs)
        c.log('done', name, '(comparison)')

    if not ok_extract:
        c.broken_no_input('extract:caught-tuples', 'could not locate the except clauses around pickle.load in cache.py: %s' % names, dict(names=names))
    found = [v for v in c.violations if not v[2].startswith('broken:')]
    for b in broken:
        if found:
            c.log('proof/generated table broken (%s); failing input(s) found by the streams: %s' % (b[:200], [v[2] for v in found]))
        else:
            c.broken_no_input('proof', b, dict(detail=b))
    shutil.rmtree(X.root, ignore_errors=True)
