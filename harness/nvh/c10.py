"""C10 — topology operations conserve the domain.

Ties (all on the REAL nutils code, every run):

(M) mechanism correspondence with the Lean model `lean/NutilsVerif/Model/C10.lean` (driver `Drivers/C10.lean`):
    * hier   — random histories of refined / refined_by (indices, sub-topologies, transform chains) / `&` / slices on real
               structured bases (1-3D, periodic, sliced, pre-refined): the element list of the real HierarchicalTopology (level,
               multi-index, in element order) is compared with the model; boundary and interfaces (with opposite element) are
               extracted from the transform chains and compared with an exact integer recomputation.
    * grid   — real StructuredTopology / SubsetTopology (subset, `-`, groups) of a random cell mask: connectivity table, boundary
               faces and interfaces (element, face, opposite element, opposite face) against the model.
    * trim1d — real `LineReference.trim` (bisection, binning), `baseref - ref`, negated level set: reference trees, volumes and
               exposed end points against the model; plus real 1-D `topo.trim` on line meshes.
    * axis   — real `transformseq.DimAxis / IntAxis` objects through random refined / slice / boundary layer / interface layer /
               opposite pipelines against the Lean axis model (`Model/C10Axis.lean`) and an exact enumeration of the cells the axis
               must list (theorems `axis_refined_children`, `axis_refined_boundary_child`, `axis_slice`).
(S') exact integer oracle without model: sbnd (nvh/c10x.py) — slices and uniform refinements of (periodic) boxes, then boundary /
     refine in all orders, named groups, boundary of the boundary, refined interfaces, every face located by the real lookup.
(S'') trimnodal (nvh/c10x.py, worker processes) — trimming with zero-rich NODAL level sets (partial faces between neighbours):
     partition, per-element divergence theorem, perimeter bookkeeping, closed boundary, shared cut.
(S) specification oracle on real code for everything else (simplex, mixed, multipatch, products, n-d trimming with mosaics, unions):
    measured identities with tolerance 1e-10 (>= 1e-8 is a failing input): volume conserved by refinement, pos + neg = whole after
    trimming, closed boundary  ∮ n = 0, divergence identity with a discontinuous weight w
        ∫ d·w dV = ∮_boundary w x·n  -  ∫_interfaces jump(w x)·n
    (holds iff every interior face is listed exactly once between its two adjacent elements), opposite normals on interfaces,
    interface count against the connectivity table.

The property oracle is always the exact recomputation / the measured identity, never "model != code" alone.
"""
import itertools, math, traceback
from fractions import Fraction
import numpy
from .common import Infra
from . import c10x

TOL = 1e-10
FAIL = 1e-8


# ================================================================ helpers: exceptions as outcomes

def classify_exc(e):
    s = str(e)
    n = type(e).__name__
    if n == 'GeomError':
        return 'inconsistent:geometry'
    if isinstance(e, AttributeError) and "'connectivity'" in s:
        return 'unsupported:no-connectivity'           # boundary/interfaces of a topology without connectivity: by design
    if isinstance(e, AttributeError) and 'MosaicReference' in s and 'child_refs' in s:
        return 'known:mosaic-child_refs'
    if isinstance(e, NotImplementedError):
        return 'rejected:NotImplementedError'
    if isinstance(e, (ValueError, AssertionError)) or n == 'SkipTest':
        return 'rejected:' + n
    return 'crash:' + n


def short_tb(e):
    tb = traceback.extract_tb(e.__traceback__)
    return '%s: %s @ %s' % (type(e).__name__, str(e)[:160], ' <- '.join('%s:%d' % (f.name, f.lineno) for f in tb[-3:][::-1]))


# ================================================================ helpers: exact geometry from transform chains

class GeomError(Exception):
    """the transform chains of the real topology are geometrically inconsistent (detected by the harness extraction)"""


def _cube(n):
    return numpy.array(list(itertools.product([0., 1.], repeat=n)), dtype=float).reshape(2**n, n)


def chain_box(chain, nd):
    """bounding box (lo, hi) in global index coordinates of the image of the reference cube under a structured chain
    (root, Index*nd, children..., edges...) -- all values are small dyadic numbers, exact in floats"""
    from nutils import transform
    idx = []
    for t in chain[1:1+nd]:
        if not isinstance(t, transform.Index):
            raise GeomError('not a structured chain: %r' % (chain,))
        idx.append(int(t.index))
    tail = chain[1+nd:]
    fromdims = tail[-1].fromdims if tail else nd
    pts = _cube(fromdims)
    pts = transform.apply(tail, pts) if tail else pts
    pts = numpy.asarray(pts, dtype=float) + numpy.array(idx, dtype=float)
    return pts.min(0), pts.max(0)


def _exact_int(v):
    r = round(v)
    if r != v:
        raise GeomError('non-integer coordinate %r' % v)
    return int(r)


def box_cell(lo, hi):
    size = hi - lo
    if not (size == size[0]).all() or size[0] <= 0:
        raise GeomError('not a cube: %r %r' % (lo, hi))
    L = -math.log2(size[0])
    if L != int(L):
        raise GeomError('not dyadic: %r' % size[0])
    L = int(L)
    return L, tuple(_exact_int(v * 2**L) for v in lo)


def chain_cell(chain, nd):
    return box_cell(*chain_box(chain, nd))


def face_of(topo, chain, nd, cellcache):
    """(owner element index, owner cell, axis, side(+1/-1), face box) of a face chain, the owner found by the real lookup"""
    try:
        ielem, tail = topo.transforms.index_with_tail(chain)
    except ValueError:
        try: where = ' (box %r)' % (tuple(map(tuple, chain_box(chain, nd))),)
        except Exception: where = ''
        raise GeomError('a face chain of the boundary / interfaces is not a face of any element of the topology' + where)
    if ielem not in cellcache:
        cellcache[ielem] = chain_box(topo.transforms[ielem], nd)
    olo, ohi = cellcache[ielem]
    lo, hi = chain_box(chain, nd)
    flat = [k for k in range(nd) if lo[k] == hi[k]]
    if len(flat) != 1:
        raise GeomError('face is not axis aligned: %r %r' % (lo, hi))
    k = flat[0]
    if lo[k] == ohi[k]: s = 1
    elif lo[k] == olo[k]: s = -1
    else: raise GeomError('face %r %r not on the hull of its owner %r %r' % (lo, hi, olo, ohi))
    if (lo < olo).any() or (hi > ohi).any():
        raise GeomError('face sticks out of its owner')
    return int(ielem), box_cell(olo, ohi), k, s, (tuple(lo), tuple(hi))


# ================================================================ exact oracle for hierarchical cell sets

class HierSpec:
    """exact integer recomputation of what boundary / interfaces of a set of (level, multi-index) cells must be,
    over a base box lo..hi (level 0) with periodic axes"""

    def __init__(self, lo, hi, per):
        self.lo, self.hi, self.per, self.nd = tuple(lo), tuple(hi), tuple(per), len(lo)

    def check_partition(self, cells):
        """no overlap, exact cover: returns None or a description of the defect"""
        S = set(cells)
        if len(S) != len(cells):
            return 'duplicate element'
        for (l, idx) in cells:
            for a in range(1, l+1):
                if (l-a, tuple(i >> a for i in idx)) in S:
                    return 'element (%d,%s) overlaps its ancestor' % (l, idx)
            for k in range(self.nd):
                if not self.lo[k] << l <= idx[k] < self.hi[k] << l:
                    return 'element (%d,%s) outside the base' % (l, idx)
        vol = sum(Fraction(1, 2**(self.nd*l)) for l, idx in cells)
        want = math.prod(h - l for l, h in zip(self.lo, self.hi))
        if vol != want:
            return 'measure %s != %s' % (vol, want)
        return None

    def neighbour(self, l, idx, k, s):
        n = list(idx); n[k] += s
        lo, hi = self.lo[k] << l, self.hi[k] << l
        if not lo <= n[k] < hi:
            if not self.per[k]:
                return None
            n[k] = lo + (n[k] - lo) % (hi - lo)
        return tuple(n)

    def faces(self, cells):
        """(boundary, interfaces): boundary = set of (cell, k, s); interfaces = set of frozenset({(cellA,k,sA),(cellB,k,sB)}) + the
        sub-face box, keyed by the finer side"""
        S = set(cells)
        bnd, ifc = set(), set()
        for c in cells:
            l, idx = c
            for k in range(self.nd):
                for s in (1, -1):
                    n = self.neighbour(l, idx, k, s)
                    if n is None:
                        bnd.add((c, k, s)); continue
                    for a in range(0, l+1):
                        o = (l-a, tuple(i >> a for i in n))
                        if o in S:
                            ifc.add((tuple(sorted([(c, k, s), (o, k, -s)])), c if a else min(c, o)))
                            break
        return bnd, ifc


# ================================================================ 1-D references

def ref1_tree(ref, nbins):
    n = type(ref).__name__
    if n == 'LineReference': return 'F'
    if n == 'EmptyLike': return 'E'
    if n == 'WithChildrenReference': return 'K(%s)' % ','.join(ref1_tree(r, nbins) for r in ref.child_refs)
    if n == 'MosaicReference':
        mid = float(numpy.asarray(ref._midpoint)[0])
        xi = (1 - mid) * nbins
        if xi != int(xi): return 'C?:%r' % mid
        return 'C%d:%d' % (bool(ref._edge_refs[0]), int(xi))
    return '?' + n


def ref1_cuts(ref):
    out = []
    for trans, eref in ref.edges[2:]:
        if eref:
            out.append((float(trans.apply(numpy.zeros((1, 0)))[0, 0]), float(trans.ext[0]) > 0))
    return sorted(out)


def no_zero_pair(lv):
    return not any(a == 0 and b == 0 for a, b in zip(lv, lv[1:]))


# ================================================================ numeric measurements (spec oracle S)

def measure(topo, x, rng, deg=2, want_faces=True):
    """measured identities of one topology with geometry x; returns dict of numbers (floats)"""
    from nutils import function
    J = function.J(x); n = function.normal(x)
    nd = topo.ndims
    out = dict(n=len(topo), vol=float(topo.integrate(J, degree=deg)))
    if not want_faces:
        return out
    w = None
    try:
        basis = topo.basis('discont', degree=0)
        coeffs = numpy.array([rng.randrange(1, 9) / 4. for _ in range(len(basis))])
        w = basis @ coeffs
    except Exception as e:
        out['w'] = classify_exc(e)
    b = topo.boundary
    funcs = [n * J, (x @ n) * J, J] + ([w * (x @ n) * J, basis * (x @ n) * J] if w is not None else [])
    r = b.integrate(funcs, degree=deg)
    out.update(nb=len(b), closed=float(numpy.abs(r[0]).max()), flux=float(r[1]), bmeas=float(r[2]))
    i = topo.interfaces
    nopp = function.opposite(n)
    funcs = [J, (n + nopp) * J, (function.jump(x) @ n) * J] + ([(function.jump(w * x) @ n) * J, (function.jump(basis[:, None] * x[None, :]) @ n) * J] if w is not None else [])
    ri = i.integrate(funcs, degree=deg)
    out.update(ni=len(i), imeas=float(ri[0]), nsum=float(numpy.abs(ri[1]).max()), jflux=float(ri[2]))
    out['div'] = out['flux'] - out['jflux'] - nd * out['vol']
    if w is not None:
        rv = topo.integrate([w * nd * J, basis * nd * J], degree=deg)
        out['wdiv'] = float(r[3]) - float(ri[3]) - float(rv[0])
        # the divergence theorem for every single element, its hull assembled from the boundary and both sides of the interfaces
        out['ediv'] = float(numpy.abs(r[4] - ri[4] - rv[1]).max())
    # sum of the element perimeters (from the element references alone) = |boundary| + 2 |interfaces|
    try:
        from nutils import topology
        erefs = topo.references.edges
        sel = numpy.array([k for k, er in enumerate(erefs) if er], dtype=int)
        et = topo.transforms.edges(topo.references)[sel]
        alle = topology.TransformChainsTopology(topo.space, erefs[sel], et, et)
        out['perimeter'] = float(alle.integrate(J, degree=deg)) - out['bmeas'] - 2 * out['imeas']
    except Exception as e:
        out['perimeter-exc'] = classify_exc(e)
    return out


def conn_pairs(topo):
    """number of connected (element, edge) slots with a non-empty edge reference, from the connectivity table"""
    conn = topo.connectivity
    cnt = 0
    for ielem, (ref, row) in enumerate(zip(topo.references, conn)):
        erefs = ref.edge_refs
        for iedge, j in enumerate(row):
            if j >= 0 and erefs[iedge]:
                cnt += 1
    return cnt


# ================================================================ the check

def run(c):
    c.rule = ('hier: random base (1-3D box, random periodic axes, optional slice, optional pre-refinement) and a random history of '
              'refined / refined_by(random subset given as indices, sub-topology or chains) / & / final slice; grid: random shape, '
              'periodic axes and cell mask realised by subset / minus / groups; trim1d: random sample vectors (small integers times a '
              'dyadic scale, zeros and ties included), maxrefine 0-3, ndivisions 1-8; numeric: random operation pipelines on structured, '
              'simplex, mixed, multipatch and product meshes with dyadic level sets; trimnodal: level sets given by random integer nodal values '
              'on the vertex grid of the deepest trimming level (iid zero-rich, smooth with zeroed stretches of grid lines, products of linear '
              'factors) through trim / trim(leveltopo=uniform or hierarchical refinement); sbnd: random interleavings of slices and uniform '
              'refinements of (periodic) boxes, then boundary / refine in all orders.  A case is non-trivial when it refines / selects / '
              'cuts at least one element; distinct by its full description')
    c.assumptions += [
        'the Lean model covers box-shaped structured bases (all elements are cubes); simplex / mixed / multipatch / product meshes and '
        'n-d mosaics are checked by measured identities (tolerance 1e-10, failing input from 1e-8), not by theorems',
        'boundary / interfaces of topologies without a connectivity table (take, &, |, subsets of hierarchical topologies) raise '
        "AttributeError 'connectivity' in the pinned tree; that outcome is treated as unsupported-by-design, not as a violation",
        'NotImplementedError / ValueError / AssertionError raised by an operation are rejections (outcomes), other exception types are crashes',
        'level values fed to trim are small dyadic numbers so that float evaluation is exact; quadrature of degree 2 integrates the '
        'measured integrands exactly on affine elements',
        'geometry of structured meshes is the index geometry of mesh.rectilinear (unit cells)']
    broken = c.build_and_audit()
    quick = c.tier == 'quick'
    ctx = Ctx(c, quick)
    c.log('built + audited')
    import multiprocessing, threading
    # ---- trimnodal stream: pure function of a seed, evaluated in worker processes while the Lean driver and the other streams run
    njobs = 80 if quick else 1800
    jobs = [(c.rng.getrandbits(40), quick) for _ in range(njobs)]
    with multiprocessing.get_context('fork').Pool(6 if quick else 10) as pool:
        pending = pool.map_async(c10x.trimnodal_case, jobs, chunksize=2 if quick else 8)
        # ---- generate all cases on the real code, collect model requests
        ctx.known_probes(); c.log('probes done')
        ctx.gen_trim1d(150 if quick else 4000); c.log('trim1d generated')
        ctx.gen_grid(80 if quick else 1500); c.log('grid generated')
        ctx.gen_hier(70 if quick else 650); c.log('hier generated')
        ctx.gen_axis(150 if quick else 4000)
        ctx.gen_sbnd(60 if quick else 1000); c.log('axis + sbnd done')
        # ---- one batch to the Lean model (in a thread: the driver is a separate process), the numeric stream meanwhile
        box = {}
        def ask():
            try: box['ans'] = c.model([r for r, _ in ctx.requests])
            except BaseException as e: box['exc'] = e
        th = threading.Thread(target=ask); th.start()
        try:
            ctx.numeric(48 if quick else 900); c.log('numeric done')
        finally:
            th.join()
        if 'exc' in box: raise box['exc']
        ans = box['ans']; c.log('model answered %d requests' % len(ans))
        for (req, cb), a in zip(ctx.requests, ans):
            cb(req, a)
        ctx.finish_structural()
        ctx.finish_numeric()
        try:
            recs = pending.get(timeout=900 if quick else 6000)
        except multiprocessing.TimeoutError:
            raise Infra('trimnodal workers timed out')
    ctx.finish_trimnodal(recs); c.log('trimnodal done')
    import os
    t = os.times()
    c.extra['cpu_seconds'] = dict(parent=round(t.user + t.system, 1), children=round(t.children_user + t.children_system, 1))
    c.log('cpu: parent %.0fs, children (lake, lean driver, workers) %.0fs' % (t.user + t.system, t.children_user + t.children_system))
    for b in broken:
        c.broken_no_input('proof', b, dict(detail=b))


class Ctx:
    def __init__(self, c, quick):
        self.c = c; self.rng = c.rng; self.quick = quick
        self.requests = []
        self.bad = {}          # stream -> number of disagreements

    def req(self, line, cb):
        self.requests.append((line, cb))

    def disagree(self, stream, what, replay):
        self.bad[stream] = self.bad.get(stream, 0) + 1
        self.c.broken_no_input('corr:' + stream, what, replay)

    def fail(self, stream, sig, what, replay):
        if self.c.failing_input(sig, what, replay):      # False for an open known finding
            self.bad[stream] = self.bad.get(stream, 0) + 1

    # ------------------------------------------------------------ known / candidate findings: deterministic probes
    def known(self, sig, still_fails, what, replay, untriaged_ok=False):
        """verdict of a deterministic probe of a recorded minimal input: an OPEN entry of known_findings.json is re-run and reported
        through report_known_still_failing (one KNOWN-FINDING line while it fails, silent once fixed); without an open entry a
        failure is a failing input like any other"""
        c = self.c
        e = c.match_known(sig)
        if e is not None:
            c.report_known_still_failing(e, bool(still_fails))
            self.reported.add(e.get('id'))
        elif still_fails:
            if untriaged_ok and not any(f.get('signature') == sig for f in c.findings):
                # reported to the maintainer of known_findings.json, not yet triaged: visible in the log and the evidence, no verdict
                c.log('note: untriaged candidate finding %s: %s' % (sig, what)); c.count('untriaged-candidate:' + sig)
                c.extra.setdefault('untriaged_candidates', []).append(dict(signature=sig, what=what, replay=replay))
            else:
                c.failing_input(sig, what, replay)

    def known_probes(self):
        from nutils import mesh, function
        c = self.c
        self.reported = set()
        topo, x = mesh.rectilinear([4])
        J = function.J(x); n = function.normal(x)
        # trimmed, then refined_by the element that contains the cut: the trimmed end point must stay on the boundary
        sig = 'trimmed-then-refined_by:boundary-lost'
        try:
            t = topo.trim(x[0] - 1.3, maxrefine=2)
            h = t.refined_by([0])
            pts = sorted(float(v) for v in h.boundary.sample('gauss', 1).eval(x).ravel())
            closed = float(numpy.abs(h.boundary.integrate(n * J, degree=1)).max())
            c.count('probe:trim-refined_by')
            self.known(sig, closed > FAIL, 'boundary of rectilinear([4]).trim(x-1.3,maxrefine=2).refined_by([0]) is %r: the trimmed end point is lost, the outward normals integrate to %g' % (pts, closed),
                       dict(stream='probe', mesh='rectilinear([4])', ops=['trim(x-1.3,maxrefine=2)', 'refined_by([0])', 'boundary'], boundary_points=pts, closedness=closed))
        except Exception as e:
            self.known(sig, False, '', {})
            c.failing_input('trimmed-then-refined_by:' + type(e).__name__, 'rectilinear([4]).trim(x-1.3,maxrefine=2).refined_by([0]).boundary raises ' + short_tb(e), dict(stream='probe', exc=short_tb(e)))
        sig = 'trimmed-then-refined_by:AttributeError'
        try:
            t = topo.trim(x[0] - 1.3, maxrefine=0)
            h = t.refined_by([0])
            vol = float(h.integrate(J, degree=1))
            self.known(sig, False, '', {})
            if abs(vol - float(t.integrate(J, degree=1))) > FAIL:
                c.failing_input('trimmed-then-refined_by:volume', 'refined_by changes the volume of a trimmed topology', dict(stream='probe'))
        except Exception as e:
            cls = classify_exc(e)
            self.known(sig, cls == 'known:mosaic-child_refs', 'rectilinear([4]).trim(x-1.3,maxrefine=0).refined_by([0]) raises ' + short_tb(e),
                       dict(stream='probe', mesh='rectilinear([4])', ops=['trim(x-1.3,maxrefine=0)', 'refined_by([0])'], exc=short_tb(e)))
            if cls != 'known:mosaic-child_refs' and not cls.startswith('rejected'):
                c.failing_input('trimmed-then-refined_by:' + type(e).__name__, 'refined_by of a trimmed topology raises ' + short_tb(e), dict(stream='probe', exc=short_tb(e)))
        # negative element index (fixed in the pinned tree; the entry, if any, is closed: a failure is a violation)
        try:
            h = topo.refined_by([-1])
            vol = float(h.integrate(J, degree=1))
            c.count('probe:refined_by-negative')
            self.known('refined_by:negative-index-overlap', abs(vol - 4) > FAIL, 'rectilinear([4]).refined_by([-1]) keeps element 3 and adds its children: %d elements, volume %g instead of 4' % (len(h), vol),
                       dict(stream='probe', mesh='rectilinear([4])', ops=['refined_by([-1])'], nelems=len(h), volume=vol))
        except Exception as e:
            c.count('probe:refined_by-negative:' + classify_exc(e))
        # periodic axis of length 1: the subset that selects everything must have the same interfaces as the topology itself
        sig = 'subset-interfaces:periodic-axis-of-length-1'
        try:
            p, xp = mesh.rectilinear([1, 2], periodic=[0])
            s = p.subset(p.take([0, 1]))
            c.count('probe:periodic-short')
            self.known(sig, len(s.interfaces) != len(p.interfaces), 'rectilinear([1,2],periodic=[0]): subset of all elements has %d interfaces, the topology itself %d (the periodic self-interfaces are lost)' % (len(s.interfaces), len(p.interfaces)),
                       dict(stream='probe', mesh='rectilinear([1,2],periodic=[0])', ops=['subset(take([0,1]))', 'interfaces'], got=len(s.interfaces), want=len(p.interfaces)))
        except Exception as e:
            self.known(sig, False, '', {})
            c.count('probe:periodic-short:' + classify_exc(e))
        # coarse binning of the cut position: a cut rounded onto a vertex of a child leaves the trimmed reference open
        sig = 'trim:coarse-ndivisions:boundary-not-closed'
        try:
            q, xq = mesh.rectilinear([1, 1])
            t = q.trim(-4 * xq[0] + 2 * xq[1] - .5, maxrefine=1, ndivisions=1)
            r = t.boundary.integrate(function.normal(xq) * function.J(xq), degree=1)
            c.count('probe:coarse-ndivisions')
            self.known(sig, float(numpy.abs(r).max()) > FAIL, 'rectilinear([1,1]).trim(-4x+2y-.5,maxrefine=1,ndivisions=1): the outward normals of the boundary integrate to %r instead of 0' % ([float(v) for v in r],),
                       dict(stream='probe', mesh='rectilinear([1,1])', ops=['trim(-4*x+2*y-.5,maxrefine=1,ndivisions=1)', 'boundary'], normal_integral=[float(v) for v in r]), untriaged_ok=True)
        except Exception as e:
            self.known(sig, False, '', {})
            c.count('probe:coarse-ndivisions:' + classify_exc(e))
        # every other open entry must have a probe here
        for e in c.findings:
            if e.get('status') == 'open' and e.get('id') not in self.reported:
                c.log('WARNING: open known finding %r of C10 has no probe in harness/nvh/c10.py: it is not re-run' % e.get('id')); c.count('known-finding-without-probe')

    # ------------------------------------------------------------ (c) 1-D trimming
    def gen_trim1d(self, N):
        from nutils import element
        rng = self.rng
        line = element.LineReference()
        corpus = [([-3, -1, 1, 3, 5], 2, 3), ([5, -3], 0, 2), ([3, -5], 0, 2), ([1, -1, 0, 0, 0], 2, 3), ([-1, 0, 0, 0, 0], 2, 3),
                  ([0, 0], 0, 1), ([1, -255], 0, 8), ([-255, 1], 0, 8), ([1, -1, 1, -1, 1, -1, 1, -1, 1], 3, 1), ([0, -1, 0, 1, 0], 2, 2)]
        for icase in range(N + len(corpus)):
            if icase < len(corpus):
                lv, m, nd = corpus[icase]
            else:
                m = rng.choice([0, 0, 1, 1, 2, 2, 3]); nd = rng.choice([1, 2, 3, 4, 8])
                kind = rng.choice(['rand', 'rand', 'linear', 'quad', 'sparse', 'tie'])
                npts = 2**m + 1
                if kind == 'rand':
                    lv = [rng.randint(-9, 9) for _ in range(npts)]
                elif kind == 'linear':
                    a, b = rng.randint(-40, 40), rng.randint(1, 9) * rng.choice([1, -1])
                    lv = [a + b * i for i in range(npts)]
                elif kind == 'quad':
                    a, b = rng.randint(-20, 20), rng.randint(-6, 6)
                    lv = [(i - b) * (i - b) - a for i in range(npts)]
                elif kind == 'sparse':
                    lv = [rng.choice([0, 0, 1, -1, 5]) for _ in range(npts)]
                else:  # exact ties of the binning: crossing at an odd multiple of half a bin
                    nb = 2**nd; k = rng.randrange(0, nb) * 2 + 1
                    lv = [rng.choice([1, -1]) * t for t in [-(k), 2 * nb - k]] if m == 0 else [rng.randint(-9, 9) for _ in range(npts)]
            scale = 2.0**rng.choice([0, 0, -1, -3, 2])
            self._trim1d_case(line, lv, m, nd, scale)

    def _trim1d_case(self, line, lv, m, nd, scale):
        c = self.c
        nb = 2**nd
        levels = numpy.array(lv, dtype=float) * scale
        desc = dict(stream='trim1d', levels=[float(v) for v in levels], maxrefine=m, ndivisions=nd)
        try:
            r = line.trim(levels, maxrefine=m, ndivisions=nd)
            cm = line - r
            rn = line.trim(-levels, maxrefine=m, ndivisions=nd)
            real = dict(r=ref1_tree(r, nb), rv=float(r.volume), rc=ref1_cuts(r), c=ref1_tree(cm, nb), cv=float(cm.volume), cc=ref1_cuts(cm),
                        n=ref1_tree(rn, nb), nv=float(rn.volume))
        except Exception as e:
            real = dict(exc=short_tb(e))
        c.case(('trim1d', tuple(lv), m, nd), nontrivial=min(lv) < 0 < max(lv))
        c.count('trim1d:' + ('exc' if 'exc' in real else 'cut' if 'C' in real['r'] else 'whole'))
        c.sample(dict(desc, real=real.get('r', real.get('exc'))), limit=3)
        # ---- specification oracle (exact): partition by complement, shared cuts with opposite orientation, partition by negation
        if 'exc' in real:
            self.fail('trim1d', 'trim1d:crash', 'LineReference.trim / complement raises ' + real['exc'], desc)
            return
        if abs(real['rv'] + real['cv'] - 1) > FAIL:
            self.fail('trim1d', 'trim1d:complement-volume', 'trimmed line and its complement do not add up to the element: %r + %r' % (real['rv'], real['cv']), dict(desc, real=real)); return
        if [(p, not s) for p, s in real['rc']] != real['cc']:
            self.fail('trim1d', 'trim1d:complement-cut', 'trimmed line and its complement do not share the cut with opposite orientation: %r vs %r' % (real['rc'], real['cc']), dict(desc, real=real)); return
        if no_zero_pair(lv) and abs(real['rv'] + real['nv'] - 1) > FAIL:
            self.fail('trim1d', 'trim1d:negated-volume', 'positive and negative part do not add up to the element: %r + %r' % (real['rv'], real['nv']), dict(desc, real=real)); return
        # cut within half a bin of the root of the linear interpolant on each leaf, on the right side
        exact = Fraction(0)
        nmixed = 0
        for a, b in zip(lv, lv[1:]):
            if a >= 0 and b >= 0: exact += 1
            elif a <= 0 and b <= 0: pass
            else:
                nmixed += 1
                exact += Fraction(b, b - a) if b > 0 else Fraction(a, a - b)
        # bisection early-outs only differ from the leaf-wise sum on all-zero stretches (measure of {f>0} is ambiguous there)
        if no_zero_pair(lv):
            err = abs(Fraction(real['rv']) * 2**m - exact)
            if err > Fraction(nmixed, 2 * nb) + Fraction(1, 10**9):
                self.fail('trim1d', 'trim1d:inaccurate', 'trimmed volume %r deviates from the linear-interpolant volume %s by more than half a bin per cut leaf' % (real['rv'], exact / 2**m), dict(desc, real=real)); return
            # every exposed end point sits within half a bin of a sign change of the interpolant, facing the negative side
            changes = []
            prev = None
            for i, v in enumerate(lv):
                sg = (v > 0) - (v < 0)
                if not sg: continue
                if prev is not None and sg != prev[0]:
                    j = prev[1]
                    root = Fraction(j) + Fraction(lv[j], lv[j] - lv[i]) if i - j == 1 else Fraction(j + 1)
                    changes.append((root / 2**m, prev[0] > 0))
                prev = (sg, i)
            halfbin = Fraction(1, 2**(m + nd + 1))
            for p, sgn in real['rc']:
                if not any(abs(Fraction(p) - r) <= halfbin and sgn == o for r, o in changes):
                    self.fail('trim1d', 'trim1d:cut-misplaced', 'exposed end point %r (outward %s) of the trimmed line is not at a sign change of the level samples %r' % (p, '+' if sgn else '-', lv), dict(desc, real=real)); return
        # ---- model correspondence
        def cb(req, a, real=real, desc=desc, lv=lv, m=m, nd=nd):
            f = a.split('|')
            unit = 2**(m + nd)
            if f[0] != 'ok':
                self.disagree('trim1d', 'model rejects the request: ' + a, dict(desc, request=req)); return
            mc = sorted((int(p.split(',')[0]) / unit, p.split(',')[1] == '1') for p in f[3].split(';') if p)
            mcc = sorted((int(p.split(',')[0]) / unit, p.split(',')[1] == '1') for p in f[6].split(';') if p)
            ok = (f[1] == real['r'] and abs(int(f[2]) / unit - real['rv']) < TOL and mc == real['rc'] and f[4] == real['c'] and abs(int(f[5]) / unit - real['cv']) < TOL
                  and mcc == real['cc'] and f[7] == real['n'] and abs(int(f[8]) / unit - real['nv']) < TOL)
            self.c.traces += 1
            if not ok:
                self.disagree('trim1d', 'Reference.trim differs from the model', dict(desc, real=real, model=a))
        self.req('trim|%d|%d|%s' % (nd, m, ' '.join(str(int(v)) for v in lv)), cb)

    # ------------------------------------------------------------ (b) grids with a cell subset
    def gen_grid(self, N):
        rng = self.rng
        corpus = [((3, 2), (1, 0), None, 'subset', 0), ((4,), (1,), None, 'minus', 0), ((2, 2, 2), (0, 0, 0), None, 'subset', 0), ((3,), (0,), 'full', 'self', 1)]
        for icase in range(N + len(corpus)):
            if icase < len(corpus):
                shape, per, mask, how, nref = corpus[icase]
            else:
                nd = rng.choice([1, 2, 2, 2, 3])
                cap = 40 if self.quick else 72
                while True:
                    shape = tuple(rng.randint(1, [0, 9, 6, 4][nd]) for _ in range(nd))
                    if math.prod(shape) <= cap: break
                nref = rng.choice([0, 0, 0, 1]) if math.prod(shape) * 2**nd <= cap else 0
                per = tuple(int(rng.random() < .35 and n << nref >= 3) for n in shape)
                mask = None
                how = rng.choice(['subset', 'subset', 'minus', 'group', 'self'])
            self._grid_case(shape, per, mask, how, nref)

    def _grid_case(self, shape0, per, mask, how, nref):
        from nutils import mesh
        c = self.c; rng = self.rng
        nd = len(shape0)
        shape = tuple(n << nref for n in shape0)
        ncell = math.prod(shape)
        if how == 'self' or mask == 'full':
            mask = [1] * ncell
        elif mask is None:
            dens = rng.choice([.2, .5, .5, .8, .95])
            mask = [int(rng.random() < dens) for _ in range(ncell)]
            if not any(mask): mask[rng.randrange(ncell)] = 1
        desc = dict(stream='grid', shape=list(shape0), periodic=[k for k in range(nd) if per[k]], nrefine=nref, mask=''.join(map(str, mask)), how=how)
        sel = [i for i, v in enumerate(mask) if v]
        real = {}
        try:
            base, x = mesh.rectilinear(list(shape0), periodic=[k for k in range(nd) if per[k]])
            for _ in range(nref): base = base.refined
            real['conn'] = [[int(v) for v in row] for row in base.connectivity]
            if how == 'self':
                t = base
            elif how == 'subset' or len(sel) == ncell:
                picked = base.take(sel) if rng.random() < .5 else base.compress(numpy.array(mask, dtype=bool)) if rng.random() < .5 else base[numpy.array(sel)]
                t = base.subset(picked, newboundary='trimmed')
            elif how == 'minus':
                t = base - base.subset(base.take([i for i in range(ncell) if not mask[i]]), newboundary='cut')
            else:
                t = base.withsubdomain(sel=base.take(sel))['sel']
                t = base.subset(t) if not hasattr(t, 'connectivity') else t
            real['type'] = type(t).__name__
            cells = [chain_cell(ch, nd) for ch in t.transforms]
            flat = {}
            for i, (L, idx) in enumerate(cells):
                if L != nref: raise GeomError('element of level %d in a level-%d grid' % (L, nref))
                flat[i] = int(numpy.ravel_multi_index(idx, shape))
            real['elems'] = [flat[i] for i in range(len(cells))]
            cache = {}
            bnd = []
            for ch in t.boundary.transforms:
                ie, cell, k, s, box = face_of(t, ch, nd, cache)
                bnd.append((flat[ie], k, int(s > 0)))
            real['bnd'] = sorted(bnd)
            ifc = []
            itopo = t.interfaces
            for ch, och in zip(itopo.transforms, itopo.opposites):
                ie, cell, k, s, box = face_of(t, ch, nd, cache)
                je, ocell, ok_, os_, obox = face_of(t, och, nd, cache)
                ifc.append((flat[ie], k, int(s > 0), flat[je], ok_, int(os_ > 0), self._same_face(box, obox, shape0, per)))
            real['ifc'] = ifc
            real['tconn'] = [[int(v) for v in row] for row in t.connectivity] if hasattr(t, 'connectivity') else None
        except Exception as e:
            real['exc'] = short_tb(e); real['cls'] = classify_exc(e)
        c.case(('grid', shape0, per, nref, tuple(mask), how), nontrivial=len(sel) > 1)
        c.count('grid:%s:%dd%s' % (how, nd, ':periodic' if any(per) else ''))
        c.sample(dict(desc, nelems=len(sel)), limit=4)
        if 'exc' not in real:
            c.count('grid-real:' + real['type'])
            self._grid_oracle(desc, shape, per, mask, sel, real)

        def cb(req, a, real=real, desc=desc, shape=shape, sel=sel):
            f = a.split('|')
            if f[0] != 'ok':
                self.disagree('grid', 'model rejects the request: ' + a, dict(desc, request=req)); return
            if 'exc' in real:
                if real['cls'] == 'inconsistent:geometry':
                    self.fail('grid', 'grid-faces:inconsistent-chains', 'boundary / interface chains of the topology are geometrically inconsistent: ' + real['exc'], dict(desc, real=real))
                elif real['cls'].startswith('crash'):
                    self.fail('grid', 'grid:crash:' + real['cls'].split(':')[1], 'subset of a structured topology raises ' + real['exc'], dict(desc, real=real))
                else:
                    self.disagree('grid', 'real code raises where the model has a result: ' + real['exc'], dict(desc, real=real))
                return
            self.c.traces += 1
            mconn = [[int(v) for v in row.split()] for row in f[1].split(';')]
            mb = sorted(tuple(int(v) for v in p.split(',')) for p in f[2].split(';') if p)
            mi = [tuple(int(v) for v in p.split(',')) for p in f[3].split(';') if p]
            def norm(i, k, s, j):      # orientation-free key of an interface
                return tuple(sorted([(i, k, s), (j, k, 1 - s)]))
            ri = sorted(norm(i, k, s, j) for i, k, s, j, ok_, os_, same in real['ifc'])
            problems = []
            if mconn != real['conn']: problems.append('connectivity')
            if real['elems'] != sel: problems.append('element order')
            if mb != real['bnd']: problems.append('boundary')
            if sorted(norm(*t) for t in mi) != ri: problems.append('interfaces')
            if f[4] != 'closed=1': problems.append('model boundary not closed')
            if problems:
                self.disagree('grid', 'structured/subset topology differs from the model in: ' + ', '.join(problems), dict(desc, real=real, model=a))
        self.req('grid|%s|%s|%s' % (' '.join(map(str, shape)), ' '.join(map(str, per)), ' '.join(map(str, mask))), cb)

    @staticmethod
    def _same_face(box, obox, period, per):
        """do the two sides of an interface coincide geometrically (modulo the period of periodic axes; chain coordinates
        are in units of the level-0 Index items)"""
        for k, n in enumerate(period):
            for a, b in ((box[0][k], obox[0][k]), (box[1][k], obox[1][k])):
                d = abs(a - b)
                if d != 0 and not (per[k] and d == n):
                    return False
        return True

    def _grid_oracle(self, desc, shape, per, mask, sel, real):
        """exact recomputation of what the property demands of boundary / interfaces of the selected cells"""
        nd = len(shape)
        S = set(sel)
        wantb, wanti = [], []
        for i in sel:
            idx = numpy.unravel_index(i, shape)
            for k in range(nd):
                for s in (1, 0):
                    n = list(idx); n[k] += 1 if s else -1
                    if not 0 <= n[k] < shape[k]:
                        if not per[k]:
                            wantb.append((i, k, s)); continue
                        n[k] %= shape[k]
                    j = int(numpy.ravel_multi_index(n, shape))
                    if j not in S: wantb.append((i, k, s))
                    else: wanti.append(tuple(sorted([(i, k, s), (j, k, 1 - s)])))
        wanti = sorted(set(wanti)) if all(shape[k] > 2 or not per[k] for k in range(nd)) else None
        if sorted(wantb) != real['bnd']:
            missing = sorted(set(wantb) - set(real['bnd'])); extra = sorted(set(real['bnd']) - set(wantb))
            sig = 'grid-boundary:' + ('lost' if missing else 'extra' if extra else 'duplicate') + ':' + real['type']
            self.fail('grid', sig, 'boundary of %s: missing faces %r, spurious faces %r (element, axis, side)' % (real['type'], missing[:4], extra[:4]), dict(desc, real=real, want=sorted(wantb)))
            return
        got = [tuple(sorted([(i, k, s), (j, ok_, os_)])) for i, k, s, j, ok_, os_, same in real['ifc']]
        if wanti is not None and sorted(got) != wanti:
            missing = sorted(set(wanti) - set(got)); extra = sorted(set(got) - set(wanti))
            sig = 'grid-interfaces:' + ('lost' if missing else 'extra' if extra else 'duplicate') + ':' + real['type']
            self.fail('grid', sig, 'interfaces of %s: missing %r, spurious %r, listed %d for %d interior faces' % (real['type'], missing[:3], extra[:3], len(got), len(wanti)), dict(desc, real=real, want=wanti))
            return
        if not all(t[-1] for t in real['ifc']):
            self.fail('grid', 'grid-interfaces:opposite-misplaced:' + real['type'], 'an interface and its opposite are not the same face', dict(desc, real=real))

    # ------------------------------------------------------------ (a) hierarchical histories
    def gen_hier(self, N):
        rng = self.rng
        for icase in range(N):
            nd = rng.choice([1, 1, 2, 2, 2, 3])
            while True:
                shape = tuple(rng.randint(1, [0, 6, 4, 2][nd]) for _ in range(nd))
                if math.prod(shape) <= 12: break
            per = [int(rng.random() < .3) for _ in shape]
            mode = rng.choice(['plain', 'plain', 'plain', 'and', 'slice-first', 'slice-first', 'prerefined', 'slice-prerefined'])
            if mode.startswith('slice') and not any(per) and rng.random() < .6:
                per[rng.randrange(nd)] = 1      # slices of periodic axes: the slice has genuine end faces in a direction that keeps its modulus
            self._hier_case(shape, tuple(per), mode)

    def _hier_case(self, shape, per, mode):
        from nutils import mesh
        c = self.c; rng = self.rng
        nd = len(shape)
        maxops = 5 if self.quick else 10
        cap = 150 if self.quick else 300
        desc = dict(stream='hier', shape=list(shape), periodic=[k for k in range(nd) if per[k]])
        lo, hi = [0] * nd, list(shape)
        bper = list(per)
        steps = []
        real = {}
        try:
            base, x = mesh.rectilinear(list(shape), periodic=[k for k in range(nd) if per[k]])
            nref = 0
            # the structured base: slices (preferably of periodic axes) and a uniform refinement, in random order; lo/hi are kept in
            # units of the cells of the base (level nref)
            pre = {'plain': [], 'and': [], 'slice-first': ['slice'] + ['slice'] * (rng.random() < .3), 'prerefined': ['refine'],
                   'slice-prerefined': rng.choice([['slice', 'refine'], ['refine', 'slice'], ['slice', 'refine', 'slice']])}[mode]
            for what in pre:
                if what == 'refine':
                    base = base.refined; nref += 1
                    lo = [v * 2 for v in lo]; hi = [v * 2 for v in hi]
                    steps.append('base.refined')
                else:
                    cand = [k for k in range(nd) if hi[k] - lo[k] > 1]
                    if not cand: continue
                    pk = [k for k in cand if bper[k]]
                    k = rng.choice(pk) if pk and rng.random() < .7 else rng.choice(cand)
                    width = hi[k] - lo[k]
                    a = rng.randrange(0, width); b = rng.randint(a + 1, width)
                    if (a, b) != (0, width):
                        base = base[(slice(None),) * k + (slice(a, b),)]
                        lo[k], hi[k] = lo[k] + a, lo[k] + b; bper[k] = 0
                        steps.append('base[%d:%d @%d]' % (a, b, k))
            desc.update(lo=lo, hi=hi, nrefine=nref)

            def history(nops):
                topo = base; ops = []
                for _ in range(nops):
                    n = len(topo)
                    if rng.random() < .25 and n * 2**nd <= cap:
                        topo = topo.refined; ops.append('R')
                    else:
                        k = min(n, rng.choice([1, 1, 2, 3, max(1, n // 3)]))
                        if n + k * (2**nd - 1) > cap: break
                        sel = sorted(rng.sample(range(n), k))
                        form = rng.choice(['int', 'int', 'dup', 'array', 'neg', 'neg', 'oor', 'topo', 'chains', 'finechains'])
                        shown = list(sel)
                        if form == 'int': arg = list(sel); rng.shuffle(arg)
                        elif form == 'dup': arg = sel + [sel[0]]
                        elif form == 'array': arg = numpy.array(sel)
                        elif form == 'neg':     # some indices counted from the end
                            arg = [i - n if rng.random() < .6 else i for i in sel]; shown = list(arg)
                        elif form == 'oor':     # one index outside the element range: IndexError, nothing happens
                            bad = sel + [rng.choice([n, n + 3, -n - 1])]
                            c.count('hier-refined_by-arg:oor')
                            try:
                                topo.refined_by(bad)
                                outcome = 'accepted'
                            except IndexError:
                                outcome = 'IndexError'
                            except Exception as e:
                                outcome = short_tb(e)
                            oor.append((list(ops) + ['B ' + ' '.join(map(str, bad))], outcome))
                            continue
                        elif form == 'topo': arg = topo.take(sel)
                        elif form == 'chains': arg = [topo.transforms[i] for i in sel]
                        else: arg = [topo.refined.transforms[topo.refined.transforms.index_with_tail(topo.transforms[i] + (topo.references[i].child_transforms[-1],))[0]] for i in sel]
                        topo = topo.refined_by(arg); ops.append('B ' + ' '.join(map(str, shown)))
                        c.count('hier-refined_by-arg:' + form)
                return topo, ops
            oor = []
            nops = rng.randint(1, maxops)
            topo, ops = history(nops)
            steps += ops
            request = 'hier|%s|%s|%s' % (' '.join(map(str, lo)), ' '.join(map(str, hi)), ';'.join(ops))
            if mode == 'and':
                topo2, ops2 = history(rng.randint(1, maxops))
                topo = topo & topo2
                steps += ['& [' + ';'.join(ops2) + ']']
                request = 'hand|%s|%s|%s|%s' % (' '.join(map(str, lo)), ' '.join(map(str, hi)), ';'.join(ops), ';'.join(ops2))
            real['cells'] = [chain_cell(ch, nd) for ch in topo.transforms]
            real['type'] = type(topo).__name__
            real['full'] = all(type(r).__name__ in ('TensorReference', 'LineReference') for r in topo.references)
            # final slice of a hierarchical topology (exact oracle only)
            sliced = None
            nlead = 0       # uniform refinements of the structured base itself: the slice then counts cells of that level
            for o in ops:
                if o != 'R': break
                nlead += 1
            olo, ohi, oper, oshift = list(lo), list(hi), list(bper), nref
            if mode == 'plain' and rng.random() < .25 and type(topo).__name__ == 'HierarchicalTopology':
                k = rng.randrange(nd)
                width = (hi[k] - lo[k]) << nlead
                if width > 1:
                    a = rng.randrange(0, width); b = rng.randint(a + 1, width)
                    if (a, b) != (0, width):
                        sliced = (k, a, b)
                        stopo = topo[(slice(None),) * k + (slice(a, b),)]
                        real['sliced_cells'] = [chain_cell(ch, nd) for ch in stopo.transforms]
                        steps.append('[%d:%d @%d]' % (a, b, k))
                        olo = [v << nlead for v in lo]; ohi = [v << nlead for v in hi]; oshift = nref + nlead
                        olo[k], ohi[k], oper[k] = (lo[k] << nlead) + a, (lo[k] << nlead) + b, 0
            obs = stopo if sliced else topo
            real['obs'] = dict(lo=olo, hi=ohi, per=oper, shift=oshift)
            cache = {}
            real['faces'] = type(obs).__name__ in ('HierarchicalTopology', 'StructuredTopology')
            if real['faces']:
                real['bnd'] = sorted((cell, k, s) for ie, cell, k, s, box in (face_of(obs, ch, nd, cache) for ch in obs.boundary.transforms))
                ifc = []
                itopo = obs.interfaces
                for ch, och in zip(itopo.transforms, itopo.opposites):
                    ie, cell, k, s, box = face_of(obs, ch, nd, cache)
                    je, ocell, ok_, os_, obox = face_of(obs, och, nd, cache)
                    ifc.append(((cell, k, s), (ocell, ok_, os_), box, obox))
                real['ifc'] = ifc
            else:
                try:
                    obs.boundary
                    real['faces'] = 'unexpected'
                except Exception as e:
                    c.count('hier-faces:' + classify_exc(e))
            # named boundary groups of the structured base survive (exploration)
            if real['faces'] is True and rng.random() < .3:
                names = [nm for k in range(nd) if not oper[k] for nm in (('left', 'right'), ('bottom', 'top'), ('front', 'back'))[k]]
                real['groups'] = sum(len(obs.boundary[nm]) for nm in names) if names else 0
        except Exception as e:
            real['exc'] = short_tb(e); real['cls'] = classify_exc(e)
        desc['steps'] = steps
        c.case(('hier', shape, per, tuple(steps)), nontrivial=len(steps) > 0)
        c.count('hier:%s:%dd%s' % (mode, nd, ':periodic' if any(per) else ''))
        c.sample(dict(desc, nelems=len(real.get('cells', []))), limit=4)
        if 'exc' in real:
            # every generated history is valid: the model has a result, so this is a disagreement (or a crash)
            if 'cells' in real and min(l for l, _ in real['cells']) >= nref:
                defect = HierSpec(lo, hi, bper).check_partition([(l - nref, idx) for l, idx in real['cells']])
                if defect:
                    self.fail('hier', self._cells_sig(defect, steps), 'after the history the elements do not partition the base: ' + defect, dict(desc, cells=real['cells'])); return
            if real['cls'] == 'inconsistent:geometry':
                self.fail('hier', 'hier-faces:inconsistent-chains', 'boundary / interface chains of the hierarchical topology are geometrically inconsistent: ' + real['exc'], dict(desc, real=real))
            elif real['cls'].startswith('crash'):
                self.fail('hier', 'hier:crash:' + real['cls'].split(':')[1], 'a history of refinements on a structured topology raises ' + real['exc'], dict(desc, real=real))
            else:
                self.disagree('hier', 'real code raises on a valid history: ' + real['exc'], dict(desc, real=real))
            return
        self._hier_oracle(desc, nd, nref, lo, hi, bper, real)

        def cb(req, a, real=real, desc=desc, nref=nref):
            f = a.split('|')
            if f[0] != 'ok':
                self.disagree('hier', 'model rejects the request: ' + a, dict(desc, request=req)); return
            self.c.traces += 1
            mcells = [(int(p.split(',')[0]) + nref, tuple(int(v) for v in p.split(',')[1:])) for p in f[2].split(';') if p]
            same = mcells == real['cells'] if real['type'] in ('HierarchicalTopology', 'StructuredTopology') else sorted(mcells) == sorted(real['cells'])
            if not same or f[3] != 'apart=1':
                self.disagree('hier', 'element list of the real topology differs from the model (%d vs %d elements)' % (len(real['cells']), len(mcells)), dict(desc, real=real['cells'], model=a))
        self.req(request, cb)
        for ops_bad, outcome in oor:
            def cb2(req, a, outcome=outcome, desc=desc):
                self.c.traces += 1
                if a != 'err|IndexError' or outcome != 'IndexError':
                    self.disagree('hier', 'refined_by with an element index outside the range: real code %s, model %s' % (outcome, a), dict(desc, request=req))
            self.req('hier|%s|%s|%s' % (' '.join(map(str, lo)), ' '.join(map(str, hi)), ';'.join(ops_bad)), cb2)

    @staticmethod
    def _cells_sig(defect, steps):
        # overlap after a refined_by with a negative element index is the known root cause `refined_by:negative-index-overlap`
        if any('B ' in st and '-' in st for st in steps) and ('overlaps' in defect or 'duplicate' in defect or 'measure' in defect):
            return 'refined_by:negative-index-overlap'
        return 'hier-cells:' + defect.split(' ')[0]

    def _hier_oracle(self, desc, nd, nref, lo, hi, per, real):
        # cells are in level-(nref) units: shift levels so that the base is level 0
        def sh(cell): return (cell[0] - nref, cell[1])
        cells = [sh(cl) for cl in real['cells']]
        if min(l for l, _ in cells) < 0:
            self.fail('hier', 'hier:coarser-than-base', 'element coarser than the base topology', dict(desc, real=real)); return
        spec = HierSpec(lo, hi, per)
        defect = spec.check_partition(cells)
        if defect:
            self.fail('hier', self._cells_sig(defect, desc['steps']), 'after the history the elements do not partition the base: ' + defect, dict(desc, cells=real['cells'])); return
        if not real['full']:
            self.fail('hier', 'hier-cells:partial-reference', 'an element of a refined structured topology has a partial reference', dict(desc)); return
        o = real['obs']
        ospec = HierSpec(o['lo'], o['hi'], o['per'])
        def sh(cell): return (cell[0] - o['shift'], cell[1])      # levels relative to the grid the observed topology is based on
        ocells = [sh(cl) for cl in real.get('sliced_cells', real['cells'])]
        if 'sliced_cells' in real:
            want = [sh(cl) for cl in real['cells'] if all(o['lo'][k] << (cl[0] - o['shift']) <= cl[1][k] < o['hi'][k] << (cl[0] - o['shift']) for k in range(nd))]
            if sorted(want) != sorted(ocells):
                self.fail('hier', 'hier-slice:wrong-elements', 'slice of a hierarchical topology selects the wrong elements', dict(desc, got=ocells, want=want)); return
        if real['faces'] is not True:
            if real['faces'] == 'unexpected':
                self.disagree('hier', 'a topology without connectivity unexpectedly has a boundary', dict(desc))
            return
        wantb, wanti = ospec.faces(ocells)
        gotb = [(sh(cl), k, s) for cl, k, s in real['bnd']]
        if sorted(gotb) != sorted(wantb):
            missing = sorted(set(wantb) - set(gotb)); extra = sorted(set(gotb) - set(wantb))
            kind = 'lost' if missing else 'extra' if extra else 'duplicate'
            self.fail('hier', 'hier-boundary:' + kind, 'boundary of the hierarchical topology: missing %r, spurious %r (cell, axis, side)' % (missing[:3], extra[:3]), dict(desc, got=gotb, want=sorted(wantb))); return
        goti = []
        for (cl, k, s), (ocl, ok_, os_), box, obox in real['ifc']:
            a, b = (sh(cl), k, s), (sh(ocl), ok_, os_)
            fine = a[0] if a[0][0] > b[0][0] else b[0] if b[0][0] > a[0][0] else min(a[0], b[0])
            goti.append((tuple(sorted([a, b])), fine))
            if not self._same_face(box, obox, desc['shape'], o['per']):
                self.fail('hier', 'hier-interfaces:opposite-misplaced', 'an interface and its opposite are not the same face: %r vs %r' % (box, obox), dict(desc)); return
        if sorted(goti) != sorted(wanti):
            missing = [t for t in wanti if t not in goti]; extra = [t for t in goti if t not in wanti]
            kind = 'lost' if missing else 'extra' if extra else 'duplicate'
            self.fail('hier', 'hier-interfaces:' + kind, 'interfaces of the hierarchical topology: %d listed, %d interior faces; missing %r spurious %r' % (len(goti), len(wanti), [t[0] for t in missing[:2]], [t[0] for t in extra[:2]]),
                      dict(desc, got=[t[0] for t in goti], want=[t[0] for t in wanti])); return
        if 'groups' in real and real['groups'] != len(real['bnd']):
            self.fail('hier', 'hier-boundary:groups', 'named boundary groups hold %d faces, the boundary %d' % (real['groups'], len(real['bnd'])), dict(desc))

    def finish_structural(self):
        c = self.c
        for stream, label in (('trim1d', 'LineReference.trim / complement / negation vs model + exact partition oracle'),
                              ('grid', 'StructuredTopology / SubsetTopology connectivity, boundary, interfaces vs model + exact oracle'),
                              ('hier', 'HierarchicalTopology histories vs model + exact boundary / interface oracle'),
                              ('axis', 'transformseq DimAxis / IntAxis refined / getitem / boundaries / intaxis / opposite vs model + exact cell enumeration')):
            c.obligation('corr:' + stream, self.bad.get(stream, 0) == 0, 'correspondence', label)

    # ------------------------------------------------------------ (S) numeric streams
    def numeric(self, N):
        kinds = ['structured', 'structured', 'structured', 'trimmed', 'trimmed', 'trimmed', 'simplex', 'simplex', 'multipatch', 'product', 'union', 'trimline']
        self.nnum = 0
        for icase in range(N):
            kind = kinds[icase % len(kinds)] if icase < 2 * len(kinds) else self.rng.choice(kinds)
            self._numeric_case(kind)

    # ---- meshes
    def _mesh(self, kind):
        """returns (topo, geometry, description, exact volume as Fraction or None, has periodic axes)"""
        from nutils import mesh, function
        rng = self.rng
        if kind in ('structured', 'trimmed', 'union'):
            nd = rng.choice([1, 2, 2, 2, 3])
            shape = [rng.randint(1 if nd < 3 else 1, [0, 6, 4, 3][nd]) for _ in range(nd)]
            per = [k for k in range(nd) if rng.random() < .3 and shape[k] >= 3]
            topo, x = mesh.rectilinear(shape, periodic=per)
            return topo, x, dict(mesh='rectilinear', shape=shape, periodic=per), Fraction(math.prod(shape)), bool(per)
        if kind == 'trimline':
            n = rng.randint(1, 6)
            per = rng.random() < .3 and n >= 3
            topo, x = mesh.rectilinear([n], periodic=[0] if per else [])
            return topo, x, dict(mesh='rectilinear', shape=[n], periodic=[0] if per else []), Fraction(n), per
        if kind == 'simplex':
            sub = rng.choice(['triangle', 'mixed', 'tet'])
            if sub == 'tet':
                n = rng.choice([1, 1, 2])
                topo, x = kuhn_mesh(n)
                return topo, x, dict(mesh='kuhn-tets', n=n), Fraction(1), False
            n = rng.randint(1, 4) if sub == 'triangle' else rng.randint(2, 4)
            topo, x = mesh.unitsquare(n, sub)
            return topo, x, dict(mesh='unitsquare', n=n, etype=sub), Fraction(1), False
        if kind == 'multipatch':
            sub = rng.choice(['L', 'two', 'cube2'])
            ne = rng.choice([1, 2, 2, 3])
            if sub == 'L':
                verts = [[i, j] for i in range(3) for j in range(3)][:8]
                patches = [[0, 1, 3, 4], [1, 2, 4, 5], [3, 4, 6, 7]]
                vol = Fraction(3)
            elif sub == 'two':
                verts = [[0, 0], [0, 1], [1, 0], [1, 1], [2, 0], [2, 1]]
                patches = [[0, 1, 2, 3], [2, 3, 4, 5]]
                vol = Fraction(2)
            else:
                verts = [[i, j, k] for i in range(3) for j in range(2) for k in range(2)]
                patches = [[0, 1, 2, 3, 4, 5, 6, 7], [4, 5, 6, 7, 8, 9, 10, 11]]
                vol = Fraction(2); ne = min(ne, 2)
            topo, x = mesh.multipatch(patches=patches, nelems=ne, patchverts=verts)
            return topo, x, dict(mesh='multipatch', layout=sub, nelems=ne), vol, False
        if kind == 'product':
            n1, n2 = rng.randint(1, 4), rng.randint(1, 3)
            p1 = rng.random() < .3 and n1 >= 3
            t1, x1 = mesh.line(n1, space='X', periodic=bool(p1)); t2, x2 = mesh.line(n2, space='Y')
            if rng.random() < .3:
                t3, x3 = mesh.line(2, space='Z')
                return t1 * t2 * t3, numpy.stack([x1, x2, x3]), dict(mesh='product', shape=[n1, n2, 2], periodic=[0] if p1 else []), Fraction(n1 * n2 * 2), bool(p1)
            return t1 * t2, numpy.stack([x1, x2]), dict(mesh='product', shape=[n1, n2], periodic=[0] if p1 else []), Fraction(n1 * n2), bool(p1)
        raise Infra('unknown mesh kind ' + kind)

    def _levelset(self, x, nd, extent):
        """a level set with dyadic data that never vanishes at the sample points (multiples of 1/8)"""
        rng = self.rng
        kind = rng.choice(['plane', 'plane', 'circle', 'band'])
        if kind == 'plane' or nd == 1 and kind == 'circle':
            a = [rng.choice([-2, -1, 1, 1, 2, 0]) for _ in range(nd)]
            if not any(a): a[rng.randrange(nd)] = 1
            lo = sum(min(0, ak * ek) for ak, ek in zip(a, extent)); hi = sum(max(0, ak * ek) for ak, ek in zip(a, extent))
            cst = Fraction(2 * rng.randrange(int(lo * 32), int(hi * 32) + 1) + 1, 64)
            f = sum(ak * x[k] for k, ak in enumerate(a)) - float(cst)
            return f, 'plane %s.x - %s' % (a, cst)
        if kind == 'circle':
            p = [Fraction(rng.randrange(0, 4 * ek + 1), 4) for ek in extent]
            r2 = Fraction(2 * rng.randrange(4, 64 * max(extent)**2 // 2 + 8) + 1, 128)
            sgn = rng.choice([1, -1])
            f = sgn * (sum((x[k] - float(pk))**2 for k, pk in enumerate(p)) - float(r2))
            return f, 'circle %s*(|x-%s|^2 - %s)' % (sgn, [str(v) for v in p], r2)
        k = rng.randrange(nd)
        c0 = Fraction(rng.randrange(0, 4 * extent[k] + 1), 4)
        w2 = Fraction(2 * rng.randrange(1, 40) + 1, 128)
        f = (x[k] - float(c0))**2 - float(w2)
        return f, 'band (x%d-%s)^2 - %s' % (k, c0, w2)

    def _numeric_case(self, kind):
        from nutils import function
        c = self.c; rng = self.rng
        self.nnum += 1
        steps = []
        state = dict(kind=kind)
        try:
            topo, x, desc, vol, periodic = self._mesh(kind)
        except Exception as e:
            self.disagree('numeric', 'mesh generator raises ' + short_tb(e), dict(stream='numeric', kind=kind)); return
        desc = dict(stream='numeric', kind=kind, **desc)
        nd = topo.ndims
        J = function.J(x)
        checks = []          # (identity name, value, context)
        trimmed = None       # (pos, neg, name) when the pipeline trimmed
        hist = dict(trim=False, hier=False, trim_then_refine=False, hier_then_trim=False)

        def vol_of(t):
            return float(t.integrate(J, degree=2))

        def op_refined(t):
            steps.append('refined'); return t.refined
        def op_refined_by(t):
            n = len(t); k = min(n, rng.choice([1, 1, 2, 3, max(1, n // 3)]))
            sel = sorted(rng.sample(range(n), k)); steps.append('refined_by(%s)' % sel); return t.refined_by(sel)
        def op_subset(t):
            n = len(t); k = rng.randint(1, n)
            sel = sorted(rng.sample(range(n), k)); steps.append('subset(take(%s))' % sel); return t.subset(t.take(sel), newboundary='sub')
        def op_refine_space(t):
            sp = rng.choice(list(t.spaces)); steps.append('refine_spaces([%s])' % sp); return t.refine_spaces([sp])

        try:
            v0 = vol_of(topo)
            checks.append(('volume:mesh', v0 - float(vol), 'mesh'))
            cur = topo; curvol = v0
            if kind == 'union':
                self._union_case(topo, x, desc, nd, J); return
            nops = rng.choice([0, 1, 1, 2, 2, 3])
            for iop in range(nops):
                if len(cur) > (120 if self.quick else 300): break
                if kind == 'product':
                    op = rng.choice([op_refined, op_refine_space])
                elif kind in ('trimmed', 'trimline') and not hist['trim'] and (iop == nops - 1 or rng.random() < .6):
                    op = 'trim'
                elif kind in ('trimmed', 'trimline') and hist['trim']:
                    op = rng.choice([op_refined, op_refined_by])
                elif kind == 'simplex' and rng.random() < .25 and nd == 2 and not hist['hier'] and not hist['trim']:
                    op = 'trim'
                elif kind == 'multipatch' and rng.random() < .25 and not hist['hier'] and not hist['trim']:
                    op = 'trim'
                else:
                    op = rng.choice([op_refined, op_refined_by, op_refined_by, op_subset] if not hist['hier'] else [op_refined, op_refined_by])
                if op == 'trim':
                    mr = rng.choice([0, 1, 1, 2]) if nd < 3 else rng.choice([0, 1])
                    extent = desc.get('shape', [1] * nd) if kind in ('trimmed', 'trimline', 'structured') else {'L': [2, 2], 'two': [2, 1], 'cube2': [2, 1, 1]}.get(desc.get('layout'), [1] * nd)
                    f, fdesc = self._levelset(x, nd, extent)
                    steps.append('trim(%s, maxrefine=%d)' % (fdesc, mr))
                    if type(cur).__name__ == 'HierarchicalTopology': hist['hier_then_trim'] = True
                    pos = cur.trim(f, maxrefine=mr, name='trimmed')
                    how = rng.choice(['minus', 'negate'])
                    neg = cur - pos if how == 'minus' else cur.trim(-f, maxrefine=mr, name='trimmed')
                    steps.append('complement by ' + how)
                    vp, vn = vol_of(pos), vol_of(neg)
                    checks.append(('partition:trim', vp + vn - curvol, how))
                    trimmed = (pos, neg)
                    hist['trim'] = True
                    if rng.random() < .5 and vn > 0:
                        cur, curvol = neg, vn; steps.append('continue with the complement')
                    elif vp > 0:
                        cur, curvol = pos, vp
                    else:
                        break
                    continue
                if hist['trim'] and op in (op_refined, op_refined_by): hist['trim_then_refine'] = True
                new = op(cur)
                if op is op_refined_by: hist['hier'] = True
                if op is op_subset:
                    curvol = vol_of(new)
                    if curvol > v0 + FAIL: checks.append(('volume:subset-grew', curvol - v0, 'subset'))
                else:
                    v = vol_of(new)
                    checks.append(('volume:' + op.__name__[3:], v - curvol, type(new).__name__))
                cur = new
            state['type'] = type(cur).__name__
            # ---- face identities on the final topology
            m = measure(cur, x, rng, deg=2)
            state['measure'] = m
            where = type(cur).__name__ + ('-over-' + type(cur.basetopo).__name__ if hasattr(cur, 'basetopo') else '')
            checks.append(('closed', m['closed'], where))
            checks.append(('normals-opposite', m['nsum'], where))
            checks.append(('divergence', m['div'], where))
            if 'wdiv' in m: checks.append(('interfaces-once', m['wdiv'], where))
            if 'ediv' in m: checks.append(('element-divergence', m['ediv'], where))
            if 'perimeter' in m: checks.append(('perimeter', m['perimeter'], where))
            else: c.count('numeric:perimeter-unavailable:' + m.get('perimeter-exc', '?'))
            if not periodic: checks.append(('interface-position-jump', m['jflux'], where))
            if hasattr(cur, 'connectivity') and all(type(r).__name__ in ('TensorReference', 'LineReference', 'TriangleReference', 'TetrahedronReference') for r in cur.references):
                checks.append(('interfaces-vs-connectivity', float(2 * m['ni'] - conn_pairs(cur)), where))
            # ---- the cut is shared with opposite orientation
            if trimmed is not None:
                pos, neg = trimmed
                n = function.normal(x)
                funcs = [n * J, J, (x[:, None] * n[None, :]) * J]
                try:
                    bp, bn = pos.boundary['trimmed'], neg.boundary['trimmed']
                    rp = bp.integrate(funcs, degree=2); rn = bn.integrate(funcs, degree=2)
                    checks.append(('cut:normals', float(numpy.abs(rp[0] + rn[0]).max()), 'trimmed'))
                    checks.append(('cut:measure', float(rp[1] - rn[1]), 'trimmed'))
                    if not periodic:   # across a periodic seam the two sides of the cut sit one period apart
                        checks.append(('cut:moments', float(numpy.abs(rp[2] + rn[2]).max()), 'trimmed'))
                except KeyError:
                    c.count('numeric:cut-empty')
        except Exception as e:
            cls = classify_exc(e)
            state['exc'] = short_tb(e)
            c.count('numeric-outcome:' + cls)
            if cls == 'known:mosaic-child_refs' and hist['trim']:
                self.fail('numeric', 'trimmed-then-refined_by:AttributeError', 'refining a trimmed topology beyond maxrefine raises ' + state['exc'], dict(desc, steps=steps))
            elif cls.startswith('crash') or cls == 'known:mosaic-child_refs':
                self.fail('numeric', 'numeric:crash:%s:%s' % (kind, cls.split(':')[1]), 'operation pipeline raises ' + state['exc'], dict(desc, steps=steps))
            elif cls == 'unsupported:no-connectivity' and not (hist['hier_then_trim'] or (hist['hier'] and 'subset' in ' '.join(steps))):
                self.disagree('numeric', 'boundary / interfaces unexpectedly unavailable: ' + state['exc'], dict(desc, steps=steps))
            elif cls.startswith('rejected') and cls != 'rejected:NotImplementedError':
                self.disagree('numeric', 'pipeline of supported operations is rejected: ' + state['exc'], dict(desc, steps=steps))
        desc['steps'] = steps
        c.case(('numeric', kind, repr(desc)), nontrivial=len(steps) > 0)
        c.count('numeric:' + kind)
        if 'type' in state: c.count('numeric-final:' + state['type'])
        c.sample(dict(desc, outcome=state.get('exc', 'measured')), limit=6)
        for name, val, where in checks:
            c.count('identity:' + name)
            if not abs(val) <= FAIL:
                if hist['trim_then_refine'] and name in ('closed', 'divergence', 'interfaces-once', 'element-divergence', 'perimeter') and state.get('type') == 'HierarchicalTopology':
                    sig = 'trimmed-then-refined_by:boundary-lost'
                else:
                    sig = 'numeric:%s:%s' % (name, where)
                self.fail('numeric', sig, 'identity %s violated by %.3g on %s after %s' % (name, val, where, steps), dict(desc, identity=name, value=val, measured=state.get('measure')))
            elif abs(val) > TOL:
                c.count('numeric:inexact')

    def _union_case(self, topo, x, desc, nd, J):
        """unions / intersections / differences of slices and subsets: measures against exact cell counting"""
        c = self.c; rng = self.rng
        shape = desc['shape']
        def part():
            k = rng.randrange(nd)
            a = rng.randrange(0, shape[k]); b = rng.randint(a + 1, shape[k])
            sl = (slice(None),) * k + (slice(a, b),)
            t = topo[sl]
            cells = set(i for i in range(len(topo)) if a <= numpy.unravel_index(i, shape)[k] < b)
            return t, cells, '[%d:%d @%d]' % (a, b, k)
        A, ca, da = part(); B, cb, db = part()
        steps = []
        checks = []
        try:
            op = rng.choice(['or', 'or', 'and', 'sub-or'])
            if op == 'or':
                U = A | B; want = len(ca | cb); steps = [da, '|', db]
            elif op == 'and':
                U = A & B; want = len(ca & cb); steps = [da, '&', db]
                if not want: U = None
            else:
                sa = sorted(rng.sample(sorted(ca), rng.randint(1, len(ca)))); sb = sorted(rng.sample(sorted(cb), rng.randint(1, len(cb))))
                U = topo.subset(topo.take(sa)) | topo.subset(topo.take(sb)); want = len(set(sa) | set(sb)); steps = ['subset(%s)' % sa, '|', 'subset(%s)' % sb]
            if U is not None:
                v = float(U.integrate(J, degree=2))
                checks.append(('volume:' + op, v - want, type(U).__name__))
                checks.append(('count:' + op, float(len(U) - want), type(U).__name__))
                if rng.random() < .5:
                    R = U.refined; steps.append('refined')
                    checks.append(('volume:refined-union', float(R.integrate(J, degree=2)) - want, type(R).__name__))
        except Exception as e:
            cls = classify_exc(e)
            c.count('numeric-outcome:' + cls)
            if cls.startswith('crash'):
                self.fail('numeric', 'numeric:crash:union:' + cls.split(':')[1], 'union / intersection raises ' + short_tb(e), dict(desc, steps=steps))
            elif cls != 'rejected:NotImplementedError':
                self.disagree('numeric', 'union / intersection of structured slices is rejected: ' + short_tb(e), dict(desc, steps=steps))
        desc['steps'] = steps
        c.case(('numeric', 'union', repr(desc)), nontrivial=True)
        c.count('numeric:union')
        for name, val, where in checks:
            c.count('identity:' + name)
            if not abs(val) <= FAIL:
                self.fail('numeric', 'numeric:%s:%s' % (name, where), 'identity %s violated by %.3g on %s after %s' % (name, val, where, steps), dict(desc, identity=name, value=val))

    # ------------------------------------------------------------ axis arithmetic of structured topologies (M + exact oracle)
    def gen_axis(self, N):
        """real `transformseq.DimAxis / IntAxis` objects driven through random refined / slice / boundary layer / interface layer /
        opposite pipelines; compared with the Lean model and with an exact recomputation of WHICH cells the axis must enumerate"""
        from nutils import transformseq
        c = self.c; rng = self.rng
        for icase in range(N):
            n = rng.randint(1, 7); per = rng.random() < .6
            ax = transformseq.DimAxis(0, n, n if per else 0, per)
            want = list(range(n)); period = n if per else 0        # oracle: the cells the axis enumerates, in order, and the period at this level
            kind = 'dim'; side = None; ops = []; exc = None
            try:
                for _ in range(rng.randint(1, 5)):
                    choices = ['R', 'R'] + (['G', 'G'] if kind == 'dim' and len(want) > 1 else []) + (['B', 'B', 'I'] if kind == 'dim' else []) + (['O'] if kind == 'int' else [])
                    op = rng.choice(choices)
                    if op == 'R':
                        if len(want) > 64: break
                        ax = ax.refined; period *= 2
                        # children of every cell; a layer on side s keeps the child on that side, an interface layer of several cells
                        # additionally the faces between the two children of the cells in between
                        if kind == 'dim': want = [2 * v + k for v in want for k in (0, 1)]
                        else:
                            new = []
                            for q, v in enumerate(want):
                                new.append(2 * v + side)
                                if q + 1 < len(want): new.append((2 * v + side + 1) % period if period else 2 * v + side + 1)
                            want = new
                        ops.append('R')
                    elif op == 'G':
                        a = rng.randrange(0, len(want)); b = rng.randint(a + 1, len(want))
                        if (a, b) == (0, len(want)) and rng.random() < .8: continue
                        ax = ax.getitem(slice(a, b)); want = want[a:b]; per = False
                        ops.append('G %d %d' % (a, b))
                    elif op == 'B':
                        if per: continue
                        k = rng.randrange(2)
                        ax = list(ax.boundaries(0))[k]; want = [want[-1] if k else want[0]]; kind = 'int'; side = k
                        ops.append('B %d' % k)
                    elif op == 'I':
                        sd = rng.randrange(2)
                        ax = ax.intaxis(0, bool(sd))
                        # interior faces: between consecutive cells (and across the seam when periodic), seen from the cell on side sd
                        # (side 1 = the face is the HIGH face of its cell, i.e. the cell before the face)
                        pairs = list(zip(want, want[1:])) if not per else list(zip([want[-1]] + want[:-1], want))
                        want = [p[0] if sd else p[1] for p in pairs]; kind = 'int'; side = sd
                        ops.append('I %d' % sd)
                        if not want: break
                    else:
                        ax = ax.opposite(0); side = 1 - side
                        want = [((v + (1 if side == 0 else -1)) % period if period else v + (1 if side == 0 else -1)) for v in want]
                        ops.append('O')
                got = [int(ax.map(e)) for e in range(len(ax))]
                state = (int(ax.i), int(ax.j), int(ax.mod), int(ax.isdim), int(ax.isperiodic if ax.isdim else ax.side))
            except Exception as e:
                exc = short_tb(e); got = state = None
            desc = dict(stream='axis', n=n, periodic=bool(period), ops=ops)
            c.case(('axis', n, bool(period), tuple(ops)), nontrivial=len(ops) > 1)
            c.count('axis:%s%s' % (kind, ':modulus' if period else ''))
            if exc is not None:
                self.fail('axis', 'axis:crash', 'axis pipeline raises ' + exc, desc); continue
            if got != want:
                self.fail('axis', 'axis:%s:wrong-cells' % ('layer' if kind == 'int' else 'direction'),
                          'after %s the axis of a %s direction of %d cells enumerates the cells %r, it must enumerate %r' % (ops, 'periodic' if n and desc['periodic'] else 'plain', n, got, want), dict(desc, got=got, want=want))
                continue
            def cb(req, a, got=got, state=state, desc=desc):
                self.c.traces += 1
                f = a.split('|')
                if f[0] != 'ok' or tuple(int(v) for v in f[1].split()) != state or [int(v) for v in f[2].split()] != got:
                    self.disagree('axis', 'transformseq axis differs from the model: real %r %r, model %s' % (state, got, a), dict(desc, request=req))
            self.req('axis|0 %d %d %d|%s' % (n, n if desc['periodic'] else 0, int(desc['periodic']), ';'.join(ops)), cb)

    # ------------------------------------------------------------ structured boundary algebra (exact oracle)
    def gen_sbnd(self, N):
        c = self.c
        for icase in range(N):
            rec = c10x.sbnd_case(self.rng, self.quick)
            c.case(rec['key'], nontrivial=len(rec['steps']) > 0 or any(rec['desc']['periodic']))
            for k in rec['counts']: c.count(k)
            c.sample(dict(rec['desc'], outcome=rec.get('exc', 'compared')), limit=8)
            for sig, what, extra in rec['problems']:
                self.fail('sbnd', sig, what, dict(rec['desc'], **extra))
            if 'exc' in rec:
                cls = rec['cls']
                c.count('sbnd-outcome:' + cls)
                if cls.startswith('crash') or cls == 'inconsistent:geometry':
                    self.fail('sbnd', 'sbnd:' + cls, 'slices / refinements / boundaries of a structured topology raise ' + rec['exc'], rec['desc'])
                else:      # every generated pipeline is valid
                    self.disagree('sbnd', 'pipeline of supported structured operations fails: ' + rec['exc'], rec['desc'])
        c.obligation('spec:structured-boundary-algebra', self.bad.get('sbnd', 0) == 0, 'exploration',
                     'refine/boundary/slice commute on (slices of) periodic structured topologies: hull faces, named groups, boundary of the boundary, refined interfaces vs exact integer recomputation')

    # ------------------------------------------------------------ trimming with zero-rich nodal level sets (worker records)
    def finish_trimnodal(self, recs):
        c = self.c
        nconfirm = 0
        for rec in recs:
            c.case(rec.get('key'), nontrivial=rec.get('nontrivial', False))
            for k in rec['counts']: c.count(k)
            c.sample(dict({k: v for k, v in rec['desc'].items() if k != 'nodal'}, steps=rec['steps'], outcome=rec.get('exc', 'measured')), limit=10)
            for name, val, where in rec['checks']: c.count('trimnodal-identity:' + name)
            bad = [(name, val, where) for name, val, where in rec['checks'] if not abs(val) <= FAIL]
            if not bad and 'exc' not in rec:
                continue
            # confirm in this process (the case is a pure function of its seed) before any verdict
            if nconfirm < 12:
                nconfirm += 1
                again = c10x.trimnodal_case((rec['seed'], self.quick))
            else:
                again = rec
            desc = dict(rec['desc'], steps=rec['steps'], measured=rec.get('measured'))
            if 'exc' in rec:
                if 'exc' not in again:
                    self.disagree('trimnodal', 'worker outcome not reproduced in the parent process: ' + rec['exc'], desc); continue
                cls = rec['cls']
                c.count('trimnodal-outcome:' + cls)
                if cls == 'known:mosaic-child_refs':
                    self.fail('trimnodal', 'trimmed-then-refined_by:AttributeError', 'refining a trimmed topology raises ' + rec['exc'], desc)
                elif cls.startswith('crash') or cls == 'inconsistent:geometry':
                    self.fail('trimnodal', 'trimnodal:' + cls, 'trimming with a nodal level set raises ' + rec['exc'], desc)
                else:
                    self.disagree('trimnodal', 'trimming with a nodal level set / faces of the result are rejected: ' + rec['exc'], desc)
                continue
            abad = {(name, where) for name, val, where in again.get('checks', []) if not abs(val) <= FAIL}
            # one verdict per case: the most elementary violated identity names the root cause
            order = ['partition:trim-minus', 'element-references-closed', 'closed', 'element-divergence', 'perimeter', 'normals-opposite', 'interface-position-jump', 'cut:normals', 'cut:measure', 'cut:moments']
            bad.sort(key=lambda t: order.index(t[0]) if t[0] in order else len(order))
            for name, val, where in bad[:1]:
                if (name, where) not in abad:
                    self.disagree('trimnodal', 'worker measurement not reproduced in the parent process: %s = %r' % (name, val), desc); continue
                self.fail('trimnodal', 'trimnodal:%s:%s' % (name, where), 'identity %s violated by %.3g on %s trimmed by a nodal level set (%s, maxrefine=%d, ndivisions=%d; %s)' % (
                    name, val, where, rec['desc']['field'], rec['desc']['maxrefine'], rec['desc']['ndivisions'], ' '.join(rec['steps'])), dict(desc, identity=name, value=val))
        c.obligation('spec:trimmed-nodal-levelsets', self.bad.get('trimnodal', 0) == 0, 'exploration',
                     'level sets with exact zeros along grid lines: partition, per-element divergence theorem, perimeter bookkeeping (independent interface measure), closed boundary, shared cut')

    def finish_numeric(self):
        self.c.obligation('spec:numeric-identities', self.bad.get('numeric', 0) == 0, 'exploration',
                          'volume conservation, trim partition, closed boundary, divergence identity with discontinuous weight, shared cut, interfaces vs connectivity on structured / simplex / mixed / multipatch / product / union topologies')


def kuhn_mesh(n):
    """unit cube of n^3 cells, each split into 6 tetrahedra (Kuhn), as a SimplexTopology"""
    from nutils import mesh
    N = n + 1
    vid = lambda i, j, k: (i * N + j) * N + k
    nodes = []
    for i in range(n):
        for j in range(n):
            for k in range(n):
                for perm in itertools.permutations(range(3)):
                    p = [i, j, k]; tet = [vid(*p)]
                    for ax in perm:
                        p[ax] += 1; tet.append(vid(*p))
                    nodes.append(tet)
    nodes = numpy.array(nodes, dtype=int)
    order = numpy.lexsort(nodes.T[::-1])
    nodes = nodes[order]
    coords = numpy.array([[i, j, k] for i in range(N) for j in range(N) for k in range(N)], dtype=float) / n
    return mesh.simplex(nodes, nodes, coords, {}, {}, {})
