"""C19 helper: expression version 1, axes of INFERRED length.

v1 has constructs whose axis lengths are not given by a variable but deduced from the rest of the string:
the dirac `δ_ij` / `$_ij`, a constant with indices `1_i`, an argument `?u_i` that is new to the namespace; the
stack `<a, b>_i` fixes a length by its number of entries.  The documented reading ("the shape of the dirac / of the
argument is deduced from the expression") is: axes that carry the same index in a product or trace, or are matched
by an addition / stack, have the same length; the two axes of a dirac have the same length; all occurrences of one
argument have the same shape.  A length that is not determined this way, or that is required to be two different
numbers, violates the rule "mismatching lengths" and must be rejected with ExpressionSyntaxError.

This module provides
  * `GenLen` — c19gen.Gen extended with the nodes
        ('dirac', sym, idx)   ('cnum', text, idx)   ('arg', name, idx)   ('stack', [expr, ...], index)
        ('subst', item, [(argname, idx, expr), ...])        the substitution `item(arg_idx = expr, ...)`
    in EVERY item position (numerators, denominators, exponents, function arguments, stack entries, nested groups);
  * `LenReader` — the specification oracle: unification of the unknown lengths (union-find, independent of v1's
    `linked_lengths` algebra) and the exact index-notation value once all lengths are known;
  * `V1ConstWorld` — an `expression_v1.Namespace` of constant arrays, evaluated with `Array.eval(arguments=...)`;
  * `stream` — the exploration stream (run by c19.run).
"""
import itertools
from fractions import Fraction
import numpy
from . import c19gen as G

NEW_ARGS = ['u', 'v', 'w', 'u']              # arguments unknown to the namespace (shape deduced); few names, so they recur
BY_NDIM = {0: ['z', 't'], 1: ['u', 'v', 'u'], 2: ['w', 'W']}
BY_SHAPE = {(): 'z', (2,): 'u', (3,): 'v', (2, 2): 'w', (3, 3): 'W', (2, 3): 'y', (3, 2): 'Y'}     # consistent naming: one name per shape
DECLARED = {'p': (2,), 'q': (3,)}            # arguments the namespace already knows (declared through ns.attr = '...')


# ---------------------------------------------------------------------------------------------- printer

def pr(node, st=None):
    """v1 printing of the extended ASTs (delegates to c19gen.pr for the common nodes)"""
    st = st or G.Style()
    k = node[0]
    if k == 'dirac': return node[1] + '_' + node[2]
    if k == 'cnum': return node[1] + ('_' + node[2] if node[2] else '')
    if k == 'arg': return '?' + node[1] + ('_' + node[2] if node[2] else '')
    if k == 'stack': return '<' + st.pad() + (',' + st.sp()).join(pr(e, st) for e in node[1]) + st.pad() + '>_' + node[2]
    if k == 'subst':
        eq = '=' if st.rng is None or st.rng.random() < .7 else ' = '
        return pr(node[1], st) + '(' + st.pad() + (',' + st.sp()).join(n + ('_' + i if i else '') + eq + pr(e, st) for n, i, e in node[2]) + st.pad() + ')'
    if k == 'call': return node[1] + ('_' + node[2] if node[2] else '') + '(' + st.pad() + pr(node[3], st) + st.pad() + ')'
    if k == 'paren': return '(' + st.pad() + pr(node[1], st) + st.pad() + ')'
    if k == 'pow':
        e = node[2]
        return pr(node[1], st) + '^' + (str(e[1]) if e[0] == 'int' else '(' + st.pad() + pr(e[1], st) + st.pad() + ')')
    if k == 'term': return st.sp().join(pr(f, st) for f in node[1]) if len(node[1]) > 1 else pr(node[1][0], st)
    if k == 'frac': return pr(node[1], st) + st.op('/') + pr(node[2], st)
    if k == 'expr':
        s = ('-' + st.pad() if node[1] else '') + pr(node[2][0][1], st)
        for sub, t in node[2][1:]:
            s += st.op('-' if sub else '+') + pr(t, st)
        return s
    return G.pr(node, st, v1=True)


def constructs(node, acc=None, where='top'):
    """tags `<construct>@<position>` for the distribution report"""
    acc = set() if acc is None else acc
    k = node[0]
    if k in ('dirac', 'cnum', 'arg', 'stack'):
        if k != 'cnum' or node[2]: acc.add('%s@%s' % (k, where))
    if k == 'subst': acc.add('subst@' + where)
    if k == 'stack':
        for e in node[1]: constructs(e, acc, 'stack')
    elif k == 'subst':
        constructs(node[1], acc, where)
        for _, _, e in node[2]: constructs(e, acc, 'substitution')
    elif k == 'call': constructs(node[3], acc, 'call')
    elif k == 'paren': constructs(node[1], acc, where)
    elif k == 'pow':
        constructs(node[1], acc, where)
        if node[2][0] == 'paren': constructs(node[2][1], acc, 'exponent')
    elif k == 'term':
        for f in node[1]: constructs(f, acc, where)
    elif k == 'frac': constructs(node[1], acc, where); constructs(node[2], acc, 'denominator')
    elif k == 'expr':
        for _, t in node[2]: constructs(t, acc, where)
    return acc


# ---------------------------------------------------------------------------------------------- generator

class GenLen(G.Gen):
    """source ASTs with inferred-length constructs in every item position"""

    def __init__(self, rng, ctx, p_infer=.45):
        super().__init__(rng, ctx, sides=False, gradient=False, v1=True)
        self.p_infer = p_infer

    def top(self, free, depth):
        self.consistent = self.rng.random() < .6        # one argument name per shape: repeated arguments agree (else: names at random, conflicts are likely)
        # letters whose length must be fixed by a plain variable before a construct of deduced length may carry them (keeps most strings valid)
        self.anchor = {l for l, _ in free if self.rng.random() < .85}
        return super().top(free, depth)

    def argname(self, idx):
        r = self.rng
        if self.consistent: return BY_SHAPE[tuple(n for _, n in idx)]
        return r.choice(NEW_ARGS) if r.random() < .15 else r.choice(BY_NDIM[len(idx)])

    def frac(self, free, depth, avoid):
        if depth > 0 and self.budget > 0 and self.rng.random() < .4:
            n, s1 = self.term(free, depth - 1, avoid)
            d, s2 = self.term([], depth - 1, avoid | s1 | {l for l, _ in free})
            return ('frac', n, d), s1 | s2
        return self.term(free, depth, avoid)

    def term(self, free, depth, avoid):
        r = self.rng
        k = r.choice([1, 1, 2, 2, 3]) if depth > 0 else r.choice([1, 1, 2])
        if self.budget <= 0: k = 1
        slots = [[] for _ in range(k)]
        cslot = [] if r.random() < .3 else None        # a number opens the term; with indices it is a constant array of deduced shape
        everything = slots + ([cslot] if cslot is not None and r.random() < .7 else [])
        for ix in free:
            r.choice(everything).append(ix)
        avoid = set(avoid) | {l for l, _ in free}
        mine = set()
        for _ in range(r.choice([0, 0, 1, 1, 2]) if self.budget > 0 else 0):
            l = self.fresh(avoid)
            if l is None: break
            n = r.choice([2, 2, 3])
            avoid.add(l); mine.add(l)
            if r.random() < .75: self.anchor.add(l)
            a, b = r.choice(everything), r.choice(everything)
            if a is b and a is cslot: b = slots[0]       # a constant does not repeat an index
            a.append((l, n)); b.append((l, n))
        link = None
        if self.budget > 1 and r.random() < .2:
            # a dirac that links two factors: `a_l δ_lm b_m`; both partners are anchored to plain variables most of the time
            l = self.fresh(avoid); m = self.fresh(avoid | {l}) if l else None
            if l and m:
                n = r.choice([2, 2, 3]); avoid |= {l, m}; mine |= {l, m}
                if r.random() < .8: self.anchor |= {l, m}
                r.choice(slots).append((l, n)); r.choice(slots).append((m, n))
                link = ('dirac', r.choice('δδ$'), l + m); self.budget -= 1
        factors = []
        if cslot is not None:
            text = r.choice(['2', '3', '1', '1', '10', '1.5', '.5', '2.'])
            factors.append(('cnum', text, ''.join(l for l, _ in cslot)) if cslot else ('num', text))
        summed = set(mine)
        for sl in slots:
            r.shuffle(sl)
            f, s = self.power(sl, depth, avoid)
            factors.append(f); summed |= s; avoid |= s
        if link is not None:
            factors.insert(r.randint(1 if factors[0][0] in ('num', 'cnum') else 0, len(factors)), link)
        return ('term', factors), summed

    def item(self, idx, depth, avoid):
        r = self.rng
        letters = [l for l, _ in idx]
        dups = {l for l in letters if letters.count(l) > 1}
        if r.random() < self.p_infer and not any(l in self.anchor for l in letters):
            opts = []
            if len(idx) == 2 and idx[0][1] == idx[1][1]: opts += ['dirac'] * 3
            if len(idx) <= 2 and all(letters.count(l) <= 2 for l in letters): opts += ['arg'] * 2
            if len(idx) == 1: opts += ['declared']
            if idx and not dups and depth > 0 and self.budget > 1: opts += ['stack'] * 2
            if len(idx) <= 2 and not dups and depth > 0 and self.budget > 1: opts += ['subst'] * 2
            if opts:
                self.budget -= 1
                kind = r.choice(opts)
                if kind == 'dirac':
                    return ('dirac', r.choice('δδ$'), ''.join(letters)), set(dups)
                if kind == 'arg':
                    return ('arg', self.argname(idx), ''.join(letters)), set(dups)
                if kind == 'declared':
                    return ('arg', r.choice(sorted(DECLARED)), ''.join(letters)), set()
                if kind == 'subst':
                    # `?u_ij(u_ji = <expression with free indices i, j>)`, or a group containing the argument; the right-hand side lives in a scope of its own
                    name = self.argname(idx)
                    inner = ('arg', name, ''.join(letters))
                    summed = set()
                    if r.random() < .4:
                        other, summed = super().item(list(idx), 0, avoid)
                        inner = ('paren', ('expr', False, [(False, ('term', [inner])), (r.random() < .5, ('term', [other]))]))
                    lhs = list(idx)
                    if len(lhs) == 2 and r.random() < .15: lhs.reverse()       # (axes swapped: fine when the lengths agree, a length conflict otherwise)
                    if r.random() < .3:      # local names for the left-hand side
                        ren = dict(zip([l for l, _ in lhs], r.sample(G.LETTERS, len(lhs))))
                        lhs = [(ren[l], n) for l, n in lhs]
                    rhs, _ = self.expr(list(lhs), min(depth - 1, 1), set(l for l, _ in lhs))
                    # the k-th axis of the argument carries letters[k] inside and the k-th left-hand-side letter in the substitution
                    return ('subst', inner, [(name, ''.join(l for l, _ in lhs), rhs)]), summed
                si = r.choice(idx)
                rest = list(idx); rest.remove(si)
                n = si[1] if r.random() < .9 else si[1] + r.choice([-1, 1])
                entries = []; summed = set()
                for _ in range(n):
                    if not rest and r.random() < .5:
                        entries.append(('expr', False, [(False, ('term', [('num', r.choice(['1', '2', '3', '0', '.5']))]))]))
                    else:
                        e, s = self.expr(list(rest), min(depth - 1, 1), avoid | {si[0]})
                        entries.append(e); summed |= s
                return ('stack', entries, si[0]), summed
        node, summed = super().item(idx, depth, avoid)
        if node[0] == 'call' and node[2]:       # generated axes have a deduced length of their own in v1: not part of this grammar
            node, summed = super().item(idx, 0, avoid)
        if node[0] == 'var': self.anchor -= set(letters)
        return node, summed


# ---------------------------------------------------------------------------------------------- length unification

class LVar:
    """an unknown axis length (union-find node)"""
    __slots__ = ('parent', 'value')

    def __init__(self): self.parent = self; self.value = None

    def find(self):
        x = self
        while x.parent is not x: x = x.parent
        y = self
        while y.parent is not y: y.parent, y = x, y.parent
        return x


def unify(a, b, what='axes'):
    """demand that the lengths a and b (int or LVar) are equal"""
    a = a.find() if isinstance(a, LVar) else a
    b = b.find() if isinstance(b, LVar) else b
    if isinstance(a, LVar) and a.value is not None: va = a.value
    else: va = a if not isinstance(a, LVar) else None
    if isinstance(b, LVar) and b.value is not None: vb = b.value
    else: vb = b if not isinstance(b, LVar) else None
    if va is not None and vb is not None and va != vb:
        raise G.Reject('%s have different lengths: %d, %d' % (what, va, vb))
    if isinstance(a, LVar) and isinstance(b, LVar):
        if a is not b:
            b.parent = a
            if a.value is None: a.value = vb
    elif isinstance(a, LVar): a.value = vb
    elif isinstance(b, LVar): b.value = va


def known(x):
    if isinstance(x, LVar):
        return x.find().value
    return x


class Sh:
    """labels (free index letters), lens (int or LVar per label), summed letters, ev() -> exact object array once all lengths are known"""
    __slots__ = ('labels', 'lens', 'summed', 'ev')

    def __init__(self, labels, lens, summed, ev):
        self.labels, self.lens, self.summed, self.ev = list(labels), list(lens), set(summed), ev


def arg_data(name, shape):
    """the value the harness gives to argument `?name` of a given shape (small integers, never all zero)"""
    out = numpy.empty(shape, dtype=object)
    for i in itertools.product(*map(range, shape)):
        out[i] = Fraction((sum((k + 2) * (j + 1) for k, j in enumerate(i)) * 3 + ord(name[0])) % 7 - 2) or Fraction(3)
    return out


class LenReader:
    """the specification oracle for v1 strings with inferred lengths.

    `read(ast, target)` returns (Val, {argument: shape}) or raises c19gen.Reject (a documented rule is violated, lengths
    included) / c19gen.Degenerate (nothing to compare)."""

    def __init__(self, ctx, declared=DECLARED):
        self.ctx, self.declared = ctx, dict(declared)

    def read(self, ast, target):
        self.vars = []          # every unknown length created
        self.args = {}          # argument name -> list of lengths
        self.env = []           # substitutions in force while a value is computed: [(name, array)]
        sh = self.rd(ast)
        if len(set(target)) != len(target) or set(target) != set(sh.labels) or len(target) != len(sh.labels):
            raise G.Reject('indices of the expression differ from the requested ones')
        for v in self.vars:
            if v.find().value is None: raise G.Reject('length of an axis cannot be determined from the expression')
        arr = sh.ev()
        val = G.Val(sh.labels, arr, sh.summed)
        return val, {n: tuple(known(l) for l in ls) for n, ls in self.args.items()}

    def new(self):
        v = LVar(); self.vars.append(v); return v

    # -- attaching indices to the trailing axes of something (variables, diracs, arguments, calls)
    def indexed(self, lens, ev, labels0, idx, summed, inferred=False):
        if len(lens) - len(labels0) != len(idx): raise G.Reject('wrong number of indices')
        labels = list(labels0); sel = [slice(None)] * len(labels0); keep = list(lens[:len(labels0)])
        for ax, ch in enumerate(idx, len(labels0)):
            if ch.isdigit() and ch in '0123456789':
                n = known(lens[ax])
                if n is not None and int(ch) >= n: raise G.Reject('numeral out of range')
                sel.append((int(ch), lens[ax]))
            elif 'a' <= ch <= 'z':
                sel.append(slice(None)); labels.append(ch); keep.append(lens[ax])
            else:
                raise G.Reject('bad index symbol')
        def ev1():
            arr = ev()
            s = []
            for x in sel:
                if isinstance(x, tuple):
                    if x[0] >= known(x[1]): raise G.Degenerate('numeral beyond a deduced length')
                    s.append(x[0])
                else: s.append(x)
            arr = arr[tuple(s)]
            return G._o(arr)
        return self.contract([Sh(labels, keep, summed, ev1)])

    def contract(self, factors):
        """einsum reading of a product of factors (also of a single factor with repeated labels)"""
        count = {}
        for f in factors:
            for l in f.labels: count[l] = count.get(l, 0) + 1
        seen = set()
        for f in factors:
            for l in f.summed:
                if l in seen or l in count: raise G.Reject('index %s occurs more than twice' % l)
            seen |= f.summed
        for l, n in count.items():
            if n > 2: raise G.Reject('index %s occurs more than twice' % l)
        length = {}
        for f in factors:
            for l, n in zip(f.labels, f.lens):
                if l in length: unify(length[l], n, 'axes with index %s' % l)
                else: length[l] = n
        free = []
        for f in factors:
            for l in f.labels:
                if count[l] == 1 and l not in free: free.append(l)
        dummy = {l for l, n in count.items() if n == 2}
        def ev():
            fr, out, _ = G._contract([(f.ev(), f.labels) for f in factors], [f.summed for f in factors])
            assert fr == free
            return out
        if len(factors) == 1 and not dummy:
            return Sh(free, [length[l] for l in free], seen, factors[0].ev)
        return Sh(free, [length[l] for l in free], seen | dummy, ev)

    def scalar_op(self, a, b, fn, what):
        if b.labels: raise G.Reject(what + ' must be a scalar')
        if a.summed & b.summed or set(a.labels) & (a.summed | b.summed): raise G.Reject('index occurs more than twice')
        def ev():
            x = a.ev(); y = b.ev()[()]
            out = numpy.empty(x.shape, dtype=object)
            for i in itertools.product(*map(range, x.shape)): out[i] = fn(x[i], y)
            return out
        return Sh(a.labels, a.lens, a.summed | b.summed, ev)

    def rd(self, node):
        k = node[0]
        if k == 'num':
            return Sh([], [], (), lambda: G._o(G._literal(node[1])))
        if k == 'cnum':
            idx = node[2]
            if any(not ('a' <= ch <= 'z') for ch in idx): raise G.Reject('a constant takes letters as indices')
            if len(set(idx)) != len(idx): raise G.Reject('indices of a constant may not be repeated')
            lens = [self.new() for _ in idx]
            def ev():
                out = numpy.empty([known(l) for l in lens], dtype=object); out[...] = G._literal(node[1]); return out
            return Sh(list(idx), lens, (), ev)
        if k == 'var':
            arr = self.ctx.vars.get(node[1])
            if arr is None: raise G.Reject('unknown variable')
            return self.indexed(list(arr.shape), lambda: arr, [], node[2], ())
        if k == 'dirac':
            L = self.new()
            def ev():
                n = known(L); out = numpy.empty((n, n), dtype=object)
                for i in range(n):
                    for j in range(n): out[i, j] = Fraction(int(i == j))
                return out
            if len(node[2]) != 2: raise G.Reject('a dirac takes two indices')
            return self.indexed([L, L], ev, [], node[2], ())
        if k == 'arg':
            name, idx = node[1], node[2]
            if name in self.args: lens = self.args[name]
            elif name in self.declared: lens = self.args[name] = list(self.declared[name])
            else: lens = self.args[name] = [self.new() for _ in idx]
            if len(lens) != len(idx): raise G.Reject('argument used with a different number of axes')
            def ev():
                for n, a in reversed(self.env):
                    if n == name: return a
                return arg_data(name, tuple(known(l) for l in lens))
            return self.indexed(lens, ev, [], idx, ())
        if k == 'subst':
            inner = self.rd(node[1])
            subs = []; seen = set()
            if not node[2]: raise G.Reject('zero substitutions')
            for name, lidx, rhs in node[2]:
                if name in seen: raise G.Reject('argument substituted twice')
                seen.add(name)
                if any(not ('a' <= ch <= 'z') for ch in lidx) or len(set(lidx)) != len(lidx): raise G.Reject('left-hand side of a substitution takes distinct letters')
                if name in self.args: lens = self.args[name]
                elif name in self.declared: lens = self.args[name] = list(self.declared[name])
                else: lens = self.args[name] = [self.new() for _ in lidx]
                if len(lens) != len(lidx): raise G.Reject('argument used with a different number of axes')
                r = self.rd(rhs)
                if set(r.labels) != set(lidx) or len(r.labels) != len(lidx): raise G.Reject('both sides of a substitution must have the same indices')
                for q, ch in enumerate(lidx): unify(lens[q], r.lens[r.labels.index(ch)], 'both sides of a substitution')
                subs.append((name, lidx, r))
            def ev():
                vals = [(name, r.ev().transpose([r.labels.index(ch) for ch in lidx])) for name, lidx, r in subs]     # in the outer scope
                self.env.extend(vals)
                try: return inner.ev()
                finally: del self.env[len(self.env) - len(vals):]
            return Sh(inner.labels, inner.lens, inner.summed, ev)
        if k == 'stack':
            subs = [self.rd(e) for e in node[1]]
            l = node[2]
            if not subs: raise G.Reject('empty stack')
            if len(l) != 1 or not ('a' <= l <= 'z'): raise G.Reject('a stack takes one letter as index')
            first = subs[0]
            summed = set()
            for s in subs:
                if l in s.labels or l in s.summed: raise G.Reject('stack index occurs inside the stack')
                if set(s.labels) != set(first.labels) or len(s.labels) != len(first.labels): raise G.Reject('stack entries have different indices')
                for lab, n in zip(s.labels, s.lens): unify(first.lens[first.labels.index(lab)], n, 'stack entries')
                summed |= s.summed
            def ev():
                arrs = [s.ev().transpose([s.labels.index(x) for x in first.labels]) for s in subs]
                out = numpy.empty((len(arrs),) + arrs[0].shape, dtype=object)
                for q, a in enumerate(arrs): out[q] = a if a.ndim else a[()]
                return out
            return Sh([l] + first.labels, [len(subs)] + first.lens, summed, ev)
        if k == 'call':
            arg = self.rd(node[3])
            if node[1] not in self.ctx.fns: raise G.Reject('unknown function')
            gen, fn = self.ctx.fns[node[1]]
            def ev():
                a = arg.ev(); out = numpy.empty(a.shape + gen, dtype=object)
                for i in itertools.product(*map(range, a.shape)):
                    for q in itertools.product(*map(range, gen)): out[i + q] = fn(a[i], q)
                return out
            return self.indexed(arg.lens + list(gen), ev, arg.labels, node[2], arg.summed)
        if k == 'paren':
            return self.rd(node[1])
        if k == 'pow':
            base = self.rd(node[1])
            e = Sh([], [], (), lambda: G._o(Fraction(node[2][1]))) if node[2][0] == 'int' else self.rd(node[2][1])
            return self.scalar_op(base, e, G._pow, 'an exponent')
        if k == 'term':
            fs = [self.rd(f) for f in node[1]]
            for f in node[1][1:]:
                if f[0] in ('num', 'cnum') or (f[0] == 'pow' and f[1][0] in ('num', 'cnum')): raise G.Reject('number not at the start of a term')
            return fs[0] if len(fs) == 1 else self.contract(fs)
        if k == 'frac':
            return self.scalar_op(self.rd(node[1]), self.rd(node[2]), G._div, 'a denominator')
        if k == 'expr':
            ts = [self.rd(t) for _, t in node[2]]
            first = ts[0]
            summed = set(first.summed)
            for t in ts[1:]:
                if set(t.labels) != set(first.labels) or len(t.labels) != len(first.labels): raise G.Reject('terms have different indices')
                for lab, n in zip(t.labels, t.lens): unify(first.lens[first.labels.index(lab)], n, 'terms')
                summed |= t.summed
            neg = node[1]; subs = [s for s, _ in node[2]]
            def ev():
                tot = first.ev()
                tot = G._o(-tot) if neg else tot
                for s, t in zip(subs[1:], ts[1:]):
                    a = t.ev().transpose([t.labels.index(x) for x in first.labels])
                    tot = G._o(tot - a) if s else G._o(tot + a)
                return G._o(tot)
            return Sh(first.labels, first.lens, summed, ev)
        raise G.Reject('construct outside the v1 length grammar: %s' % k)


# ---------------------------------------------------------------------------------------------- AST-level violations of the length rules

def _subnodes(node, acc):
    acc.append(node)
    k = node[0]
    if k == 'stack':
        for e in node[1]: _subnodes(e, acc)
    elif k == 'subst':
        _subnodes(node[1], acc)
        for _, _, e in node[2]: _subnodes(e, acc)
    elif k == 'call': _subnodes(node[3], acc)
    elif k == 'paren': _subnodes(node[1], acc)
    elif k == 'pow':
        _subnodes(node[1], acc)
        if node[2][0] == 'paren': _subnodes(node[2][1], acc)
    elif k == 'term':
        for f in node[1]: _subnodes(f, acc)
    elif k == 'frac': _subnodes(node[1], acc); _subnodes(node[2], acc)
    elif k == 'expr':
        for _, t in node[2]: _subnodes(t, acc)
    return acc


def _replace(node, old, new):
    if node is old: return new
    k = node[0]
    R = lambda x: _replace(x, old, new)
    if k == 'stack': return ('stack', [R(e) for e in node[1]], node[2])
    if k == 'subst': return ('subst', R(node[1]), [(n, i, R(e)) for n, i, e in node[2]])
    if k == 'call': return ('call', node[1], node[2], R(node[3]))
    if k == 'paren': return ('paren', R(node[1]))
    if k == 'pow': return ('pow', R(node[1]), ('paren', R(node[2][1])) if node[2][0] == 'paren' else node[2])
    if k == 'term': return ('term', [R(f) for f in node[1]])
    if k == 'frac': return ('frac', R(node[1]), R(node[2]))
    if k == 'expr': return ('expr', node[1], [(s, R(t)) for s, t in node[2]])
    return node


OTHER_LENGTH = {'a': 'c', 'b': 'c', 'c': 'a', 'basis': 'b', 'A': 'D', 'E': 'D', 'D': 'A', 'B': 'C', 'C': 'B'}


def violate(ast, rng, ctx):
    """one change aimed at the LENGTH rules (the oracle decides whether the result is still valid):
    swap-length   a variable replaced by one whose axes have other lengths (a_i -> c_i): conflicts, or only re-determines
    to-inferred   a variable replaced by an argument / dirac / constant of deduced shape: a determinant of a length is removed
    rename-arg    an argument renamed to another one of the string: two shapes for one argument
    stack-entry   one more / one less entry in a stack"""
    nodes = _subnodes(ast, [])
    kind = rng.choice(['swap-length', 'swap-length', 'to-inferred', 'to-inferred', 'rename-arg', 'stack-entry'])
    if kind == 'swap-length':
        c = [n for n in nodes if n[0] == 'var' and n[1] in OTHER_LENGTH and n[2].isalpha()]
        if c:
            n = rng.choice(c); return kind, _replace(ast, n, ('var', OTHER_LENGTH[n[1]], n[2]))
    if kind == 'to-inferred':
        c = [n for n in nodes if n[0] == 'var' and n[2] and n[2].isalpha() and len(n[2]) <= 2]
        if c:
            n = rng.choice(c)
            new = ('dirac', 'δ', n[2]) if len(n[2]) == 2 and rng.random() < .5 else ('arg', rng.choice(NEW_ARGS), n[2])
            return kind, _replace(ast, n, new)
    if kind == 'rename-arg':
        c = [n for n in nodes if n[0] == 'arg']
        if len({n[1] for n in c}) > 1:
            n = rng.choice(c); other = rng.choice(sorted({m[1] for m in c} - {n[1]}))
            return kind, _replace(ast, n, ('arg', other, n[2]))
    if kind == 'stack-entry':
        c = [n for n in nodes if n[0] == 'stack']
        if c:
            n = rng.choice(c)
            entries = n[1] + [n[1][0]] if rng.random() < .5 or len(n[1]) < 2 else n[1][:-1]
            return kind, _replace(ast, n, ('stack', entries, n[2]))
    return 'none', ast


# ---------------------------------------------------------------------------------------------- the real v1 namespace on constants

V1_CONST_FNS = dict(f=lambda u: 2 * u + 1, h=lambda u: u * u)


class V1ConstWorld:
    def __init__(self, v1, ctx):
        self.v1 = v1
        ns = v1.Namespace(functions=V1_CONST_FNS)
        for name, arr in ctx.vars.items():
            if name in ('n', 'x', 'δ'): continue
            setattr(ns, name, numpy.array(arr, dtype=float))
        # arguments the namespace knows already: declared through the public route `ns.attr = 'expression with ?arg'`
        ns.declp = '?p_i a_i'
        ns.declq = '?q_i c_i'
        self.ns = ns
        self.declared = {k: tuple(int(n) for n in v) for k, v in ns.arg_shapes.items()}

    def evaluate(self, s, target):
        """('syntax', msg) | ('exc', type, msg, where) | ('built', argshapes, 'value', array) | ('built', argshapes, 'evalfail', text)"""
        from .c19 import origin, origin_function, EXPRESSION_FILES
        v1 = self.v1
        try:
            arr = getattr(self.ns, 'eval_' + target)(s)
        except v1.ExpressionSyntaxError as e:
            return ('syntax', str(e).split('\n')[0])
        except SyntaxError as e:
            if 'no longer supported' in str(e): return ('syntax', 'legacy syntax: ' + str(e)[:60])
            return ('exc', 'SyntaxError', str(e)[:80], origin_function(e))
        except Exception as e:
            return ('exc', type(e).__name__, str(e)[:80], origin_function(e) if origin(e) in EXPRESSION_FILES else 'outside:' + origin(e))
        try:
            shapes = {k: tuple(int(n) for n in sh) for k, (sh, dt) in arr.arguments.items()}
            val = numpy.asarray(arr.eval(arguments={k: numpy.array(arg_data(k, sh), dtype=float) for k, sh in shapes.items()}))
        except Exception as e:
            return ('built', None, 'evalfail', '%s: %s' % (type(e).__name__, str(e)[:80]))
        return ('built', shapes, 'value', val)


# ---------------------------------------------------------------------------------------------- the stream

def T(*fs): return ('term', list(fs))
def E(*ts, neg=False): return ('expr', neg, [(False, t) if not isinstance(t, tuple) or t[0] != 'sub' else (True, t[1]) for t in ts])
V = lambda n, i='': ('var', n, i)

CORPUS_ASTS = [     # (ast, target)
    (E(T(('dirac', 'δ', 'ij'), V('a', 'j'))), 'i'),
    (E(T(('paren', E(T(V('A', 'ij')), ('sub', T(('num', '2'), ('dirac', 'δ', 'ij'))))), V('a', 'j'))), 'i'),
    (E(T(V('basis', 'i'), ('arg', 'coeffs', 'i'))), ''),
    (E(T(('stack', [E(T(('num', '1'))), E(T(('num', '2')))], 'i'))), 'i'),
    (E(('frac', T(('num', '2')), T(('dirac', 'δ', 'ij'), V('a', 'i'), V('a', 'j')))), ''),
    (E(T(('paren', E(('frac', T(('num', '1')), T(('cnum', '1', 'i'), V('a', 'i')))))), T(('num', '2'))), ''),
    (E(('frac', T(('arg', 'u', 'i'), V('a', 'i')), T(('arg', 'u', 'j'), V('c', 'j')))), ''),
    (E(('frac', T(('arg', 'u', 'i'), V('a', 'i')), T(('arg', 'u', 'j'), V('b', 'j')))), ''),
    (E(T(('arg', 'u', 'i'))), 'i'), (E(T(('dirac', 'δ', 'ii'))), ''), (E(T(V('a', 'i')), T(('cnum', '1', 'i'))), 'i'),
    (E(T(V('a', 'i'), ('dirac', '$', 'ij'), V('c', 'j'))), ''), (E(T(('arg', 'u', 'i'), V('a', 'i')), T(('arg', 'u', 'j'), V('c', 'j'))), ''),
    (E(T(('arg', 'p', 'i'), V('c', 'i'))), ''), (E(T(('arg', 'p', 'i'), V('a', 'i'))), ''),
    (E(T(('pow', V('s'), ('paren', E(T(('dirac', 'δ', 'ij'), V('a', 'i'), V('b', 'j'))))))), ''),
    (E(T(('pow', V('a', 'i'), ('paren', E(T(('arg', 'v', 'j'), V('c', 'j')))))), T(('arg', 'v', 'i'))), 'i'),
    (E(T(('call', 'f', '', E(('frac', T(('num', '1')), T(('cnum', '2', 'i'), V('c', 'i'))))))), ''),
    (E(T(('stack', [E(T(V('a', 'i'))), E(T(('arg', 'w', 'i')))], 'j'), ('dirac', 'δ', 'jk'))), 'ik'),
    (E(T(('num', '2'), ('subst', ('arg', 'x', ''), [('x', '', E(T(('num', '3')), T(V('s'))))]))), ''),
    (E(T(('subst', ('arg', 'u', 'ij'), [('u', 'kl', E(T(V('B', 'kl'))))]), V('c', 'j'))), 'i'),
    (E(T(('subst', ('arg', 'u', 'kk'), [('u', 'ij', E(T(('dirac', 'δ', 'ij'))))]))), ''),
    (E(T(('subst', ('paren', E(T(('arg', 'u', 'i')), T(('cnum', '1', 'i')))), [('u', 'j', E(T(V('c', 'j'))))]))), 'i'),
]


def stream(c, rng, ctx, quick, close, magnitude_ok):
    """v1 length-inference exploration: generated ASTs + AST-level violations of the length rules; the oracle decides"""
    import nutils.expression_v1 as v1
    world = V1ConstWorld(v1, ctx)
    reader = LenReader(ctx, world.declared)
    gen = GenLen(rng, ctx)
    n_ast = 400 if quick else 6000
    cases = [('corpus', ast, tgt) for ast, tgt in CORPUS_ASTS]
    for k in range(n_ast):
        depth = rng.choice([1, 1, 2, 2, 3, 3, 4])
        nfree = rng.choice([0, 0, 0, 1, 1, 2])
        free = [(l, rng.choice([2, 2, 3])) for l in rng.sample(G.LETTERS, nfree)]
        ast, _ = gen.top(free, depth)
        tgt = ''.join(sorted((l for l, _ in free), key=lambda ch: rng.random()))
        cases.append(('ast', ast, tgt))
        for _ in range(2):
            kind, bad = violate(ast, rng, ctx)
            if kind != 'none': cases.append(('violate-' + kind, bad, tgt))
        if rng.random() < .3:
            kind, bad = G.violate(ast, rng, ctx)
            if kind != 'none' and kind not in ('numeral',): cases.append(('violate-' + kind, bad, tgt))
    findings = n = 0
    for tag, ast, tgt in cases:
        s = pr(ast, G.Style(rng if n % 2 else None))
        n += 1
        G.TRACK['max'] = 1
        try:
            val, argshapes = reader.read(ast, tgt)
            spec = ('value', val, argshapes) if magnitude_ok(val.arr) and G.TRACK['max'] < 10**12 else ('degenerate',)
        except G.Reject as e:
            spec = ('reject', str(e))
        except (G.Degenerate, ZeroDivisionError, OverflowError):
            spec = ('degenerate',)
        r = world.evaluate(s, tgt)
        tags = constructs(ast)
        for t in tags: c.count('v1len-construct:' + t)
        c.case(('v1len', s, tgt), nontrivial=bool(tags))
        c.count('v1len:' + tag.split('-')[0]); c.count('v1len-spec:' + spec[0] + (':length' if spec[0] == 'reject' and 'length' in spec[1] else ''))
        c.count('v1len-real:' + (r[0] if r[0] != 'built' else r[2]))
        if len([x for x in c.samples if isinstance(x, dict) and x.get('stream') == 'v1-lengths']) < 3 and tags and len(s) < 60 and spec[0] == 'value':
            c.sample(dict(stream='v1-lengths', string=s, target=tgt, spec='value', args={k: list(v) for k, v in spec[2].items()}, real=[str(x)[:80] for x in r]), limit=40)
        replay = dict(stream='v1-lengths', string=s, target=tgt, tag=tag, ast=repr(ast), spec=[str(x)[:200] for x in spec[:2]], real=[str(x)[:300] for x in r])
        if r[0] == 'exc':
            if r[1] in ('ZeroDivisionError', 'FloatingPointError'): continue
            if r[3].startswith('outside:'):
                if spec[0] == 'reject':
                    findings += 1
                    c.failing_input('v1-rule-violation-accepted', 'v1: a string violating a documented rule (%s) passes the expression parser and fails later with %s' % (spec[1], r[1]), replay)
                continue
            findings += 1
            sig = 'v1-wrong-exception:' + r[1] if (r[1], r[3]) in (('KeyError', '_eval_ast'), ('IndexError', '_apply_indices')) else 'v1-wrong-exception:%s:%s' % (r[1], r[3])
            c.failing_input(sig, 'v1: a string is rejected with %s (raised in %s) instead of ExpressionSyntaxError' % (r[1], r[3]), replay)
        elif spec[0] == 'value':
            if r[0] == 'syntax':
                findings += 1
                c.failing_input('v1-valid-string-rejected', 'the v1 namespace rejects a string that follows the documented grammar (%s)' % r[1][:60], replay)
            elif r[2] == 'value':
                want = G.aligned(spec[1], tgt)
                if any(spec[2].get(name) != sh for name, sh in r[1].items()):       # (substituted arguments are no arguments of the result)
                    findings += 1
                    c.failing_input('v1-argument-shape-differs-from-reading', 'v1 deduces argument shapes %r, the reading requires %r' % (r[1], spec[2]), replay)
                elif not close(r[3], want, G.TRACK['max']):
                    findings += 1
                    c.failing_input('v1-eval-differs-from-reading', 'the v1 namespace evaluates a grammar-conforming string to something else than its index-notation reading', dict(replay, want=repr(want.tolist())))
                else:
                    c.traces += 1; c.count('v1len-reading-value-ok')
        elif spec[0] == 'reject':
            if r[0] == 'built':
                findings += 1
                if r[2] == 'value':
                    c.failing_input('v1-rule-violation-evaluated', 'v1: a string violating a documented rule (%s) is evaluated silently' % spec[1], replay)
                else:
                    c.failing_input('v1-rule-violation-accepted', 'v1: a string violating a documented rule (%s) is accepted by the expression parser (its evaluation fails later: %s)' % (spec[1], r[3]), replay)
            else:
                c.count('v1len-violation-rejected')
    c.obligation('sem:v1-inferred-lengths-vs-reading', findings == 0, 'exploration', '%d strings' % n)
    c.log('stream 6 (v1 inferred lengths, exploration): %d strings, %d failing inputs' % (n, findings))
    return findings
