"""C12 — exploration streams added in the strengthening round (imported by c12.py; `H` below is the c12 module).

* `stream_periodic`  — every structured basis type on periodic topologies that are 1, 2 or 3 elements wide in the periodic
  directions (all subsets of periodic axes, 1-3 dimensions, plus the generic `ConnectedTopology` path): closed dof-count
  formula, inverse maps, partition of unity and continuity across every neighbour pair INCLUDING the periodic seam, decided
  from the per-element coefficient tables (independent of `topo.interfaces` / `connectivity`).
* `stream_multipatch_spline` — multipatch splines on random patch layouts with per-edge `nelems`, `knotmultiplicities` and
  `knotvalues` given on randomly oriented edge keys (a list keyed (a, b) runs from a to b): every local function is compared
  with the tensor product of Cox-de Boor B-splines (exact, Fractions; cross-checked against the Lean model `bspline`) of the
  knot vector the specification gives to that patch direction; merged-iff-same-function; advertised continuity C^(p-m) and
  not smoother at every knot line inside the patches; C^0 across patch interfaces; partition of unity.
* `stream_slices` — `basis[index]` for all slice forms (start / stop / step incl. steps > 1, negative, out of range), index
  arrays and masks, against python/numpy slicing of the parent: length, values, per-element dofs / coefficient rows, supports.

Verdicts: failing inputs are decided by exact recomputation (python ints / Fractions) or a numeric deviation >= 1e-8.
"""
import itertools, math, traceback
from fractions import Fraction
import numpy
from .common import Infra

TOL = 1e-8
# root cause (pinned tree): `_basis_c0_structured` looks up the opposite edge with util.index(connectivity[jelem], ielem), the FIRST
# edge of jelem that faces ielem: wrong when two elements share two interfaces (periodic axis of length 2) or an element is its own
# neighbour along more than one axis
KNOWN_C0_EDGE = 'basis_c0_structured:first-matching-opposite-edge'


def ambiguous_opposite_edge(shape, periodic):
    """specification-side predicate of KNOWN_C0_EDGE on a rectilinear topology"""
    return any(shape[i] == 2 for i in periodic) or sum(1 for i in periodic if shape[i] == 1) >= 2


def dyadic_knots(rng, n, uniform_prob=.5):
    if rng.random() < uniform_prob:
        return [Fraction(i) for i in range(n+1)]
    acc = Fraction(rng.randint(-2, 2)); kv = [acc]
    for _ in range(n):
        acc += Fraction(rng.choice([1, 2, 3, 4, 6]), 4); kv.append(acc)
    return kv


def global_values(poly, basis, e, pts, canon):
    """(len(pts), ndofs) array: coefficient table of element e evaluated at local points, scattered onto get_dofs(e)"""
    dofs = canon(basis.get_dofs(e))
    co = numpy.asarray(basis.get_coefficients(e), dtype=float)
    if co.shape[0] != len(dofs):
        raise TableError('element %d: %d coefficient rows for %d dofs' % (e, co.shape[0], len(dofs)))
    if any(not 0 <= d < basis.ndofs for d in dofs):
        raise TableError('element %d: dof out of range in %s' % (e, dofs))
    w = poly.eval_outer(co, numpy.asarray(pts, dtype=float))
    full = numpy.zeros((len(pts), basis.ndofs))
    numpy.add.at(full, (slice(None), dofs), w)
    return full


class TableError(Exception):
    pass


# ================================================================================================ periodic structured bases

C0_TYPES = ('lagrange', 'bernstein', 'std', 'connected-std')


def periodic_ndofs(btype, shape, periodic, p):
    nd = len(shape)
    if btype in C0_TYPES:
        return math.prod(n*p + (0 if i in periodic else 1) for i, n in enumerate(shape))
    if btype == 'spline':
        return math.prod(n if i in periodic else n+p for i, n in enumerate(shape))
    if btype in ('discont', 'legendre'):
        return math.prod(shape) * (p+1)**nd
    raise ValueError(btype)


def periodic_case_violation(c, H, mods, poly, btype, shape, periodic, p, replay):
    """None or (kind, text); all decisions from closed formulas / coefficient tables"""
    mesh, function, topology, element, transformseq = mods
    rng = c.rng
    nd = len(shape)
    kvs = [dyadic_knots(rng, n) for n in shape]
    replay.update(knotvalues=[[str(k) for k in kv] for kv in kvs])
    topo, geom = mesh.rectilinear([[float(k) for k in kv] for kv in kvs], periodic=periodic)
    if btype == 'connected-std':
        topo = topology.ConnectedTopology(topo.space, topo.references, topo.transforms, topo.opposites, topo.connectivity)
        basis = topo.basis('std', degree=p)
    else:
        basis = topo.basis(btype, degree=p)
    c.count('periodic-class:' + type(basis).__name__)
    if basis.nelems != math.prod(shape):
        return 'nelems', 'basis.nelems %d for %d elements' % (basis.nelems, math.prod(shape))
    want = periodic_ndofs(btype, shape, periodic, p)
    if basis.ndofs != want:
        return 'ndofs', 'the basis has %d functions, the %s space of degree %d on shape %s periodic %s has dimension %d' % (basis.ndofs, btype, p, shape, list(periodic), want)
    dofs, supp = H.real_basis_tables(basis)
    why = H.inverse_violation(dofs, supp, basis.ndofs)
    if why: return 'inverse', 'get_support is not the inverse of get_dofs: ' + why
    k = 2
    multi = list(itertools.product(*[range(n) for n in shape]))
    index = {mi: e for e, mi in enumerate(multi)}
    pou = btype != 'legendre'
    try:
        for d in range(nd):
            for mi in multi:
                if mi[d] + 1 < shape[d]: mj = mi[:d] + (mi[d]+1,) + mi[d+1:]
                elif d in periodic: mj = mi[:d] + (0,) + mi[d+1:]
                else: continue
                pts = numpy.array([[rng.randint(1, 15)/16 for _ in range(nd)] for _ in range(k)])
                a = pts.copy(); a[:, d] = 1.
                b = pts.copy(); b[:, d] = 0.
                va = global_values(poly, basis, index[mi], a, H.canon)
                vb = global_values(poly, basis, index[mj], b, H.canon)
                jump = abs(va - vb)
                where = 'between elements %s and %s (axis %d%s)' % (list(mi), list(mj), d, ', periodic seam' if mj[d] == 0 and shape[d] - 1 == mi[d] else '')
                if btype in ('discont', 'legendre'):
                    if not (p == 0 and mi == mj) and jump.max(axis=1).min() < 1e-6:
                        return 'forced-continuous', 'a discontinuous basis has no jump at some point ' + where
                else:
                    c.extra['max_jump'] = max(c.extra.get('max_jump', 0.), float(jump.max()))
                    if jump.max() >= TOL:
                        return 'continuity', 'the basis jumps by %.3g %s (C^0 advertised)' % (jump.max(), where)
                if pou:
                    for v in (va, vb):
                        s = abs(v.sum(1) - 1).max()
                        if s >= TOL: return 'pou', 'the basis sums to 1%+.3g at a point %s' % (s, where)
        # interior points of every element: partition of unity (also covers topologies without any neighbour pair)
        if pou:
            for e in range(len(multi)):
                pts = numpy.array([[rng.randint(1, 15)/16 for _ in range(nd)] for _ in range(k)])
                s = abs(global_values(poly, basis, e, pts, H.canon).sum(1) - 1).max()
                if s >= TOL: return 'pou', 'the basis sums to 1%+.3g inside element %d' % (s, e)
    except TableError as exc:
        return 'tables', str(exc)
    if rng.random() < (.15 if c.tier == 'quick' else .3):
        bad = H.numeric_basis_checks(c, poly, topo, basis, pou=pou, tag='periodic')
        if bad: return bad
    return None


def periodic_cases(c):
    rng = c.rng
    quick = c.tier == 'quick'
    btypes = ['lagrange', 'bernstein', 'std', 'connected-std', 'spline', 'discont']
    subsets = lambda nd: [tuple(s) for k in range(nd+1) for s in itertools.combinations(range(nd), k)]
    cases = []
    for n in (1, 2, 3):                                        # 1-D: complete enumeration
        for per in subsets(1):
            for btype in btypes + ['legendre']:
                for p in (1, 2, 3):
                    cases.append((btype, [n], per, p))
    two = [(btype, [n0, n1], per, p) for n0 in (1, 2, 3) for n1 in (1, 2, 3) for per in subsets(2) for btype in btypes for p in (1, 2, 3)]
    three = [(btype, list(s), per, p) for s in itertools.product((1, 2), repeat=3) for per in subsets(3) for btype in btypes for p in (1, 2)]
    def pick(pool, k):
        periodic_pool = [x for x in pool if x[2]]
        plain_pool = [x for x in pool if not x[2]]
        return rng.sample(periodic_pool, min(k, len(periodic_pool))) + rng.sample(plain_pool, min(max(1, k//10), len(plain_pool)))
    cases += pick(two, 70) if quick else two
    cases += pick(three, 10) if quick else pick(three, 250)
    return cases


def stream_periodic(c, H, mods, poly):
    ndis = 0; nexp = 0
    for btype, shape, periodic, p in periodic_cases(c):
        replay = dict(op='periodic-structured-basis', btype=btype, shape=shape, periodic=list(periodic), degree=p)
        c.case(('periodic', btype, tuple(shape), periodic, p), nontrivial=True)
        c.count('periodic:%s:%s' % (btype, 'seam-of-width-1' if any(shape[i] == 1 for i in periodic) else 'periodic' if periodic else 'plain'))
        family = 'c0' if btype in C0_TYPES and btype != 'std' else 'spline' if btype in ('std', 'spline') else btype
        try:
            bad = periodic_case_violation(c, H, mods, poly, btype, shape, periodic, p, replay)
        except Exception as exc:
            bad = ('exception', 'constructing / querying the basis raises %s: %s' % (type(exc).__name__, str(exc)[:200])); replay['exception'] = traceback.format_exc()[-1500:]
        nexp += 1
        if bad:
            if family == 'c0' and ambiguous_opposite_edge(shape, periodic) and bad[0] in ('ndofs', 'continuity', 'pou', 'inverse'):
                sig = KNOWN_C0_EDGE
            else:
                sig = 'periodic-%s:%s' % (family, bad[0])
            c.failing_input(sig, '%s degree %d on rectilinear(%s, periodic=%s): %s' % (btype, p, shape, list(periodic), bad[1]), replay)
            ndis += not c.match_known(sig)
        else:
            c.traces += 1
    c.obligation('oracle:periodic-structured (dof-count formula, inverse maps, partition of unity, continuity across every neighbour pair incl. the seam)',
                 ndis == 0, 'exploration', '%d bases' % nexp)


def known_c0_edge_regression(c, mesh):
    """re-run of the recorded minimal input of KNOWN_C0_EDGE on every run (reported only through the known-finding channel)"""
    entry = c.match_known(KNOWN_C0_EDGE)
    if entry is None: return
    try:
        topo, geom = mesh.rectilinear([2], periodic=[0])
        b = topo.basis('lagrange', degree=1)
        got = [[int(d) for d in b.get_dofs(e)] for e in range(2)]
        still = sorted(map(sorted, got)) != [[0, 1], [0, 1]]
    except Exception:
        still = True
    c.report_known_still_failing(entry, still)


# ================================================================================================ multipatch splines

def coxdeboor(p, T, x):
    """all B-splines N_{j,p}(x), j = 0 .. len(T)-p-2, on the knot vector T (Fractions; 0/0 := 0; half-open spans)"""
    N = [Fraction(1) if T[i] <= x < T[i+1] else Fraction(0) for i in range(len(T)-1)]
    for q in range(1, p+1):
        N = [(Fraction(0) if T[i+q] == T[i] else (x-T[i])/(T[i+q]-T[i])*N[i]) +
             (Fraction(0) if T[i+q+1] == T[i+1] else (T[i+q+1]-x)/(T[i+q+1]-T[i+1])*N[i+1]) for i in range(len(T)-q-1)]
    return N


LAYOUTS = {
    'chain1d-2': [(0,), (1,)], 'chain1d-3': [(0,), (1,), (2,)], 'single1d': [(0,)],
    'single2d': [(0, 0)], 'two': [(0, 0), (1, 0)], 'L': [(0, 0), (1, 0), (0, 1)], 'four': [(0, 0), (1, 0), (0, 1), (1, 1)], 'row3': [(0, 0), (1, 0), (2, 0)],
    'T': [(0, 0), (1, 0), (2, 0), (1, 1)],
    'two3d': [(0, 0, 0), (0, 1, 0)], 'L3d': [(0, 0, 0), (1, 0, 0), (0, 0, 1)],
}


def gen_multipatch(rng, tier):
    """random patch layout: cells of an integer grid; one global axis permutation and per-axis flip (patch interfaces must agree in
    axis order and orientation), random vertex numbering"""
    names = ['chain1d-2', 'chain1d-3', 'single2d', 'two', 'two', 'L', 'L', 'four', 'row3', 'T'] + (['two3d', 'L3d', 'single1d'] if tier == 'thorough' else ['two3d'])
    name = rng.choice(names)
    cells = LAYOUTS[name]
    nd = len(cells[0])
    perm = list(range(nd)); rng.shuffle(perm)
    flip = [rng.random() < .5 for _ in range(nd)]
    points = sorted(set(tuple(ci + oi for ci, oi in zip(cell, off)) for cell in cells for off in itertools.product((0, 1), repeat=nd)))
    numbering = list(range(len(points))); rng.shuffle(numbering)
    vid = {pt: numbering[i] for i, pt in enumerate(points)}
    patches = []
    for cell in cells:
        verts = numpy.zeros((2,)*nd, dtype=int)
        for loc in itertools.product((0, 1), repeat=nd):
            # local axis a runs along grid axis perm[a], from high to low when flipped
            pt = list(cell)
            for a in range(nd):
                pt[perm[a]] = cell[perm[a]] + ((1 - loc[a]) if flip[a] else loc[a])
            verts[loc] = vid[tuple(pt)]
        patches.append(verts)
    coords = [None]*len(points)
    for pt, i in vid.items(): coords[i] = [float(x) for x in pt]
    return name, nd, patches, coords


def edge_families(patches, nd):
    """directed edges (l, r) of all patches, grouped into families that must carry the same knot data (same patch axis of some
    patch, or shared between patches); returns (family id of every directed edge, per patch per axis the family id)"""
    parent = {}
    def find(x):
        while parent[x] != x:
            parent[x] = parent[parent[x]]; x = parent[x]
        return x
    per_patch = []
    for verts in patches:
        row = []
        for d in range(nd):
            left = tuple(0 if j == d else slice(None) for j in range(nd))
            right = tuple(1 if j == d else slice(None) for j in range(nd))
            edges = [(int(l), int(r)) for l, r in zip(verts[left].flat, verts[right].flat)] if nd > 1 else [(int(verts[0]), int(verts[1]))]
            for e in edges: parent.setdefault(e, e)
            for e in edges[1:]: parent[find(e)] = find(edges[0])
            row.append(edges[0])
        per_patch.append(row)
    roots = sorted(set(find(e) for e in parent))
    fam = {e: roots.index(find(e)) for e in parent}
    if any((r, l) in fam for (l, r) in fam): raise Infra('multipatch generator: an edge occurs in both directions')
    return fam, [[fam[e] for e in row] for row in per_patch], len(roots)


def gen_family_data(rng, p, cont, open_ends, maxn):
    """(n, mults or None, knot values or None) of one edge family, listed in the family's direction"""
    n = rng.choice([1, 2, 3, 3, 4][:maxn+1])
    c_ = cont + p if cont < 0 else cont
    m = None
    if rng.random() < .8:
        m = [rng.randint(1, p+1) for _ in range(n+1)]
        if open_ends: m[0] = m[-1] = p+1
        if sum(m) - p - 1 < 1: m[0] = m[-1] = p+1
        if n % 2 == 0 and n > 1 and rng.random() < .25:      # coarse list, refined by interleaving with p - continuity
            m = m[:n//2+1]
            if open_ends: m[-1] = p+1
            full = [x for pair in zip(m, [p-c_]*len(m)) for x in pair][:-1]
            if sum(full) - p - 1 < 1: m[0] = m[-1] = p+1
    k = None
    if rng.random() < .6:
        k = dyadic_knots(rng, n, uniform_prob=0.)
    return n, m, k


def resolve_family(H, p, cont, n, m):
    """the multiplicity list the specification gives a patch direction (python ints): explicit list refined by interleaving with
    p - continuity; default: open ends, interior p - continuity"""
    full = H.py_resolve_mults(p, n, cont, m)
    if full is None: return None
    if m is None: full = [p+1] + full[1:-1] + [p+1]
    return full


def multipatch_case(c, H, mods, poly, lean_queue):
    """build one random multipatch spline, returns (replay, bad)"""
    mesh, function, topology, element, transformseq = mods
    rng = c.rng
    name, nd, patches, coords = gen_multipatch(rng, c.tier)
    fam, patchfam, nfam = edge_families(patches, nd)
    p = rng.choice([1, 2, 2, 3] if nd < 3 else [1, 2])
    cont = rng.choice([-1, -1, -1] + list(range(0, p)))
    open_ends = rng.random() < .8
    patchcontinuous = open_ends and rng.random() < .8
    maxn = 4 if nd == 1 else 3 if nd == 2 else 2
    # defaults (key None) and per-family data
    n0 = rng.randint(1, min(3, maxn)); m0 = None; k0 = None
    if rng.random() < .3:
        _, m0, k0 = gen_family_data(rng, p, cont, open_ends, maxn)
        # the default lists must fit n0
        if m0 is not None and resolve_family(H, p, cont, n0, m0) is None: m0 = None
        if m0 is not None and sum(resolve_family(H, p, cont, n0, m0)) - p - 1 < 1: m0 = None
        if k0 is not None and len(k0) != n0 + 1: k0 = dyadic_knots(rng, n0, uniform_prob=0.)
    data = {}
    nelems = {None: n0}; kmults = {None: m0}; kvals = {None: [float(x) for x in k0] if k0 else None}
    for f in range(nfam):
        if rng.random() < .7:
            n, m, k = gen_family_data(rng, p, cont, open_ends, maxn)
            data[f] = (n, m, k)
            for (l, r), ff in sorted(fam.items()):
                if ff != f: continue
                nelems[(l, r) if rng.random() < .5 else (r, l)] = n
                # a list keyed (a, b) runs from a to b
                if rng.random() < .5: kmults[(l, r)] = m
                else: kmults[(r, l)] = None if m is None else m[::-1]
                if rng.random() < .5: kvals[(l, r)] = None if k is None else [float(x) for x in k]
                else: kvals[(r, l)] = None if k is None else [float(x) for x in k[::-1]]
        else:
            data[f] = (n0, m0, k0)
    replay = dict(op='multipatch-spline', layout=name, patches=[v.ravel().tolist() for v in patches], patchverts=coords, degree=p, continuity=cont,
                  patchcontinuous=patchcontinuous, nelems={str(k): v for k, v in nelems.items()}, knotmultiplicities={str(k): v for k, v in kmults.items()},
                  knotvalues={str(k): v for k, v in kvals.items()})
    c.case(('multipatch-spline', repr(replay)), nontrivial=True)
    c.count('mpspline:layout:' + name)
    # ---------------- specification side
    spec = {}
    for f, (n, m, k) in data.items():
        M = resolve_family(H, p, cont, n, m)
        if M is None or sum(M) - p - 1 < 1: raise Infra('multipatch generator produced an inadmissible family')
        K = k if k is not None else [Fraction(i) for i in range(n+1)]
        if len(K) != n+1: raise Infra('multipatch generator: knot values do not match nelems')
        npre = p + 1 - M[0]
        T = [K[i] for i in range(n+1) for _ in range(([p+1] + M[1:-1] + [p+1])[i])]
        ndim = sum(M) - p - 1
        loc = []
        for e in range(n):
            mu = sum(M[:e+1]) - 1
            loc.append(list(range(max(0, mu-p), min(ndim-1, mu)+1)))
        spec[f] = dict(n=n, M=M, K=K, T=T, npre=npre, nd=ndim, loc=loc)
        if any(M[i] != M[n-i] for i in range(n+1)): c.count('mpspline:non-palindromic-family')
    c.count('mpspline:edges-keyed-against-the-patch-direction', sum(1 for k in kmults if k is not None and (k[1], k[0]) in fam))
    # ---------------- real code
    try:
        topo, geom = mesh.multipatch(patches=[v.tolist() for v in patches], patchverts=coords, nelems=nelems)
        basis = topo.basis('spline', degree=p, patchcontinuous=patchcontinuous, knotvalues=kvals, knotmultiplicities=kmults, continuity=cont)
    except Exception as exc:
        replay['exception'] = traceback.format_exc()[-1500:]
        return replay, ('rejects-valid', 'mesh.multipatch / basis("spline") raises %s: %s for an admissible specification' % (type(exc).__name__, str(exc)[:200]))
    # element numbering: patch by patch, row-major inside a patch
    shapes = [[spec[f]['n'] for f in pf] for pf in patchfam]
    offsets = numpy.cumsum([0] + [math.prod(s) for s in shapes])
    if len(topo) != offsets[-1] or basis.nelems != offsets[-1]:
        return replay, ('nelems', 'topology has %d elements, basis %d, the specification %d' % (len(topo), basis.nelems, offsets[-1]))
    dofs, supp = H.real_basis_tables(basis)
    why = H.inverse_violation(dofs, supp, basis.ndofs)
    if why: return replay, ('inverse', 'get_support is not the inverse of get_dofs: ' + why)
    # ---- which local function is which B-spline; merged iff the same function
    key2dof = {}; dof2key = {}
    elem_info = []
    for ip, (verts, pf, shape) in enumerate(zip(patches, patchfam, shapes)):
        for ie, mi in enumerate(itertools.product(*[range(n) for n in shape])):
            e = int(offsets[ip]) + ie
            locs = [spec[f]['loc'][i] for f, i in zip(pf, mi)]
            tens = list(itertools.product(*locs))
            if len(dofs[e]) != len(tens):
                return replay, ('dofs', 'element %d lists %d dofs, %d B-splines are supported there' % (e, len(dofs[e]), len(tens)))
            elem_info.append((ip, mi, e, tens))
            for js, d in zip(tens, dofs[e]):
                if patchcontinuous:
                    sel = [[0] if j == 0 else [1] if j == spec[f]['nd']-1 else [0, 1] for f, j in zip(pf, js)]
                    V = frozenset(int(x) for x in verts[numpy.ix_(*sel)].flat)
                    key = (V, tuple((f, j) for f, j, s in zip(pf, js, sel) if len(s) == 2))
                else:
                    key = (ip, js)
                if key2dof.setdefault(key, d) != d:
                    return replay, ('dofs', 'one B-spline (patch %d, index %s) is listed under two dofs %d and %d' % (ip, list(js), key2dof[key], d))
                if dof2key.setdefault(d, (key, ip, js))[0] != key:
                    return replay, ('dofs', 'dof %d stands for two different functions: B-spline %s of patch %d and B-spline %s of patch %d' % (d, list(js), ip, list(dof2key[d][2]), dof2key[d][1]))
    if len(key2dof) != basis.ndofs:
        return replay, ('ndofs', 'the basis has %d functions, the specified spline space has dimension %d' % (basis.ndofs, len(key2dof)))
    # ---- values of every local function versus Cox-de Boor (exact rationals -> float)
    npts = 2
    all_open = all(s['M'][0] == p+1 == s['M'][-1] for s in spec.values())
    for ip, mi, e, tens in elem_info:
        pf = patchfam[ip]
        x = [[Fraction(rng.randint(1, 15), 16) for _ in range(nd)] for _ in range(npts)]
        co = numpy.asarray(basis.get_coefficients(e), dtype=float)
        if co.shape[0] != len(tens): return replay, ('coeff-shape', 'element %d: %d coefficient rows for %d dofs' % (e, co.shape[0], len(tens)))
        got = poly.eval_outer(co, numpy.array([[float(t) for t in pt] for pt in x]))
        for ipt, pt in enumerate(x):
            per_dim = []
            for f, i, t in zip(pf, mi, pt):
                s = spec[f]
                X = s['K'][i] + t*(s['K'][i+1]-s['K'][i])
                N = coxdeboor(p, s['T'], X)
                if len(lean_queue) < lean_queue.cap: lean_queue.append((p, s['T'], X, N))
                per_dim.append({j: N[j + s['npre']] for j in s['loc'][i]})
                if any(v != 0 for j, v in enumerate(N) if not (0 <= j - s['npre'] < s['nd']) or (j - s['npre']) not in s['loc'][i]) and all_open:
                    raise Infra('multipatch oracle: a B-spline outside the local list is non-zero')
            want = numpy.array([float(math.prod(per_dim[a][j] for a, j in enumerate(js))) for js in tens])
            err = float(abs(want - got[ipt]).max()) if len(tens) else 0.
            c.extra['max_mpspline_dev'] = max(c.extra.get('max_mpspline_dev', 0.), err)
            if err >= TOL:
                return replay, ('values', 'element %d (patch %d, %s): local functions deviate %.3g from the tensor-product B-splines of the specified knot vectors (multiplicities %s)'
                                % (e, ip, list(mi), err, [spec[f]['M'] for f in pf]))
            if all_open and abs(got[ipt].sum() - 1) >= TOL:
                return replay, ('pou', 'element %d: the basis sums to 1%+.3g' % (e, got[ipt].sum() - 1))
    # ---- advertised continuity at every knot line inside the patches: C^(p-m) and not smoother
    elem_of = {(ip, mi): e for ip, mi, e, tens in elem_info}
    try:
        for ip, mi, e, tens in elem_info:
            pf = patchfam[ip]
            for d in range(nd):
                s = spec[pf[d]]
                if mi[d] + 1 >= s['n']: continue
                mj = mi[:d] + (mi[d]+1,) + mi[d+1:]
                e2 = elem_of[ip, mj]
                mk = s['M'][mi[d]+1]
                h1 = float(s['K'][mi[d]+1]-s['K'][mi[d]]); h2 = float(s['K'][mi[d]+2]-s['K'][mi[d]+1])
                pts = numpy.array([[rng.randint(1, 15)/16 for _ in range(nd)] for _ in range(2)])
                a = pts.copy(); a[:, d] = 1.
                b = pts.copy(); b[:, d] = 0.
                ca = numpy.asarray(basis.get_coefficients(e), dtype=float); cb = numpy.asarray(basis.get_coefficients(e2), dtype=float)
                for r in range(0, p+1):
                    if r:
                        ca = poly.partial_deriv(ca, nd, d); cb = poly.partial_deriv(cb, nd, d)
                    if r > p - mk + 1: break
                    jump = numpy.zeros((2, basis.ndofs))
                    numpy.add.at(jump, (slice(None), dofs[e]), poly.eval_outer(ca, a) / h1**r)
                    numpy.add.at(jump, (slice(None), dofs[e2]), -poly.eval_outer(cb, b) / h2**r)
                    size = float(abs(jump).max())
                    if r <= p - mk and size >= TOL:
                        return replay, ('continuity', 'patch %d: derivative %d along axis %d jumps by %.3g between elements %s and %s (multiplicity %d, degree %d: C^%d advertised; multiplicities %s)'
                                        % (ip, r, d, size, list(mi), list(mj), mk, p, p-mk, s['M']))
                    if r == p - mk + 1 and size < 1e-6:
                        return replay, ('forced-continuous', 'patch %d: derivative %d along axis %d is continuous between elements %s and %s although the multiplicity %d only gives C^%d (multiplicities %s)'
                                        % (ip, r, d, list(mi), list(mj), mk, p-mk, s['M']))
        # ---- C^0 across patch interfaces
        if patchcontinuous:
            faces = {}
            for ip, verts in enumerate(patches):
                for d in range(nd):
                    for side in (0, 1):
                        idx = tuple(side if j == d else slice(None) for j in range(nd))
                        faces.setdefault(tuple(int(x) for x in numpy.asarray(verts[idx]).flat), []).append((ip, d, side))
            for key, users in faces.items():
                if len(users) != 2: continue
                (ia, da, sa), (ib, db, sb) = users
                if da != db or sa == sb: raise Infra('multipatch generator: inconsistent interface')
                rest = [range(n) for j, n in enumerate(shapes[ia]) if j != da]
                for other in itertools.product(*rest):
                    ma = other[:da] + ((shapes[ia][da]-1 if sa else 0),) + other[da:]
                    mb = other[:da] + ((shapes[ib][da]-1 if sb else 0),) + other[da:]
                    pts = numpy.array([[rng.randint(1, 15)/16 for _ in range(nd)] for _ in range(2)])
                    a = pts.copy(); a[:, da] = float(sa)
                    b = pts.copy(); b[:, da] = float(sb)
                    va = global_values(poly, basis, elem_of[ia, ma], a, H.canon); vb = global_values(poly, basis, elem_of[ib, mb], b, H.canon)
                    size = float(abs(va - vb).max())
                    if size >= TOL:
                        return replay, ('patch-continuity', 'the basis jumps by %.3g across the interface of patches %d and %d (patchcontinuous=True)' % (size, ia, ib))
            c.count('mpspline:patchcontinuous')
    except TableError as exc:
        return replay, ('tables', str(exc))
    if rng.random() < (.2 if c.tier == 'quick' else .3):
        bad = H.numeric_basis_checks(c, poly, topo, basis, pou=all_open, tag='mpspline')
        if bad: return replay, bad
    return replay, None


class Queue(list):
    cap = 0


def stream_multipatch_spline(c, H, mods, poly, N):
    """generator stream: real-code phase first, then the python Cox-de Boor oracle is cross-checked against the Lean model"""
    ndis = 0
    lean_queue = Queue(); lean_queue.cap = 120 if c.tier == 'quick' else 1500
    for _ in range(N):
        try:
            replay, bad = multipatch_case(c, H, mods, poly, lean_queue)
        except Infra:
            raise
        if bad:
            ndis += 1
            c.failing_input('multipatch-spline:' + bad[0], 'multipatch spline basis: ' + bad[1], replay)
        else:
            c.traces += 1
    c.obligation('oracle:multipatch-spline (per-edge knot data on randomly oriented keys: local functions = tensor B-splines, merged iff same function, '
                 'continuity at knot lines and patch interfaces, partition of unity)', ndis == 0, 'exploration', '%d bases' % N)
    seen = set(); reqs = []
    for p, T, X, N_ in lean_queue:
        line = 'bspline|%d|%s|%s' % (p, ' '.join(H.frac_str(t) for t in T), H.frac_str(X))
        if line not in seen:
            seen.add(line); reqs.append((line, N_))
    ans = yield [l for l, _ in reqs]
    for (line, N_), a in zip(reqs, ans):
        if not a.startswith('ok|') or H.parse_fracs(a[3:]) != N_:
            raise Infra('python Cox-de Boor oracle differs from the Lean model on %s: %s' % (line, a[:200]))
    c.obligation('values:multipatch-oracle-vs-CoxDeBoor(Q) (python oracle = Lean bspline)', True, 'validation', '%d exact evaluations' % len(reqs))


# ================================================================================================ slices / index forms of Basis.__getitem__

SLICE_PARENTS = ('structured-spline-1d', 'structured-std-2d', 'structured-lagrange-2d', 'structured-discont-1d', 'structured-legendre-1d',
                 'structured-bernstein-1d', 'unitsquare-triangle-std', 'hierarchical-th-spline-2d', 'hierarchical-h-std-1d', 'pruned-subset',
                 'pruned-trimmed', 'multipatch', 'masked', 'partition')


def slice_forms(rng, n, tier):
    starts = [None, 0, 1, 2, -1, -2, -n, -n-1, n-1, n, n+2]
    stops = [None, 0, 1, n-1, n, n+3, -1, -n, -n-1]
    steps = [None, 1, 2, 3, n, n+1, -1, -2, -n, 0]
    forms = sorted(set(itertools.product(starts, stops, steps)), key=repr)
    if tier == 'quick' and len(forms) > 350:
        forms = rng.sample(forms, 350)
    return [slice(*f) for f in forms]


def table_violation(H, parent, ptabs, sub, keep):
    """spec: a basis restricted to the (increasing) dofs `keep` lists, per element, the kept parent dofs renumbered in order, with the
    parent's coefficient rows; supports are the parent's"""
    pdofs, psupp, pcoeffs = ptabs
    if sub.ndofs != len(keep): return 'ndofs %d for %d selected functions' % (sub.ndofs, len(keep))
    if sub.nelems != parent.nelems: return 'nelems differs from the parent'
    renumber = {d: i for i, d in enumerate(keep)}
    for e in range(parent.nelems):
        sel = [i for i, d in enumerate(pdofs[e]) if d in renumber]
        want = [renumber[pdofs[e][i]] for i in sel]
        got = H.canon(sub.get_dofs(e))
        if got != want: return 'element %d: dofs %s, the selected parent dofs renumbered are %s' % (e, got, want)
        co = numpy.asarray(sub.get_coefficients(e))
        if co.shape[0] != len(sel) or (len(sel) and not numpy.array_equal(co, numpy.asarray(pcoeffs[e])[sel])):
            return 'element %d: coefficient rows are not the parent rows of the selected dofs' % e
    for i, d in enumerate(keep):
        got = H.canon(sub.get_support(i))
        if got != psupp[d]: return 'get_support(%d) = %s, the support of parent dof %d is %s' % (i, got, d, psupp[d])
    return None


def slices_of_parent(c, H, function, name, e, records):
    """returns list of (signature-kind, text, index-repr) violations for one parent basis; appends (n, slice, what the real code
    returned, python's selection) to `records` for the comparison with the Lean model `basisGetSlice`"""
    rng = c.rng
    parent = e.basis
    n = parent.ndofs
    out = []
    pdofs, psupp = H.real_basis_tables(parent)
    pcoeffs = [parent.get_coefficients(el) for el in range(parent.nelems)]
    ptabs = (pdofs, psupp, pcoeffs)
    smpl = e.topo.sample('gauss', 2)
    V = None
    def values_violation(sub, idx):
        nonlocal V
        if V is None: V = smpl.eval(parent)
        got = smpl.eval(sub)
        want = V[:, idx]
        if got.shape != want.shape: return 'evaluates to shape %s, expected %s' % (got.shape, want.shape)
        err = float(abs(got - want).max()) if got.size else 0.
        return 'values deviate %.3g from the selected parent functions' % err if err >= TOL else None
    forms = slice_forms(rng, n, c.tier)
    nfull = 0; nvals = 0
    budget_full = 20 if c.tier == 'quick' else 120
    budget_vals = 5 if c.tier == 'quick' else 20
    want_full = set(rng.sample(range(len(forms)), min(budget_full, len(forms))))
    want_vals = set(rng.sample(range(len(forms)), min(budget_vals, len(forms))))
    for k, sl in enumerate(forms):
        tag = 'basis[%s:%s:%s]' % tuple('' if x is None else x for x in (sl.start, sl.stop, sl.step))
        try:
            keep = list(range(n))[sl]
        except ValueError:
            keep = None        # step 0: numpy / python refuse
        try:
            sub = parent[sl]
        except Exception as exc:
            if keep is not None: out.append(('raises', '%s raises %s: %s' % (tag, type(exc).__name__, str(exc)[:100]), tag))
            records.append((n, sl, 'valueerror' if isinstance(exc, ValueError) else 'raises ' + type(exc).__name__, keep, tag))
            c.count('slices:refused'); continue
        records.append((n, sl, 'self' if sub is parent else 'masked|' + H.ints(sub._indices) if isinstance(sub, function.MaskedBasis) and sub._parent is parent
                        else 'other-basis' if isinstance(sub, function.Basis) else 'generic', keep, tag))
        c.count('slices:' + ('step>1' if (sl.step or 1) > 1 else 'step<0' if (sl.step or 1) < 0 else 'step1'))
        if keep is None:
            out.append(('accepts-step-0', '%s is accepted (slice step cannot be zero)' % tag, tag)); continue
        if tuple(sub.shape) != (len(keep),):
            out.append(('length', '%s has %s functions, numpy slicing selects %d of %d' % (tag, tuple(sub.shape), len(keep), n), tag)); continue
        isb = isinstance(sub, function.Basis)
        increasing = all(a < b for a, b in zip(keep, keep[1:]))
        suspicious = isb and not (sub is parent) and not (isinstance(sub, function.MaskedBasis) and sub._parent is parent and H.canon(sub._indices) == keep)
        if isb and increasing and (k in want_full or suspicious):
            why = table_violation(H, parent, ptabs, sub, keep); nfull += 1
            if why: out.append(('tables', '%s: %s' % (tag, why), tag)); continue
        if k in want_vals or suspicious or (isb and not increasing):
            why = values_violation(sub, keep); nvals += 1
            if why: out.append(('values', '%s: %s' % (tag, why), tag)); continue
    # index arrays and masks
    others = []
    if n:
        others.append(('mask', numpy.array([rng.random() < .5 for _ in range(n)])))
        others.append(('sorted-ints', numpy.array(sorted(rng.sample(range(n), rng.randint(0, n))), dtype=int)))
        others.append(('ints', numpy.array([rng.randrange(-n, n) for _ in range(rng.randint(1, 4))], dtype=int)))
        others.append(('int', rng.randrange(-n, n)))
    for kind, idx in others:
        tag = 'basis[%s %s]' % (kind, numpy.asarray(idx).tolist())
        try:
            sub = parent[idx]
            want = numpy.arange(n)[idx]
        except Exception as exc:
            out.append(('raises', '%s raises %s: %s' % (tag, type(exc).__name__, str(exc)[:100]), tag)); continue
        c.count('slices:index-' + kind)
        if tuple(sub.shape) != tuple(numpy.shape(want)):
            out.append(('length', '%s has shape %s, numpy indexing gives %s' % (tag, tuple(sub.shape), numpy.shape(want)), tag)); continue
        if isinstance(sub, function.Basis) and numpy.ndim(want) == 1:
            why = table_violation(H, parent, ptabs, sub, [int(x) for x in want])
            if why: out.append(('tables', '%s: %s' % (tag, why), tag)); continue
        why = values_violation(sub, want)
        if why: out.append(('values', '%s: %s' % (tag, why), tag))
    c.count('slices:full-table-checks', nfull); c.count('slices:value-checks', nvals)
    return out, len(forms) + len(others)


def stream_slices(c, H, mods, rounds):
    """generator stream: spec-oracle phase on the real code, then (M) the outcome class of every slice versus the Lean model
    `basisGetSlice` (about which `getitem_slice_content` is proved) and the model's `slice.indices` versus the interpreter"""
    mesh, function, topology, element, transformseq = mods
    entries = dict(H.zoo(c, mods))
    ndis = 0; nforms = 0; nparents = 0
    records = []
    for rnd in range(rounds):
        for name in SLICE_PARENTS:
            try:
                e = entries[name]()
            except Exception:
                c.count('slices:parent-construction-raised'); continue     # reported by the zoo stream
            if e is None or not isinstance(e.basis, function.Basis) or e.basis.ndofs == 0: continue
            if isinstance(e.basis, function.PrunedBasis) and H.canon(e.basis._dofmap) != sorted(set(H.canon(e.basis._dofmap))): continue   # known finding of the zoo
            nparents += 1
            c.case(('slices', name, repr(e.args)), nontrivial=True)
            c.count('slices-parent:' + type(e.basis).__name__)
            try:
                bad, k = slices_of_parent(c, H, function, name, e, records)
            except Exception as exc:
                bad, k = [('exception', 'checking slices raises %s: %s' % (type(exc).__name__, str(exc)[:200]), traceback.format_exc()[-1500:])], 0
            nforms += k
            for kind, text, tag in bad:
                ndis += 1
                c.failing_input('basis-getitem:' + kind, '%s (%s, %d dofs): %s' % (name, e.name, e.basis.ndofs, text), dict(op='basis-getitem', parent=name, parent_args=e.args, index=tag))
            if not bad: c.traces += 1
    c.obligation('oracle:basis-getitem (all slice forms, index arrays, masks versus numpy indexing of the parent: length, values, dofs, coefficient rows, supports)',
                 ndis == 0 and nparents > 0, 'exploration', '%d index forms on %d parent bases' % (nforms, nparents))
    opt = lambda x: '-' if x is None else str(int(x))
    uniq = {}
    for n, sl, real, keep, tag in records:
        uniq.setdefault((n, sl.start, sl.stop, sl.step), (real, keep, tag))
    keys = sorted(uniq, key=repr)
    cap = 1500 if c.tier == 'quick' else 20000
    if len(keys) > cap: keys = c.rng.sample(keys, cap)
    ans = yield ['getitem|%d|%s|%s|%s' % (n, opt(a), opt(b), opt(s_)) for n, a, b, s_ in keys]
    nbad = 0
    for key, a in zip(keys, ans):
        real, keep, tag = uniq[key]
        n = key[0]
        # the model's transcription of slice.indices / numpy.arange versus the running interpreter
        content = list(range(n)) if a == 'self' else [int(w) for w in a.split('|')[1].split()] if a.startswith('masked|') else None
        if a == 'bad-request' or (a == 'valueerror') != (keep is None) or (content is not None and content != keep) or \
                (a == 'generic') != (keep is not None and (key[3] or 1) < 0):
            raise Infra('Lean model of slice.indices disagrees with the interpreter on n=%d %s: %s vs %s' % (n, tag, a, keep))
        if real != a:
            nbad += 1
            c.broken_no_input('corr:Basis.__getitem__(slice)', 'model and implementation disagree on what basis[slice] returns (self / MaskedBasis indices / generic / ValueError)',
                              dict(op='basis-getitem', ndofs=n, index=tag, real=real[:300], model=a[:300]))
    c.obligation('corr:Basis.__getitem__(slice) (self / MaskedBasis indices / generic / ValueError)', nbad == 0 and len(keys) > 0, 'correspondence', '%d distinct (ndofs, slice) requests' % len(keys))
